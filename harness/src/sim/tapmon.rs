//! Passive wire monitor for C15 (linked into every full-stack workload).
//!
//! For secured datagrams (session id != 0) from one sender to one destination:
//!  * the same (session id, security flags, counter, source node id) must always carry
//!    the same bytes (a retransmission is bit-for-bit identical; otherwise two different
//!    plaintexts were encrypted under one nonce);
//!  * counter order on the wire is counted, not judged: slightly swapped emission order is
//!    legitimate, and a large regression cannot be told from a new session re-using a
//!    peer-assigned session id without the keys. Monotonicity is judged on snapshots (snapmon).
//! `epoch` distinguishes successive sessions that legitimately reuse a session id with
//! fresh keys (the caller passes a fingerprint of the encryption key when it knows it).

use std::cell::RefCell;
use std::collections::HashMap;

use super::rng::Fnv;
use super::wire;

#[derive(Default)]
struct Inner {
    /// (src, dst-hash, session id, epoch) -> (max ctr, map ctr -> bytes hash)
    sessions: HashMap<(usize, u64, u16, u64), (u32, HashMap<u32, u64>)>,
    violations: Vec<String>,
    secured: u64,
    retransmissions: u64,
    /// new counters that appeared on the wire slightly out of order (not judged)
    swapped: u64,
    /// new counters far below the maximum of "the same" (src, dst, session id) - see below
    regressed: u64,
}

/// How far below the session's maximum a new counter may appear on the wire.
pub const REORDER_SLACK: u64 = 32;

#[derive(Default)]
pub struct TapMonitor(RefCell<Inner>);

impl TapMonitor {
    pub fn new() -> Self {
        Self::default()
    }

    pub fn observe(&self, src: usize, bytes: &[u8]) {
        self.observe_keyed(src, 0, bytes, 0)
    }

    pub fn observe_keyed(&self, src: usize, dst: u64, bytes: &[u8], epoch: u64) {
        let Some(info) = wire::peek(bytes) else {
            return;
        };
        if info.session_id == 0 {
            return;
        }
        let mut inner = self.0.borrow_mut();
        inner.secured += 1;
        let h = Fnv::of(bytes);
        let key = (src, dst ^ info.src_node.unwrap_or(0), info.session_id, epoch);
        let mut viol: Option<String> = None;
        let mut retrans = false;
        let mut inner_swapped = false;
        let mut inner_regressed = false;
        {
            let entry = inner
                .sessions
                .entry(key)
                .or_insert_with(|| (0, HashMap::new()));
            match entry.1.get(&info.ctr) {
                Some(prev) => {
                    if *prev != h {
                        viol = Some(format!(
                            "nonce-reuse: node {} session {} counter {} sent twice with different bytes",
                            src, info.session_id, info.ctr
                        ));
                    } else {
                        retrans = true;
                    }
                }
                None => {
                    // Counters are assigned in increasing order, but two messages prepared at
                    // about the same time can leave in swapped order (a message waiting in the
                    // TX buffer vs. a stand-alone ACK sent directly), so a slightly smaller
                    // counter on the wire is not a defect. A counter far below the maximum
                    // cannot be explained that way: the session's counter went backwards.
                    // A counter far below the maximum is either a *new* session that happens to
                    // carry the same peer-assigned session id (fresh keys, fresh random counter:
                    // legitimate - the tap cannot tell without the keys) or a counter that went
                    // backwards. It is counted, not judged here: counter monotonicity per session
                    // is judged on the session-table snapshots (`snapmon`), where sessions have
                    // unique internal ids; an actual reuse of a counter value is caught by the
                    // rule above.
                    if !entry.1.is_empty() && (info.ctr as u64) + REORDER_SLACK < entry.0 as u64 {
                        inner_regressed = true;
                    } else if !entry.1.is_empty() && info.ctr <= entry.0 {
                        inner_swapped = true;
                    }
                    entry.1.insert(info.ctr, h);
                    if info.ctr > entry.0 {
                        entry.0 = info.ctr;
                    }
                }
            }
        }
        if retrans {
            inner.retransmissions += 1;
        }
        if inner_swapped {
            inner.swapped += 1;
        }
        if inner_regressed {
            inner.regressed += 1;
        }
        if let Some(v) = viol {
            inner.violations.push(v);
        }
    }

    pub fn violations(&self) -> Vec<String> {
        self.0.borrow().violations.clone()
    }

    pub fn regressed(&self) -> u64 {
        self.0.borrow().regressed
    }

    pub fn swapped(&self) -> u64 {
        self.0.borrow().swapped
    }

    /// (secured datagrams seen, byte-identical retransmissions seen)
    pub fn stats(&self) -> (u64, u64) {
        let i = self.0.borrow();
        (i.secured, i.retransmissions)
    }
}
