//! Passive wire monitor for C15 (linked into every full-stack workload).
//!
//! For secured datagrams (session id != 0) from one sender to one destination:
//!  * the same (session id, security flags, counter, source node id) must always carry
//!    the same bytes (a retransmission is bit-for-bit identical; otherwise two different
//!    plaintexts were encrypted under one nonce);
//!  * a datagram that is not a retransmission must carry a counter strictly greater
//!    than every earlier one of that session.
//! `epoch` distinguishes successive sessions that legitimately reuse a session id with
//! fresh keys (the caller passes a fingerprint of the encryption key when it knows it).

use std::cell::RefCell;
use std::collections::HashMap;

use super::rng::Fnv;
use super::wire;

#[derive(Default)]
struct Inner {
    /// (src, dst-hash, session id, epoch) -> (max ctr, map ctr -> bytes hash)
    sessions: HashMap<(usize, u64, u16, u64), (u32, HashMap<u32, u64>)>,
    violations: Vec<String>,
    secured: u64,
    retransmissions: u64,
}

#[derive(Default)]
pub struct TapMonitor(RefCell<Inner>);

impl TapMonitor {
    pub fn new() -> Self {
        Self::default()
    }

    pub fn observe(&self, src: usize, bytes: &[u8]) {
        self.observe_keyed(src, 0, bytes, 0)
    }

    pub fn observe_keyed(&self, src: usize, dst: u64, bytes: &[u8], epoch: u64) {
        let Some(info) = wire::peek(bytes) else {
            return;
        };
        if info.session_id == 0 {
            return;
        }
        let mut inner = self.0.borrow_mut();
        inner.secured += 1;
        let h = Fnv::of(bytes);
        let key = (src, dst ^ info.src_node.unwrap_or(0), info.session_id, epoch);
        let mut viol: Option<String> = None;
        let mut retrans = false;
        {
            let entry = inner
                .sessions
                .entry(key)
                .or_insert_with(|| (0, HashMap::new()));
            match entry.1.get(&info.ctr) {
                Some(prev) => {
                    if *prev != h {
                        viol = Some(format!(
                            "nonce-reuse: node {} session {} counter {} sent twice with different bytes",
                            src, info.session_id, info.ctr
                        ));
                    } else {
                        retrans = true;
                    }
                }
                None => {
                    if !entry.1.is_empty() && info.ctr <= entry.0 {
                        viol = Some(format!(
                            "counter-not-increasing: node {} session {} new message counter {} <= earlier {}",
                            src, info.session_id, info.ctr, entry.0
                        ));
                    }
                    entry.1.insert(info.ctr, h);
                    if info.ctr > entry.0 {
                        entry.0 = info.ctr;
                    }
                }
            }
        }
        if retrans {
            inner.retransmissions += 1;
        }
        if let Some(v) = viol {
            inner.violations.push(v);
        }
    }

    pub fn violations(&self) -> Vec<String> {
        self.0.borrow().violations.clone()
    }

    /// (secured datagrams seen, byte-identical retransmissions seen)
    pub fn stats(&self) -> (u64, u64) {
        let i = self.0.borrow();
        (i.secured, i.retransmissions)
    }
}
