//! Passive wire monitor for C15 (linked into every full-stack workload).
//!
//! For secured datagrams (session id != 0) from one sender to one destination:
//!  * the same (session id, security flags, counter, source node id) must always carry
//!    the same bytes (a retransmission is bit-for-bit identical; otherwise two different
//!    plaintexts were encrypted under one nonce);
//!  * counter order on the wire is counted, not judged: slightly swapped emission order is
//!    legitimate, and a large regression cannot be told from a new session re-using a
//!    peer-assigned session id without the keys. Monotonicity is judged on snapshots (snapmon).
//! `epoch` distinguishes successive sessions that legitimately reuse a session id with
//! fresh keys (the caller passes a fingerprint of the encryption key when it knows it).

use std::cell::RefCell;
use std::collections::HashMap;

use super::rng::Fnv;
use super::wire;

#[derive(Default)]
struct Inner {
    /// (src, dst-hash, session id, epoch) -> (max ctr, map ctr -> bytes hash)
    sessions: HashMap<(usize, u64, u16, u64), (u32, HashMap<u32, u64>)>,
    /// (src, ephemeral node ids, counter) -> bytes hash, for unsecured messages
    unsecured_seen: HashMap<(usize, u64, u32), Vec<u8>>,
    ack_piggyback_rebuilds: u64,
    violations: Vec<String>,
    unsecured: u64,
    secured: u64,
    retransmissions: u64,
    /// new counters that appeared on the wire slightly out of order (not judged)
    swapped: u64,
    /// new counters far below the maximum of "the same" (src, dst, session id) - see below
    regressed: u64,
}

/// How far below the session's maximum a new counter may appear on the wire.
pub const REORDER_SLACK: u64 = 32;

#[derive(Default)]
pub struct TapMonitor(RefCell<Inner>);

impl TapMonitor {
    pub fn new() -> Self {
        Self::default()
    }

    pub fn observe(&self, src: usize, bytes: &[u8]) {
        self.observe_keyed(src, 0, bytes, 0)
    }

    pub fn observe_keyed(&self, src: usize, dst: u64, bytes: &[u8], epoch: u64) {
        let Some(info) = wire::peek(bytes) else {
            return;
        };
        let mut inner = self.0.borrow_mut();
        let h = Fnv::of(bytes);
        if info.session_id == 0 {
            // Unsecured (handshake) messages carry no nonce, but a retransmission must still be
            // bit-for-bit the original (Sigma2 / Sigma3 carry randomised signatures: a rebuilt
            // message would differ). An unsecured session is identified by the ephemeral node
            // ids in the header; its counter starts at a random value.
            inner.unsecured += 1;
            // Only messages that ask for an acknowledgement are ever retransmitted; stateless
            // one-shot answers (Busy / SessionNotFound status reports, always sent with
            // counter 1) are not retransmissions of each other.
            if info.exch_flags.map(|f| f & wire::EXCH_R == 0).unwrap_or(true) {
                return;
            }
            let key = (
                src,
                dst ^ info.src_node.unwrap_or(0) ^ info.dst_node.unwrap_or(0).rotate_left(17),
                info.ctr,
            );
            let prev = inner.unsecured_seen.get(&key).cloned();
            match prev {
                Some(prev) if prev != bytes => {
                    if same_but_for_piggyback_ack(&prev, bytes) {
                        // The retransmission was rebuilt after a reliable message of the peer
                        // arrived that did not acknowledge it, and now carries that message's
                        // acknowledgement. On an unsecured session nothing is encrypted, so no
                        // nonce is involved: counted, not judged.
                        inner.ack_piggyback_rebuilds += 1;
                    } else {
                        inner.violations.push(format!(
                            "unsecured-retransmission-differs: node {} unsecured message counter {} (opcode {:?}) sent twice with different bytes [{}] vs [{}]",
                            src, info.ctr, info.opcode, crate::util::hex(&prev), crate::util::hex(bytes)
                        ));
                    }
                }
                Some(_) => inner.retransmissions += 1,
                None => {
                    inner.unsecured_seen.insert(key, bytes.to_vec());
                }
            }
            return;
        }
        inner.secured += 1;
        let key = (src, dst ^ info.src_node.unwrap_or(0), info.session_id, epoch);
        let mut viol: Option<String> = None;
        let mut retrans = false;
        let mut inner_swapped = false;
        let mut inner_regressed = false;
        {
            let entry = inner
                .sessions
                .entry(key)
                .or_insert_with(|| (0, HashMap::new()));
            match entry.1.get(&info.ctr) {
                Some(prev) => {
                    if *prev != h {
                        viol = Some(format!(
                            "nonce-reuse: node {} session {} counter {} sent twice with different bytes",
                            src, info.session_id, info.ctr
                        ));
                    } else {
                        retrans = true;
                    }
                }
                None => {
                    // Counters are assigned in increasing order, but two messages prepared at
                    // about the same time can leave in swapped order (a message waiting in the
                    // TX buffer vs. a stand-alone ACK sent directly), so a slightly smaller
                    // counter on the wire is not a defect. A counter far below the maximum
                    // cannot be explained that way: the session's counter went backwards.
                    // A counter far below the maximum is either a *new* session that happens to
                    // carry the same peer-assigned session id (fresh keys, fresh random counter:
                    // legitimate - the tap cannot tell without the keys) or a counter that went
                    // backwards. It is counted, not judged here: counter monotonicity per session
                    // is judged on the session-table snapshots (`snapmon`), where sessions have
                    // unique internal ids; an actual reuse of a counter value is caught by the
                    // rule above.
                    if !entry.1.is_empty() && (info.ctr as u64) + REORDER_SLACK < entry.0 as u64 {
                        inner_regressed = true;
                    } else if !entry.1.is_empty() && info.ctr <= entry.0 {
                        inner_swapped = true;
                    }
                    entry.1.insert(info.ctr, h);
                    if info.ctr > entry.0 {
                        entry.0 = info.ctr;
                    }
                }
            }
        }
        if retrans {
            inner.retransmissions += 1;
        }
        if inner_swapped {
            inner.swapped += 1;
        }
        if inner_regressed {
            inner.regressed += 1;
        }
        if let Some(v) = viol {
            inner.violations.push(v);
        }
    }

    pub fn violations(&self) -> Vec<String> {
        self.0.borrow().violations.clone()
    }

    pub fn ack_piggyback_rebuilds(&self) -> u64 {
        self.0.borrow().ack_piggyback_rebuilds
    }

    pub fn regressed(&self) -> u64 {
        self.0.borrow().regressed
    }

    pub fn swapped(&self) -> u64 {
        self.0.borrow().swapped
    }

    /// (secured datagrams seen, byte-identical retransmissions seen)
    pub fn stats(&self) -> (u64, u64) {
        let i = self.0.borrow();
        (i.secured, i.retransmissions)
    }
}


/// Do `a` and `b` (two unsecured datagrams with the same counter) differ only in the
/// piggy-backed acknowledgement (A flag and / or the 4-byte acknowledged counter)?
fn same_but_for_piggyback_ack(a: &[u8], b: &[u8]) -> bool {
    fn strip(d: &[u8]) -> Option<Vec<u8>> {
        let i = wire::peek(d)?;
        let f = i.exch_flags?;
        let payload_off = i.payload_off?;
        let hdr = i.hdr_len;
        let mut out = d[..hdr].to_vec();
        out.push(f & !wire::EXCH_A);
        if f & wire::EXCH_A != 0 {
            if payload_off < hdr + 5 {
                return None;
            }
            out.extend_from_slice(&d[hdr + 1..payload_off - 4]);
        } else {
            out.extend_from_slice(&d[hdr + 1..payload_off]);
        }
        out.extend_from_slice(&d[payload_off..]);
        Some(out)
    }
    match (strip(a), strip(b)) {
        (Some(x), Some(y)) => x == y,
        _ => false,
    }
}
