//! Seeded PRNG (xoshiro256**, seeded through splitmix64).
//!
//! Used for every random choice of the harness *and* handed to rs-matter's `Crypto`
//! object, so a scenario replays bit-for-bit from its seed. It says nothing about
//! randomness quality.

use rand_core::{CryptoRng, RngCore};

pub fn splitmix64(state: &mut u64) -> u64 {
    *state = state.wrapping_add(0x9E37_79B9_7F4A_7C15);
    let mut z = *state;
    z = (z ^ (z >> 30)).wrapping_mul(0xBF58_476D_1CE4_E5B9);
    z = (z ^ (z >> 27)).wrapping_mul(0x94D0_49BB_1331_11EB);
    z ^ (z >> 31)
}

/// Derive a sub-seed from a seed and a list of indices.
pub fn subseed(seed: u64, idx: &[u64]) -> u64 {
    let mut s = seed ^ 0xA076_1D64_78BD_642F;
    let mut out = splitmix64(&mut s);
    for i in idx {
        s ^= i.wrapping_mul(0xE703_7ED1_A0B4_28DB);
        out ^= splitmix64(&mut s);
    }
    out
}

#[derive(Clone, Debug)]
pub struct Rng {
    s: [u64; 4],
}

impl Rng {
    pub fn new(seed: u64) -> Self {
        let mut sm = seed;
        let s = [
            splitmix64(&mut sm),
            splitmix64(&mut sm),
            splitmix64(&mut sm),
            splitmix64(&mut sm),
        ];
        Self { s }
    }

    #[inline]
    pub fn u64(&mut self) -> u64 {
        let result = self.s[1].wrapping_mul(5).rotate_left(7).wrapping_mul(9);
        let t = self.s[1] << 17;
        self.s[2] ^= self.s[0];
        self.s[3] ^= self.s[1];
        self.s[1] ^= self.s[2];
        self.s[0] ^= self.s[3];
        self.s[2] ^= t;
        self.s[3] = self.s[3].rotate_left(45);
        result
    }

    #[inline]
    pub fn u32(&mut self) -> u32 {
        (self.u64() >> 32) as u32
    }

    /// Uniform in `0..n` (n > 0). Modulo bias is irrelevant for workload generation.
    #[inline]
    pub fn below(&mut self, n: u64) -> u64 {
        self.u64() % n.max(1)
    }

    #[inline]
    pub fn range(&mut self, lo: u64, hi_incl: u64) -> u64 {
        let span = hi_incl.wrapping_sub(lo).wrapping_add(1);
        if span == 0 {
            return self.u64();
        }
        lo + self.u64() % span
    }

    #[inline]
    pub fn usize(&mut self, n: usize) -> usize {
        (self.u64() % n.max(1) as u64) as usize
    }

    #[inline]
    pub fn chance(&mut self, num: u32, den: u32) -> bool {
        (self.u64() % den as u64) < num as u64
    }

    #[inline]
    pub fn bool(&mut self) -> bool {
        self.u64() & 1 == 1
    }

    pub fn pick<'a, T>(&mut self, v: &'a [T]) -> &'a T {
        &v[self.usize(v.len())]
    }

    pub fn shuffle<T>(&mut self, v: &mut [T]) {
        for i in (1..v.len()).rev() {
            let j = self.usize(i + 1);
            v.swap(i, j);
        }
    }

    pub fn bytes(&mut self, n: usize) -> Vec<u8> {
        let mut v = vec![0u8; n];
        self.fill_bytes(&mut v);
        v
    }

    pub fn fork(&mut self) -> Rng {
        Rng::new(self.u64())
    }
}

impl RngCore for Rng {
    fn next_u32(&mut self) -> u32 {
        self.u32()
    }
    fn next_u64(&mut self) -> u64 {
        self.u64()
    }
    fn fill_bytes(&mut self, dest: &mut [u8]) {
        for chunk in dest.chunks_mut(8) {
            let v = self.u64().to_le_bytes();
            chunk.copy_from_slice(&v[..chunk.len()]);
        }
    }
    fn try_fill_bytes(&mut self, dest: &mut [u8]) -> Result<(), rand_core::Error> {
        self.fill_bytes(dest);
        Ok(())
    }
}

// Deliberate: the harness needs reproducible "crypto" randomness.
impl CryptoRng for Rng {}

/// FNV-1a 64 hasher used for abstract-trace hashing (distinct-case counting).
#[derive(Clone, Copy)]
pub struct Fnv(pub u64);

impl Default for Fnv {
    fn default() -> Self {
        Self::new()
    }
}

impl Fnv {
    pub const fn new() -> Self {
        Fnv(0xcbf2_9ce4_8422_2325)
    }
    #[inline]
    pub fn add(&mut self, b: &[u8]) {
        for x in b {
            self.0 ^= *x as u64;
            self.0 = self.0.wrapping_mul(0x0000_0100_0000_01B3);
        }
    }
    #[inline]
    pub fn add_u64(&mut self, v: u64) {
        self.add(&v.to_le_bytes());
    }
    pub fn of(b: &[u8]) -> u64 {
        let mut f = Fnv::new();
        f.add(b);
        f.0
    }
}
