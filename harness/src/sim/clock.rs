//! Virtual-time `embassy-time` driver.
//!
//! The state is thread-local: every OS thread is its own virtual universe, so several
//! scenarios can run in parallel threads of one process without sharing a clock.
//! Tick rate = 1 MHz (embassy-time-driver default).

use core::task::Waker;
use std::cell::RefCell;
use std::collections::BinaryHeap;

pub const TICKS_PER_MS: u64 = 1000;
pub const TICKS_PER_SEC: u64 = 1_000_000;

struct Entry {
    at: u64,
    seq: u64,
    waker: Waker,
}

impl PartialEq for Entry {
    fn eq(&self, o: &Self) -> bool {
        self.at == o.at && self.seq == o.seq
    }
}
impl Eq for Entry {}
impl PartialOrd for Entry {
    fn partial_cmp(&self, o: &Self) -> Option<core::cmp::Ordering> {
        Some(self.cmp(o))
    }
}
impl Ord for Entry {
    fn cmp(&self, o: &Self) -> core::cmp::Ordering {
        // min-heap on (at, seq)
        (o.at, o.seq).cmp(&(self.at, self.seq))
    }
}

struct ClockState {
    now: u64,
    seq: u64,
    timers: BinaryHeap<Entry>,
    fired: u64,
}

thread_local! {
    static CLOCK: RefCell<ClockState> = RefCell::new(ClockState { now: 1_000_000, seq: 0, timers: BinaryHeap::new(), fired: 0 });
}

struct VDriver;

impl embassy_time_driver::Driver for VDriver {
    fn now(&self) -> u64 {
        CLOCK.with(|c| c.borrow().now)
    }

    fn schedule_wake(&self, at: u64, waker: &Waker) {
        CLOCK.with(|c| {
            let mut c = c.borrow_mut();
            let seq = c.seq;
            c.seq += 1;
            c.timers.push(Entry {
                at,
                seq,
                waker: waker.clone(),
            });
        })
    }
}

embassy_time_driver::time_driver_impl!(static DRIVER: VDriver = VDriver);

/// Current virtual time in ticks (µs).
pub fn now() -> u64 {
    CLOCK.with(|c| c.borrow().now)
}

pub fn now_ms() -> u64 {
    now() / TICKS_PER_MS
}

/// Reset the clock of this thread (drops all pending timers).
pub fn reset(start: u64) {
    // Take the timers out first so that waker drops do not re-enter the RefCell.
    let old = CLOCK.with(|c| {
        let mut c = c.borrow_mut();
        c.now = start;
        c.seq = 0;
        c.fired = 0;
        core::mem::take(&mut c.timers)
    });
    drop(old);
}

/// Earliest pending timer, if any.
pub fn next_timer() -> Option<u64> {
    CLOCK.with(|c| c.borrow().timers.peek().map(|e| e.at))
}

/// Wake all timers due at or before the current time. Returns how many fired.
pub fn fire_due() -> usize {
    let mut n = 0;
    loop {
        let w = CLOCK.with(|c| {
            let mut c = c.borrow_mut();
            let now = c.now;
            if c.timers.peek().map(|e| e.at <= now).unwrap_or(false) {
                c.fired += 1;
                c.timers.pop().map(|e| e.waker)
            } else {
                None
            }
        });
        match w {
            Some(w) => {
                w.wake();
                n += 1;
            }
            None => break,
        }
    }
    n
}

/// Advance the clock to `t` (never backwards).
pub fn advance_to(t: u64) {
    CLOCK.with(|c| {
        let mut c = c.borrow_mut();
        if t > c.now {
            c.now = t;
        }
    })
}

pub fn timers_fired() -> u64 {
    CLOCK.with(|c| c.borrow().fired)
}
