//! Recording key-value store with fault injection and per-operation snapshots.
//!
//! Contract assumed (the one `KvBlobStore` documents): each `store`/`remove` is atomic
//! and durable when it returns. "Crash at point k" = restart from the map as it was
//! after the k-th mutating operation.

use std::cell::RefCell;
use std::collections::BTreeMap;
use std::rc::Rc;

use rs_matter::error::{Error, ErrorCode};
use rs_matter::persist::KvBlobStore;

use super::clock;
use super::rng::Fnv;

pub type KvMap = BTreeMap<u16, Vec<u8>>;

#[derive(Clone, Debug, PartialEq, Eq)]
pub enum KvOpKind {
    Load,
    Store,
    Remove,
}

#[derive(Clone, Debug)]
pub struct KvOp {
    /// Index among *mutating* operations (store/remove), starting at 1; 0 for loads.
    pub mut_index: usize,
    pub kind: KvOpKind,
    pub key: u16,
    pub value: Option<Vec<u8>>,
    pub t: u64,
    pub step: u32,
    pub failed: bool,
}

#[derive(Default)]
pub struct KvInner {
    pub map: KvMap,
    pub log: Vec<KvOp>,
    /// snapshots[k] = map after k mutating operations (snapshots[0] = initial)
    pub snapshots: Vec<KvMap>,
    pub keep_snapshots: bool,
    pub mut_count: usize,
    /// Fail the mutating operation with this 1-based index (once).
    pub fail_at: Option<usize>,
    /// Fail every mutating operation while set.
    pub fail_all: bool,
    /// Current scenario step (set by the script) for attribution.
    pub step: u32,
    pub loads: u64,
}

#[derive(Clone, Default)]
pub struct SimKv(pub Rc<RefCell<KvInner>>);

impl SimKv {
    pub fn new() -> Self {
        Self::from_map(KvMap::new(), true)
    }

    pub fn from_map(map: KvMap, keep_snapshots: bool) -> Self {
        let inner = KvInner {
            snapshots: if keep_snapshots {
                vec![map.clone()]
            } else {
                vec![]
            },
            map,
            keep_snapshots,
            ..Default::default()
        };
        SimKv(Rc::new(RefCell::new(inner)))
    }

    pub fn map(&self) -> KvMap {
        self.0.borrow().map.clone()
    }

    pub fn mut_count(&self) -> usize {
        self.0.borrow().mut_count
    }

    pub fn set_step(&self, step: u32) {
        self.0.borrow_mut().step = step;
    }

    pub fn fail_at(&self, idx: Option<usize>) {
        self.0.borrow_mut().fail_at = idx;
    }

    pub fn set_fail_all(&self, on: bool) {
        self.0.borrow_mut().fail_all = on;
    }

    pub fn snapshot(&self, k: usize) -> KvMap {
        self.0.borrow().snapshots[k].clone()
    }

    pub fn log(&self) -> Vec<KvOp> {
        self.0.borrow().log.clone()
    }

    pub fn get(&self, key: u16) -> Option<Vec<u8>> {
        self.0.borrow().map.get(&key).cloned()
    }

    pub fn put(&self, key: u16, v: Vec<u8>) {
        self.0.borrow_mut().map.insert(key, v);
    }

    pub fn digest(map: &KvMap) -> u64 {
        let mut f = Fnv::new();
        for (k, v) in map {
            f.add(&k.to_le_bytes());
            f.add_u64(v.len() as u64);
            f.add(v);
        }
        f.0
    }
}

impl KvBlobStore for SimKv {
    fn load<'a>(&mut self, key: u16, buf: &'a mut [u8]) -> Result<Option<&'a [u8]>, Error> {
        let mut inner = self.0.borrow_mut();
        inner.loads += 1;
        match inner.map.get(&key) {
            Some(v) => {
                if v.len() > buf.len() {
                    return Err(ErrorCode::NoSpace.into());
                }
                buf[..v.len()].copy_from_slice(v);
                Ok(Some(&buf[..v.len()]))
            }
            None => Ok(None),
        }
    }

    fn store(&mut self, key: u16, data: &[u8], _buf: &mut [u8]) -> Result<(), Error> {
        let mut inner = self.0.borrow_mut();
        inner.mut_count += 1;
        let idx = inner.mut_count;
        let fail = inner.fail_all || inner.fail_at == Some(idx);
        if inner.fail_at == Some(idx) {
            inner.fail_at = None;
        }
        let step = inner.step;
        inner.log.push(KvOp {
            mut_index: idx,
            kind: KvOpKind::Store,
            key,
            value: Some(data.to_vec()),
            t: clock::now(),
            step,
            failed: fail,
        });
        if !fail {
            inner.map.insert(key, data.to_vec());
        }
        if inner.keep_snapshots {
            let snap = inner.map.clone();
            inner.snapshots.push(snap);
        }
        if fail {
            Err(ErrorCode::StdIoError.into())
        } else {
            Ok(())
        }
    }

    fn remove(&mut self, key: u16, _buf: &mut [u8]) -> Result<(), Error> {
        let mut inner = self.0.borrow_mut();
        inner.mut_count += 1;
        let idx = inner.mut_count;
        let fail = inner.fail_all || inner.fail_at == Some(idx);
        if inner.fail_at == Some(idx) {
            inner.fail_at = None;
        }
        let step = inner.step;
        inner.log.push(KvOp {
            mut_index: idx,
            kind: KvOpKind::Remove,
            key,
            value: None,
            t: clock::now(),
            step,
            failed: fail,
        });
        if !fail {
            inner.map.remove(&key);
        }
        if inner.keep_snapshots {
            let snap = inner.map.clone();
            inner.snapshots.push(snap);
        }
        if fail {
            Err(ErrorCode::StdIoError.into())
        } else {
            Ok(())
        }
    }
}
