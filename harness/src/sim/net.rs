//! Simulated datagram network with wire tap and adversary.
//!
//! Every `send_to` is recorded in the tap (virtual time, source node, destination,
//! bytes, adversary decision) and then handed to the adversary, which returns the list
//! of deliveries to perform (empty = drop; several = duplicate; `delay_us` = delay /
//! re-ordering; `bytes = Some(..)` = replace by a mutant). The harness can also inject
//! arbitrary datagrams.

use core::net::{IpAddr, Ipv6Addr, SocketAddr, SocketAddrV6};
use core::task::{Poll, Waker};
use std::cell::RefCell;
use std::rc::Rc;

use rs_matter::error::Error;
use rs_matter::transport::network::{Address, NetworkMulticast, NetworkReceive, NetworkSend};

use super::clock;
use super::rng::Rng;

pub const BASE_LATENCY_US: u64 = 1_000;

#[derive(Clone, Debug)]
pub struct Delivery {
    pub delay_us: u64,
    pub bytes: Option<Vec<u8>>,
}

impl Delivery {
    pub fn normal() -> Self {
        Delivery {
            delay_us: BASE_LATENCY_US,
            bytes: None,
        }
    }
    pub fn after_ms(ms: u64) -> Self {
        Delivery {
            delay_us: ms * 1000,
            bytes: None,
        }
    }
    pub fn mutant(bytes: Vec<u8>) -> Self {
        Delivery {
            delay_us: BASE_LATENCY_US,
            bytes: Some(bytes),
        }
    }
}

#[derive(Clone, Debug)]
pub struct Datagram {
    pub seq: u64,
    pub t: u64,
    pub src: usize,
    pub dst: Option<usize>,
    pub dst_addr: Address,
    pub bytes: Vec<u8>,
}

#[derive(Clone, Debug)]
pub struct WireEvent {
    pub dgram: Datagram,
    /// What the adversary decided (number of deliveries, delays, mutated or not).
    pub deliveries: Vec<(u64, bool)>,
    pub injected: bool,
}

struct Pending {
    at: u64,
    seq: u64,
    from: Address,
    bytes: Vec<u8>,
}

struct NodeNet {
    addr: Address,
    inbox: Vec<Pending>,
    waker: Option<Waker>,
    joined: Vec<IpAddr>,
    up: bool,
}

pub type AdversaryFn = Box<dyn FnMut(&Datagram, &mut Rng) -> Vec<Delivery>>;

/// Interface back-pressure: for a datagram that node `src` hands to its network interface,
/// how long (virtual ms) `send_to` blocks before the interface takes it. While it blocks the
/// sending stack keeps whatever it holds (rs-matter: the single TX buffer).
pub type StallFn = Box<dyn FnMut(usize, &[u8], &mut Rng) -> u64>;

struct HubInner {
    nodes: Vec<NodeNet>,
    tap: Vec<WireEvent>,
    adversary: Option<AdversaryFn>,
    stall: Option<StallFn>,
    stalled: u64,
    rng: Rng,
    seq: u64,
    record: bool,
    sent: u64,
    dropped: u64,
    duplicated: u64,
    delayed: u64,
    mutated: u64,
}

#[derive(Clone)]
pub struct NetHub(Rc<RefCell<HubInner>>);

pub fn node_addr(idx: usize) -> Address {
    Address::Udp(SocketAddr::V6(SocketAddrV6::new(
        Ipv6Addr::new(0xfd00, 0, 0, 0, 0, 0, 0, (idx + 1) as u16),
        5540,
        0,
        0,
    )))
}

impl NetHub {
    pub fn new(seed: u64, nodes: usize) -> Self {
        let nodes = (0..nodes)
            .map(|i| NodeNet {
                addr: node_addr(i),
                inbox: Vec::new(),
                waker: None,
                joined: Vec::new(),
                up: true,
            })
            .collect();
        NetHub(Rc::new(RefCell::new(HubInner {
            nodes,
            tap: Vec::new(),
            adversary: None,
            stall: None,
            stalled: 0,
            rng: Rng::new(seed),
            seq: 0,
            record: true,
            sent: 0,
            dropped: 0,
            duplicated: 0,
            delayed: 0,
            mutated: 0,
        })))
    }

    pub fn endpoint(&self, idx: usize) -> Endpoint {
        Endpoint {
            hub: self.clone(),
            idx,
        }
    }

    pub fn addr(&self, idx: usize) -> Address {
        self.0.borrow().nodes[idx].addr
    }

    pub fn set_adversary(&self, adv: Option<AdversaryFn>) {
        // Take the old one out before dropping it (it may hold an Rc to us).
        let old = core::mem::replace(&mut self.0.borrow_mut().adversary, adv);
        drop(old);
    }

    pub fn set_stall(&self, stall: Option<StallFn>) {
        let old = core::mem::replace(&mut self.0.borrow_mut().stall, stall);
        drop(old);
    }

    /// Number of datagrams whose `send_to` was made to block.
    pub fn stalled(&self) -> u64 {
        self.0.borrow().stalled
    }

    fn stall_ms(&self, src: usize, data: &[u8]) -> u64 {
        let mut h = self.0.borrow_mut();
        let Some(mut f) = h.stall.take() else {
            return 0;
        };
        let ms = f(src, data, &mut h.rng);
        h.stall = Some(f);
        if ms > 0 {
            h.stalled += 1;
        }
        ms
    }

    pub fn set_record(&self, on: bool) {
        self.0.borrow_mut().record = on;
    }

    /// A node that is "down" silently loses everything addressed to it, and its inbox is cleared.
    pub fn set_up(&self, idx: usize, up: bool) {
        let mut h = self.0.borrow_mut();
        h.nodes[idx].up = up;
        if !up {
            h.nodes[idx].inbox.clear();
        }
    }

    pub fn tap_len(&self) -> usize {
        self.0.borrow().tap.len()
    }

    pub fn with_tap<R>(&self, f: impl FnOnce(&[WireEvent]) -> R) -> R {
        f(&self.0.borrow().tap)
    }

    pub fn tap_clone(&self) -> Vec<WireEvent> {
        self.0.borrow().tap.clone()
    }

    pub fn clear_tap(&self) {
        self.0.borrow_mut().tap.clear();
    }

    /// (sent, dropped, duplicated, delayed, mutated)
    pub fn stats(&self) -> (u64, u64, u64, u64, u64) {
        let h = self.0.borrow();
        (h.sent, h.dropped, h.duplicated, h.delayed, h.mutated)
    }

    /// Inject a datagram into `dst`'s inbox as if it came from `from`.
    pub fn inject(&self, dst: usize, from: Address, bytes: Vec<u8>, delay_us: u64) {
        let waker = {
            let mut h = self.0.borrow_mut();
            let seq = h.seq;
            h.seq += 1;
            let t = clock::now();
            if h.record {
                let dst_addr = h.nodes[dst].addr;
                h.tap.push(WireEvent {
                    dgram: Datagram {
                        seq,
                        t,
                        src: usize::MAX,
                        dst: Some(dst),
                        dst_addr,
                        bytes: bytes.clone(),
                    },
                    deliveries: vec![(delay_us, false)],
                    injected: true,
                });
            }
            if !h.nodes[dst].up {
                return;
            }
            h.nodes[dst].inbox.push(Pending {
                at: t + delay_us,
                seq,
                from,
                bytes,
            });
            h.nodes[dst].waker.take()
        };
        if let Some(w) = waker {
            w.wake();
        }
    }

    fn send(&self, src: usize, data: &[u8], addr: Address) {
        let mut wakers: Vec<Waker> = Vec::new();
        {
            let mut guard = self.0.borrow_mut();
            let h = &mut *guard;
            let seq = h.seq;
            h.seq += 1;
            h.sent += 1;
            let t = clock::now();

            // Resolve destination(s)
            let mut dsts: Vec<usize> = Vec::new();
            let mut multicast = false;
            if let Address::Udp(sa) = addr {
                if sa.ip().is_multicast() {
                    multicast = true;
                    for (i, n) in h.nodes.iter().enumerate() {
                        if i != src && n.joined.contains(&sa.ip()) {
                            dsts.push(i);
                        }
                    }
                }
            }
            if !multicast {
                let canon = addr.canonical();
                for (i, n) in h.nodes.iter().enumerate() {
                    if n.addr.canonical() == canon {
                        dsts.push(i);
                    }
                }
            }

            let dgram = Datagram {
                seq,
                t,
                src,
                dst: dsts.first().copied(),
                dst_addr: addr,
                bytes: data.to_vec(),
            };

            let deliveries = match h.adversary.as_mut() {
                Some(adv) => adv(&dgram, &mut h.rng),
                None => vec![Delivery::normal()],
            };

            if deliveries.is_empty() {
                h.dropped += 1;
            }
            if deliveries.len() > 1 {
                h.duplicated += 1;
            }
            for d in &deliveries {
                if d.delay_us > BASE_LATENCY_US {
                    h.delayed += 1;
                }
                if d.bytes.is_some() {
                    h.mutated += 1;
                }
            }

            let from = h.nodes[src].addr;
            for dst in dsts.iter().copied() {
                if !h.nodes[dst].up {
                    continue;
                }
                for d in &deliveries {
                    let sub = h.seq;
                    h.seq += 1;
                    h.nodes[dst].inbox.push(Pending {
                        at: t + d.delay_us,
                        seq: sub,
                        from,
                        bytes: d.bytes.clone().unwrap_or_else(|| data.to_vec()),
                    });
                }
                if let Some(w) = h.nodes[dst].waker.take() {
                    wakers.push(w);
                }
            }

            if h.record {
                h.tap.push(WireEvent {
                    dgram,
                    deliveries: deliveries
                        .iter()
                        .map(|d| (d.delay_us, d.bytes.is_some()))
                        .collect(),
                    injected: false,
                });
            }
        }
        for w in wakers {
            w.wake();
        }
    }
}

#[derive(Clone)]
pub struct Endpoint {
    hub: NetHub,
    idx: usize,
}

impl Endpoint {
    fn poll_available(&self, cx: &mut core::task::Context<'_>) -> Poll<()> {
        let mut h = self.hub.0.borrow_mut();
        let now = clock::now();
        let node = &mut h.nodes[self.idx];
        let next = node.inbox.iter().map(|p| p.at).min();
        match next {
            Some(at) if at <= now => Poll::Ready(()),
            Some(at) => {
                node.waker = Some(cx.waker().clone());
                embassy_time_driver::schedule_wake(at, cx.waker());
                Poll::Pending
            }
            None => {
                node.waker = Some(cx.waker().clone());
                Poll::Pending
            }
        }
    }

    fn pop(&self) -> Option<(Vec<u8>, Address)> {
        let mut h = self.hub.0.borrow_mut();
        let now = clock::now();
        let node = &mut h.nodes[self.idx];
        let mut best: Option<usize> = None;
        for (i, p) in node.inbox.iter().enumerate() {
            if p.at <= now {
                match best {
                    Some(b) if (node.inbox[b].at, node.inbox[b].seq) <= (p.at, p.seq) => {}
                    _ => best = Some(i),
                }
            }
        }
        best.map(|i| {
            let p = node.inbox.remove(i);
            (p.bytes, p.from)
        })
    }
}

impl NetworkSend for Endpoint {
    async fn send_to(&mut self, data: &[u8], addr: Address) -> Result<(), Error> {
        let ms = self.hub.stall_ms(self.idx, data);
        if ms > 0 {
            super::exec::sleep_ms(ms).await;
        }
        self.hub.send(self.idx, data, addr);
        Ok(())
    }
}

impl NetworkReceive for Endpoint {
    async fn wait_available(&mut self) -> Result<(), Error> {
        core::future::poll_fn(|cx| self.poll_available(cx)).await;
        Ok(())
    }

    async fn recv_from(&mut self, buffer: &mut [u8]) -> Result<(usize, Address), Error> {
        loop {
            core::future::poll_fn(|cx| self.poll_available(cx)).await;
            if let Some((bytes, from)) = self.pop() {
                let n = bytes.len().min(buffer.len());
                buffer[..n].copy_from_slice(&bytes[..n]);
                return Ok((n, from));
            }
        }
    }
}

impl NetworkMulticast for Endpoint {
    async fn join(&mut self, addr: IpAddr) -> Result<(), Error> {
        let mut h = self.hub.0.borrow_mut();
        let j = &mut h.nodes[self.idx].joined;
        if !j.contains(&addr) {
            j.push(addr);
        }
        Ok(())
    }

    async fn leave(&mut self, addr: IpAddr) -> Result<(), Error> {
        let mut h = self.hub.0.borrow_mut();
        h.nodes[self.idx].joined.retain(|a| *a != addr);
        Ok(())
    }
}

/// Per-datagram independent coin flips.
#[derive(Clone, Copy, Debug)]
pub struct RandomPolicy {
    pub drop_pct: u32,
    pub dup_pct: u32,
    pub delay_pct: u32,
    pub max_delay_ms: u64,
}

impl RandomPolicy {
    pub fn benign() -> Self {
        Self {
            drop_pct: 0,
            dup_pct: 0,
            delay_pct: 0,
            max_delay_ms: 0,
        }
    }

    pub fn decide(&self, rng: &mut Rng) -> Vec<Delivery> {
        if rng.chance(self.drop_pct, 100) {
            return vec![];
        }
        let mut out = vec![];
        let copies = if rng.chance(self.dup_pct, 100) {
            2 + rng.below(2)
        } else {
            1
        };
        for _ in 0..copies {
            if self.max_delay_ms > 0 && rng.chance(self.delay_pct, 100) {
                out.push(Delivery {
                    delay_us: BASE_LATENCY_US + rng.below(self.max_delay_ms * 1000),
                    bytes: None,
                });
            } else {
                out.push(Delivery::normal());
            }
        }
        out
    }

    pub fn into_adversary(self) -> AdversaryFn {
        Box::new(move |_d, rng| self.decide(rng))
    }
}
