//! Node factory: fabric credentials, `Matter` instances, pre-established sessions.

use core::num::NonZeroU8;

use rs_matter::cert::gen::{Validity, VALID_FOREVER};
use rs_matter::cert::MAX_CERT_TLV_AND_ASN1_LEN;
use rs_matter::crypto::{
    default_crypto, CanonAeadKey, CanonAeadKeyRef, CanonPkcSecretKey, Crypto, SecretKey,
    SigningSecretKey, AEAD_CANON_KEY_LEN,
};
use rs_matter::dm::devices::test::{DAC_PRIVKEY, TEST_DEV_ATT, TEST_DEV_COMM, TEST_DEV_DET};
use rs_matter::error::Error;
use rs_matter::onboard::cac::{IcacGenerator, RcacGenerator};
use rs_matter::onboard::noc::NocGenerator;
use rs_matter::transport::network::Address;
use rs_matter::transport::session::verif::VerifSession;
use rs_matter::transport::session::{NocCatIds, ReservedSession, SessionMode};
use rs_matter::Matter;

use super::rng::Rng;

/// A `Crypto` over the harness's seeded RNG.
pub fn crypto(rng: Rng) -> impl Crypto {
    default_crypto(rng, DAC_PRIVKEY)
}

pub fn new_matter() -> Box<Matter<'static>> {
    Box::new(Matter::new(&TEST_DEV_DET, TEST_DEV_COMM, &TEST_DEV_ATT, 5540))
}

/// Key material of one fabric's certificate authority.
pub struct FabricCa {
    pub fabric_id: u64,
    pub rcac: Vec<u8>,
    pub rcac_key: CanonPkcSecretKey,
    pub icac: Vec<u8>,
    pub icac_key: Option<CanonPkcSecretKey>,
    pub ipk: [u8; AEAD_CANON_KEY_LEN],
}

/// Credentials of one node in one fabric.
pub struct NodeCreds {
    pub node_id: u64,
    pub cats: Vec<u32>,
    pub noc: Vec<u8>,
    pub key: CanonPkcSecretKey,
}

impl FabricCa {
    pub fn new<C: Crypto>(
        crypto: &C,
        rng: &mut Rng,
        fabric_id: u64,
        with_icac: bool,
    ) -> Result<Self, Error> {
        Self::new_with_validity(crypto, rng, fabric_id, with_icac, VALID_FOREVER)
    }

    pub fn new_with_validity<C: Crypto>(
        crypto: &C,
        rng: &mut Rng,
        fabric_id: u64,
        with_icac: bool,
        validity: Validity,
    ) -> Result<Self, Error> {
        let mut rcac_buf = vec![0u8; MAX_CERT_TLV_AND_ASN1_LEN];
        let mut gen = RcacGenerator::new(&mut rcac_buf);
        let (rcac_key, rcac) = gen.generate(crypto, fabric_id, validity)?;
        let rcac = rcac.to_vec();

        let (icac, icac_key) = if with_icac {
            let mut icac_buf = vec![0u8; MAX_CERT_TLV_AND_ASN1_LEN];
            let mut gen = IcacGenerator::new(&mut icac_buf);
            let (k, c) = gen.generate(crypto, rcac_key.reference(), &rcac, validity)?;
            (c.to_vec(), Some(k))
        } else {
            (Vec::new(), None)
        };

        let mut ipk = [0u8; AEAD_CANON_KEY_LEN];
        rand_core::RngCore::fill_bytes(rng, &mut ipk);

        Ok(Self {
            fabric_id,
            rcac,
            rcac_key,
            icac,
            icac_key,
            ipk,
        })
    }

    pub fn mint<C: Crypto>(
        &self,
        crypto: &C,
        node_id: u64,
        cats: &[u32],
    ) -> Result<NodeCreds, Error> {
        self.mint_with_validity(crypto, node_id, cats, VALID_FOREVER)
    }

    pub fn mint_with_validity<C: Crypto>(
        &self,
        crypto: &C,
        node_id: u64,
        cats: &[u32],
        validity: Validity,
    ) -> Result<NodeCreds, Error> {
        let secret = crypto.generate_secret_key()?;
        let mut csr_buf = [0u8; 256];
        let csr = secret.csr(&mut csr_buf)?;
        let mut key = CanonPkcSecretKey::new();
        secret.write_canon(&mut key)?;

        let noc = self.sign_csr(crypto, csr, node_id, cats, validity)?;

        Ok(NodeCreds {
            node_id,
            cats: cats.to_vec(),
            noc,
            key,
        })
    }

    pub fn sign_csr<C: Crypto>(
        &self,
        crypto: &C,
        csr: &[u8],
        node_id: u64,
        cats: &[u32],
        validity: Validity,
    ) -> Result<Vec<u8>, Error> {
        let mut noc_buf = vec![0u8; MAX_CERT_TLV_AND_ASN1_LEN];
        let signing = match &self.icac_key {
            Some(k) => k.reference(),
            None => self.rcac_key.reference(),
        };
        let mut gen = NocGenerator::create(signing, &self.rcac, &self.icac, &mut noc_buf)?;
        Ok(gen
            .generate(crypto, csr, node_id, cats, validity)?
            .to_vec())
    }

    pub fn ipk_ref(&self) -> CanonAeadKey {
        let mut k = CanonAeadKey::new();
        k.load_from_array(&self.ipk);
        k
    }

    /// Install this fabric with the given node credentials into `matter`.
    pub fn install<C: Crypto>(
        &self,
        matter: &Matter<'_>,
        crypto: &C,
        creds: &NodeCreds,
        case_admin_subject: u64,
    ) -> Result<NonZeroU8, Error> {
        let ipk = self.ipk_ref();
        let ipk_ref: CanonAeadKeyRef<'_> = ipk.reference();
        matter.with_state(|state| {
            state
                .fabrics
                .add(
                    crypto,
                    creds.key.reference(),
                    &self.rcac,
                    &creds.noc,
                    &self.icac,
                    Some(ipk_ref),
                    0xFFF1,
                    case_admin_subject,
                )
                .map(|f| f.fab_idx())
        })
    }
}

pub fn cat_ids(cats: &[u32]) -> NocCatIds {
    let mut out: NocCatIds = Default::default();
    for (i, c) in cats.iter().enumerate().take(3) {
        out[i] = *c;
    }
    out
}

/// Create a pair of mirrored secure sessions on two nodes without running a handshake
/// (what the repository's own e2e runner does). Returns the internal session ids.
#[allow(clippy::too_many_arguments)]
pub fn mirrored_sessions<C: Crypto>(
    a: &Matter<'_>,
    b: &Matter<'_>,
    crypto: &C,
    a_addr: Address,
    b_addr: Address,
    a_node: u64,
    b_node: u64,
    a_sess_id: u16,
    b_sess_id: u16,
    mode_at_a: SessionMode,
    mode_at_b: SessionMode,
    key_i2r: &[u8; AEAD_CANON_KEY_LEN],
    key_r2i: &[u8; AEAD_CANON_KEY_LEN],
) -> Result<(u32, u32), Error> {
    let mut k1 = CanonAeadKey::new();
    k1.load_from_array(key_i2r);
    let mut k2 = CanonAeadKey::new();
    k2.load_from_array(key_r2i);

    // a = "initiator": encrypts with i2r, decrypts with r2i
    let ida = {
        let mut s = ReservedSession::reserve_now(a, crypto)?;
        s.update(
            a_node,
            b_node,
            b_sess_id,
            a_sess_id,
            b_addr,
            mode_at_a,
            Some(k2.reference()),
            Some(k1.reference()),
            None,
            None,
        )?;
        s.complete();
        session_id_by_local(a, a_sess_id).unwrap()
    };
    let idb = {
        let mut s = ReservedSession::reserve_now(b, crypto)?;
        s.update(
            b_node,
            a_node,
            a_sess_id,
            b_sess_id,
            a_addr,
            mode_at_b,
            Some(k1.reference()),
            Some(k2.reference()),
            None,
            None,
        )?;
        s.complete();
        session_id_by_local(b, b_sess_id).unwrap()
    };
    Ok((ida, idb))
}

pub fn snapshot(m: &Matter<'_>) -> Vec<VerifSession> {
    m.with_state(|s| s.verif_sessions().verif_snapshot())
}

pub fn session_id_by_local(m: &Matter<'_>, local_sess_id: u16) -> Option<u32> {
    snapshot(m)
        .iter()
        .find(|s| s.local_sess_id == local_sess_id && s.encrypted)
        .map(|s| s.id)
}

pub fn secure_sessions(m: &Matter<'_>) -> Vec<VerifSession> {
    snapshot(m)
        .into_iter()
        .filter(|s| s.encrypted && !s.reserved)
        .collect()
}
