pub mod clock;
pub mod exec;
pub mod kv;
pub mod net;
pub mod node;
pub mod rng;
pub mod tapmon;
pub mod wire;
