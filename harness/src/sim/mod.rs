pub mod clock;
pub mod exec;
pub mod kv;
pub mod net;
pub mod rng;
