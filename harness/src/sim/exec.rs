//! Deterministic single-threaded executor over the virtual clock.
//!
//! `run(rng, limits, tasks)`: `tasks[0]` is the scenario script; the run ends when it
//! completes. All tasks whose wake flag is set are polled in an order drawn from the
//! seeded PRNG; when none is set the clock jumps to the earliest timer. The sequence of
//! (task polled | clock advanced) is hashed, which is what the evidence reports as
//! "distinct interleavings".

use core::future::Future;
use core::pin::Pin;
use core::task::{Context, Poll, Waker};
use std::sync::atomic::{AtomicBool, Ordering};
use std::sync::Arc;
use std::task::Wake;

use super::clock;
use super::rng::{Fnv, Rng};

pub type BoxFut<'a> = Pin<Box<dyn Future<Output = ()> + 'a>>;

struct Flag(AtomicBool);

impl Wake for Flag {
    fn wake(self: Arc<Self>) {
        self.0.store(true, Ordering::Relaxed);
    }
    fn wake_by_ref(self: &Arc<Self>) {
        self.0.store(true, Ordering::Relaxed);
    }
}

#[derive(Debug, Clone, Copy, PartialEq, Eq)]
pub enum RunStatus {
    /// The scenario script completed.
    Done,
    /// Nothing runnable and no timer pending while the script has not completed.
    Stalled,
    /// Poll budget exhausted (possible livelock) - inconclusive.
    StepBudget,
    /// Virtual-time horizon exceeded - inconclusive.
    TimeHorizon,
}

#[derive(Debug, Clone, Copy)]
pub struct Limits {
    pub max_polls: u64,
    /// Absolute virtual time (ticks) after which the run is abandoned.
    pub horizon: u64,
    /// If false, ready tasks are polled in index order (no permutation).
    pub shuffle: bool,
}

impl Default for Limits {
    fn default() -> Self {
        Self {
            max_polls: 5_000_000,
            horizon: u64::MAX / 2,
            shuffle: true,
        }
    }
}

#[derive(Debug, Clone, Copy)]
pub struct Outcome {
    pub status: RunStatus,
    pub polls: u64,
    pub sched_hash: u64,
    pub end_time: u64,
    pub timer_jumps: u64,
}

pub fn run<'a>(rng: &mut Rng, limits: Limits, mut tasks: Vec<BoxFut<'a>>) -> Outcome {
    let n = tasks.len();
    let flags: Vec<Arc<Flag>> = (0..n).map(|_| Arc::new(Flag(AtomicBool::new(true)))).collect();
    let wakers: Vec<Waker> = flags.iter().map(|f| Waker::from(f.clone())).collect();
    let mut done = vec![false; n];
    let mut polls = 0u64;
    let mut jumps = 0u64;
    let mut h = Fnv::new();
    let mut ready: Vec<usize> = Vec::with_capacity(n);

    let status = 'outer: loop {
        ready.clear();
        for i in 0..n {
            if !done[i] && flags[i].0.load(Ordering::Relaxed) {
                ready.push(i);
            }
        }

        if ready.is_empty() {
            // Nothing runnable: advance virtual time to the earliest timer.
            match clock::next_timer() {
                Some(t) => {
                    if t > limits.horizon {
                        break RunStatus::TimeHorizon;
                    }
                    clock::advance_to(t);
                    clock::fire_due();
                    jumps += 1;
                    h.add(&[0xff]);
                    continue;
                }
                None => break RunStatus::Stalled,
            }
        }

        if limits.shuffle && ready.len() > 1 {
            rng.shuffle(&mut ready);
        }

        for &i in ready.iter() {
            flags[i].0.store(false, Ordering::Relaxed);
            let mut cx = Context::from_waker(&wakers[i]);
            polls += 1;
            h.add(&[i as u8]);
            if let Poll::Ready(()) = tasks[i].as_mut().poll(&mut cx) {
                done[i] = true;
                if i == 0 {
                    break 'outer RunStatus::Done;
                }
            }
            if polls >= limits.max_polls {
                break 'outer RunStatus::StepBudget;
            }
        }

        // Timers that became due "now" (e.g. zero-length timers) fire without a jump.
        clock::fire_due();
    };

    let out = Outcome {
        status,
        polls,
        sched_hash: h.0,
        end_time: clock::now(),
        timer_jumps: jumps,
    };

    // Drop the tasks (cancels everything still pending) before returning.
    drop(tasks);

    out
}

/// Sleep for `ms` virtual milliseconds.
pub async fn sleep_ms(ms: u64) {
    embassy_time::Timer::after(embassy_time::Duration::from_millis(ms)).await
}

pub async fn sleep_us(us: u64) {
    embassy_time::Timer::after(embassy_time::Duration::from_micros(us)).await
}

/// Yield once to the executor.
pub async fn yield_now() {
    let mut yielded = false;
    core::future::poll_fn(|cx| {
        if yielded {
            Poll::Ready(())
        } else {
            yielded = true;
            cx.waker().wake_by_ref();
            Poll::Pending
        }
    })
    .await
}

/// Polls all children on every wake, in a seeded random order; completes when any child
/// completes (like `embassy_futures::select`, but N-ary and with permuted poll order).
pub struct ShuffleSelect<'a> {
    children: Vec<BoxFut<'a>>,
    rng: Rng,
    order: Vec<usize>,
    shuffle: bool,
}

impl<'a> ShuffleSelect<'a> {
    pub fn new(seed: u64, shuffle: bool, children: Vec<BoxFut<'a>>) -> Self {
        let order = (0..children.len()).collect();
        Self {
            children,
            rng: Rng::new(seed),
            order,
            shuffle,
        }
    }
}

impl Future for ShuffleSelect<'_> {
    type Output = ();

    fn poll(self: Pin<&mut Self>, cx: &mut Context<'_>) -> Poll<()> {
        let this = self.get_mut();
        if this.shuffle {
            this.rng.shuffle(&mut this.order);
        }
        for k in 0..this.order.len() {
            let i = this.order[k];
            if let Poll::Ready(()) = this.children[i].as_mut().poll(cx) {
                return Poll::Ready(());
            }
        }
        Poll::Pending
    }
}

/// Drops the wrapped future after its `n`-th `Pending` (cancellation at an arbitrary
/// await point, exactly what `select` does in production). Output: `Some(v)` if the
/// future completed first, `None` if it was cancelled.
pub struct CancelAfter<F> {
    fut: Option<Pin<Box<F>>>,
    left: u32,
    pub pendings_seen: u32,
}

impl<F: Future> CancelAfter<F> {
    pub fn new(fut: F, n: u32) -> Self {
        Self {
            fut: Some(Box::pin(fut)),
            left: n,
            pendings_seen: 0,
        }
    }
}

impl<F: Future> Future for CancelAfter<F> {
    type Output = Option<F::Output>;

    fn poll(self: Pin<&mut Self>, cx: &mut Context<'_>) -> Poll<Self::Output> {
        let this = self.get_mut();
        let Some(f) = this.fut.as_mut() else {
            return Poll::Ready(None);
        };
        match f.as_mut().poll(cx) {
            Poll::Ready(v) => {
                this.fut = None;
                Poll::Ready(Some(v))
            }
            Poll::Pending => {
                this.pendings_seen += 1;
                if this.left == 0 {
                    this.fut = None; // drop = cancel
                    Poll::Ready(None)
                } else {
                    this.left -= 1;
                    Poll::Pending
                }
            }
        }
    }
}

/// Run `f` until it completes or `ms` of virtual time pass.
pub async fn with_timeout<F: Future>(ms: u64, f: F) -> Option<F::Output> {
    use embassy_futures::select::{select, Either};
    match select(f, sleep_ms(ms)).await {
        Either::First(v) => Some(v),
        Either::Second(_) => None,
    }
}
