//! A full rs-matter device (root endpoint with the real system clusters: General
//! Commissioning, Operational Credentials, Access Control, Administrator Commissioning,
//! Group Key Management, Network Commissioning (Wi-Fi), Basic Information, ...) running
//! over the simulated network and the recording KV store - and the controller-side
//! operations used to drive it.

use core::num::NonZeroU8;

use embassy_futures::select::select4;

use rs_matter::crypto::Crypto;
use rs_matter::dm::clusters::net_comm::NetworkType;
use rs_matter::dm::clusters::net_comm::{NetCtl, NetCtlError, NetworkScanInfo, WirelessCreds};
use rs_matter::dm::clusters::wifi_diag::{WifiDiag, WirelessDiag};
use rs_matter::dm::networks::wireless::{NetCtlState, NetCtlWithStatusImpl, WifiNetworks};
use rs_matter::dm::networks::NetChangeNotif;
use rs_matter::utils::sync::DynBase;
use rs_matter::dm::clusters::groups::{ClusterHandler as _, GroupsHandler};
use rs_matter::dm::devices::DEV_TYPE_ON_OFF_LIGHT;
use rs_matter::dm::{endpoints, Async, ChainedHandler, Cluster, Dataver, Endpoint as DmEndpoint, EpClMatcher, Node};
use rs_matter::error::{Error, ErrorCode};
use rs_matter::im::{InteractionModel, WirelessInteractionModelState};
use rs_matter::respond::DefaultResponder;
use rs_matter::transport::exchange::MatterBuffers;
use rs_matter::utils::select::Coalesce;
use rs_matter::{root_endpoint, Matter};

use super::kv::SimKv;
use super::net::Endpoint;

pub const PASSCODE: u32 = 20202021; // TEST_DEV_COMM

pub type DeviceState = WirelessInteractionModelState<WifiNetworks<3>>;

pub fn new_device_state() -> Box<DeviceState> {
    Box::new(WirelessInteractionModelState::new(WifiNetworks::new()))
}

pub fn new_buffers() -> Box<MatterBuffers> {
    Box::new(MatterBuffers::new())
}

/// Endpoint 1: an application endpoint that carries only the Groups cluster (so that group
/// membership - which lives in the fabric record - can be changed through the real handler).
const CLUSTERS_EP1: &[Cluster<'static>] = &[GroupsHandler::CLUSTER];

pub const DEVICE_NODE: Node<'static> = Node {
    endpoints: &[
        root_endpoint!(wifi),
        DmEndpoint::new(1, &[DEV_TYPE_ON_OFF_LIGHT], CLUSTERS_EP1),
    ],
};

/// Outcome of bringing a device incarnation up.
#[derive(Debug, Clone, PartialEq, Eq)]
pub enum Boot {
    Ok,
    MatterStartupFailed(ErrorCode),
    ImStartupFailed(ErrorCode),
}

/// Run one incarnation of the device until cancelled: `Matter::startup` from the KV
/// store, `InteractionModel::startup`, then transport + responders + IM jobs + the
/// resumption-cache flusher, all in this one future (one task per `Matter`).
///
/// `boot` receives the boot outcome as soon as it is known. `open_window` opens the
/// basic commissioning window if the device has no fabrics (as the examples do).
pub async fn run_device<C: Crypto>(
    matter: &Matter<'_>,
    crypto: &C,
    simkv: SimKv,
    ep: Endpoint,
    state: &DeviceState,
    buffers: &MatterBuffers,
    boot: &core::cell::RefCell<Option<Boot>>,
    open_window: bool,
) {
    let kv = matter.kv(simkv);

    if let Err(e) = matter.startup(&kv) {
        *boot.borrow_mut() = Some(Boot::MatterStartupFailed(e.code()));
        return;
    }

    let net_ctl_state = NetCtlState::new_with_mutex();
    let net_ctl = NetCtlWithStatusImpl::new(&net_ctl_state, SimNetCtl::new());

    let rand = match crypto.rand() {
        Ok(r) => r,
        Err(e) => {
            *boot.borrow_mut() = Some(Boot::MatterStartupFailed(e.code()));
            return;
        }
    };

    let handler = (
        DEVICE_NODE,
        ChainedHandler::new(
            EpClMatcher::new(Some(1), Some(GroupsHandler::CLUSTER.id)),
            Async(GroupsHandler::new(Dataver::new(7)).adapt()),
            endpoints::WifiSysHandlerBuilder::new(&net_ctl, &net_ctl).build(rand),
        ),
    );

    let im = InteractionModel::new_with_net_ctl(
        matter, crypto, buffers, handler, &kv, &net_ctl, state,
    );

    if let Err(e) = im.startup().await {
        *boot.borrow_mut() = Some(Boot::ImStartupFailed(e.code()));
        return;
    }

    if open_window && !matter.has_fabrics() {
        let _ = matter.open_basic_comm_window(
            rs_matter::sc::pase::MAX_COMM_WINDOW_TIMEOUT_SECS,
            crypto,
            &(),
        );
    }

    *boot.borrow_mut() = Some(Boot::Ok);

    let responder = DefaultResponder::new(&im);

    let _ = select4(
        matter.run(crypto, ep.clone(), ep.clone(), ep.clone()),
        responder.run::<4, 4>(),
        im.run(),
        async {
            // The resumption cache is an optional cache: a failing flush must not take the
            // device down (how an application treats the error of this background task is
            // its own choice; none of the examples runs it). Keep flushing.
            loop {
                let _ = matter
                    .run_persist_resumption(&kv, embassy_time::Duration::from_millis(500))
                    .await;
                embassy_time::Timer::after(embassy_time::Duration::from_millis(1000)).await;
            }
        },
    )
    .coalesce()
    .await;
}

/// Bring the device up from the store and factory-reset it (both halves: `Matter` and the
/// Interaction Model). Returns true if every call succeeded.
pub async fn factory_reset<C: Crypto>(
    matter: &Matter<'_>,
    crypto: &C,
    simkv: SimKv,
    state: &DeviceState,
    buffers: &MatterBuffers,
) -> bool {
    let kv = matter.kv(simkv);
    if matter.startup(&kv).is_err() {
        return false;
    }
    let net_ctl_state = NetCtlState::new_with_mutex();
    let net_ctl = NetCtlWithStatusImpl::new(&net_ctl_state, SimNetCtl::new());
    let Ok(rand) = crypto.rand() else {
        return false;
    };
    let handler = (
        DEVICE_NODE,
        ChainedHandler::new(
            EpClMatcher::new(Some(1), Some(GroupsHandler::CLUSTER.id)),
            Async(GroupsHandler::new(Dataver::new(7)).adapt()),
            endpoints::WifiSysHandlerBuilder::new(&net_ctl, &net_ctl).build(rand),
        ),
    );
    let im = InteractionModel::new_with_net_ctl(
        matter, crypto, buffers, handler, &kv, &net_ctl, state,
    );
    if im.startup().await.is_err() {
        return false;
    }
    if matter.factory_reset(&kv).is_err() {
        return false;
    }
    im.factory_reset().await.is_ok()
}

/// A simulated Wi-Fi controller: `connect` succeeds at once and the link then reports
/// "connected" (so the operational wireless manager parks instead of re-connecting in a
/// loop); scanning is not supported; the link state never changes by itself.
pub struct SimNetCtl {
    connected: core::cell::Cell<bool>,
}

impl SimNetCtl {
    pub const fn new() -> Self {
        Self {
            connected: core::cell::Cell::new(false),
        }
    }
}

impl NetCtl for SimNetCtl {
    fn net_type(&self) -> NetworkType {
        NetworkType::Wifi
    }

    async fn scan<F>(&self, _network: Option<&[u8]>, _f: F) -> Result<(), NetCtlError>
    where
        F: FnMut(&NetworkScanInfo) -> Result<(), Error>,
    {
        Err(NetCtlError::Other(ErrorCode::InvalidAction.into()))
    }

    async fn connect(&self, creds: &WirelessCreds<'_>) -> Result<(), NetCtlError> {
        creds.check_match(NetworkType::Wifi)?;
        self.connected.set(true);
        Ok(())
    }
}

impl NetChangeNotif for SimNetCtl {
    async fn wait_changed(&self) {
        core::future::pending().await
    }
}

impl DynBase for SimNetCtl {}

impl WirelessDiag for SimNetCtl {
    fn connected(&self) -> Result<bool, Error> {
        Ok(self.connected.get())
    }
}

impl WifiDiag for SimNetCtl {}

/// Index helper
pub fn nz(i: u8) -> NonZeroU8 {
    NonZeroU8::new(i).unwrap()
}

pub fn err_code(e: &Error) -> ErrorCode {
    e.code()
}
