//! Controller-side operations against a device, issued one by one through rs-matter's
//! public typed cluster clients / IM client, from a chosen session context.

use core::num::NonZeroU8;

use rs_matter::crypto::Crypto;
use rs_matter::dm::clusters::adm_comm::AdministratorCommissioningCmdRequests;
use rs_matter::dm::clusters::gen_comm::GeneralCommissioningClient;
use rs_matter::dm::clusters::net_comm::NetworkCommissioningClient;
use rs_matter::dm::clusters::noc::{OperationalCredentialsClient, OperationalCredentialsCmdRequests};
use rs_matter::error::{Error, ErrorCode};
use rs_matter::im::client::ImClient;
use rs_matter::im::{AttrDataTag, AttrResp, IMStatusCode};
use rs_matter::sc::case::CaseInitiator;
use rs_matter::tlv::{FromTLV, OctetStr, TLVElement, TLVTag, ToTLV};
use rs_matter::transport::exchange::Exchange;
use rs_matter::transport::network::Address;
use rs_matter::transport::session::SessionMode;
use rs_matter::Matter;

use super::node;

/// Which session a command is issued over.
#[derive(Clone, Copy, Debug, PartialEq, Eq)]
pub enum Via {
    /// The PASE session to the device address (established on demand with the passcode).
    Pase,
    /// An existing session (internal id) of the controller's session table.
    Session(u32),
}

/// Outcome class of an operation (DESIGN §5a: classes, not exact codes).
#[derive(Clone, Debug, PartialEq, Eq)]
pub enum Out {
    /// Success; the cluster-level status (0 = OK) where the command has one.
    Ok(u8),
    /// The command answered with a cluster-level failure code (non-zero).
    ClusterErr(u8),
    /// An IM status / transport error.
    Err(ErrorCode),
}

impl Out {
    pub fn success(&self) -> bool {
        matches!(self, Out::Ok(0))
    }
    pub fn class(&self) -> String {
        match self {
            Out::Ok(0) => "ok".into(),
            Out::Ok(c) | Out::ClusterErr(c) => format!("cluster-err-{}", c),
            Out::Err(e) => format!("err-{:?}", e),
        }
    }
}

fn cl(code: u8) -> Out {
    if code == 0 {
        Out::Ok(0)
    } else {
        Out::ClusterErr(code)
    }
}

pub struct Ctl<'a, C: Crypto> {
    pub matter: &'a Matter<'a>,
    pub crypto: &'a C,
    pub dev_addr: Address,
    pub passcode: u32,
    /// Returns how many Busy status reports the device has sent so far (from the wire tap);
    /// lets `case_establish` tell "table full, try again" from a refusal.
    pub busy_probe: Option<Box<dyn Fn() -> u64 + 'a>>,
    pub last_case_was_busy: core::cell::Cell<bool>,
}

impl<'a, C: Crypto> Ctl<'a, C> {
    pub async fn exch(&self, via: Via) -> Result<Exchange<'a>, Error> {
        match via {
            Via::Pase => {
                Exchange::initiate_pase(self.matter, self.crypto, self.dev_addr, self.passcode)
                    .await
            }
            Via::Session(id) => Exchange::initiate_for_session(self.matter, self.crypto, id),
        }
    }

    /// Internal id of the (live) PASE session to the device, if any.
    pub fn pase_session(&self) -> Option<u32> {
        node::snapshot(self.matter)
            .into_iter()
            .find(|s| {
                matches!(s.mode, SessionMode::Pase { .. })
                    && !s.reserved
                    && !s.expired
                    && s.peer_addr == self.dev_addr
            })
            .map(|s| s.id)
    }

    /// Drop the controller's own PASE session(s) to the device (what a commissioner does once
    /// commissioning completed, or when it starts over through a new window).
    pub fn forget_pase(&self) {
        let ids: Vec<u32> = node::snapshot(self.matter)
            .into_iter()
            .filter(|s| matches!(s.mode, SessionMode::Pase { .. }))
            .map(|s| s.id)
            .collect();
        self.matter.with_state(|st| {
            for id in ids {
                st.verif_sessions_mut().remove(id);
            }
        });
    }

    pub fn case_sessions(&self, fab_idx: NonZeroU8, peer: u64) -> Vec<u32> {
        node::snapshot(self.matter)
            .into_iter()
            .filter(|s| {
                matches!(&s.mode, SessionMode::Case { fab_idx: f, .. } if *f == fab_idx)
                    && !s.reserved
                    && s.peer_nodeid == Some(peer)
            })
            .map(|s| s.id)
            .collect()
    }

    /// Run a CASE handshake (full or - when a resumption record is cached - resumed) and
    /// return the internal id of the new session.
    pub async fn case_establish(&self, fab_idx: NonZeroU8, peer: u64) -> Result<u32, Error> {
        // A device whose session table is full answers the first Sigma1 with Busy and evicts an
        // idle session for the next attempt: retry like a real initiator does.
        let mut last = None;
        for attempt in 0..4 {
            if attempt > 0 {
                super::exec::sleep_ms(600).await;
            }
            match self.case_establish_once(fab_idx, peer).await {
                Ok(id) => return Ok(id),
                Err(e) => {
                    let retry = matches!(e.code(), ErrorCode::Busy | ErrorCode::Invalid) && attempt < 3;
                    last = Some(e);
                    if !retry {
                        break;
                    }
                    if !self.last_case_was_busy.get() {
                        break;
                    }
                }
            }
        }
        Err(last.unwrap_or_else(|| ErrorCode::Failure.into()))
    }

    async fn case_establish_once(&self, fab_idx: NonZeroU8, peer: u64) -> Result<u32, Error> {
        self.last_case_was_busy.set(false);
        let before: Vec<u32> = node::snapshot(self.matter).iter().map(|s| s.id).collect();
        let exchange = Exchange::initiate_plaintext(self.matter, self.crypto, self.dev_addr).await?;
        let tap0 = self.busy_probe.as_ref().map(|f| f()).unwrap_or(0);
        let r = CaseInitiator::perform(exchange, self.crypto, fab_idx, peer).await;
        if r.is_err() {
            let tap1 = self.busy_probe.as_ref().map(|f| f()).unwrap_or(0);
            self.last_case_was_busy.set(tap1 > tap0);
        }
        r?;
        node::snapshot(self.matter)
            .into_iter()
            .find(|s| {
                !before.contains(&s.id)
                    && matches!(s.mode, SessionMode::Case { .. })
                    && !s.reserved
            })
            .map(|s| s.id)
            .ok_or_else(|| ErrorCode::NoSession.into())
    }

    pub async fn arm_fail_safe(&self, via: Via, secs: u16, breadcrumb: u64) -> Out {
        let r: Result<u8, Error> = async {
            let handle = self
                .exch(via)
                .await?
                .general_commissioning()
                .arm_fail_safe(0, |req| {
                    req.expiry_length_seconds(secs)?.breadcrumb(breadcrumb)?.end()
                })
                .await?;
            let code = handle.response()?.error_code()? as u8;
            handle.complete().await?;
            Ok(code)
        }
        .await;
        match r {
            Ok(c) => cl(c),
            Err(e) => Out::Err(e.code()),
        }
    }

    pub async fn commissioning_complete(&self, via: Via) -> Out {
        let r: Result<u8, Error> = async {
            let handle = self
                .exch(via)
                .await?
                .general_commissioning()
                .commissioning_complete(0)
                .await?;
            let code = handle.response()?.error_code()? as u8;
            handle.complete().await?;
            Ok(code)
        }
        .await;
        match r {
            Ok(c) => cl(c),
            Err(e) => Out::Err(e.code()),
        }
    }

    /// CSRRequest; returns the CSR (DER) on success.
    pub async fn csr_request(&self, via: Via, for_update: bool) -> Result<Vec<u8>, Out> {
        let nonce = [0x5au8; 32];
        let r: Result<Vec<u8>, Error> = async {
            let handle = self
                .exch(via)
                .await?
                .operational_credentials()
                .csr_request(0, |req| {
                    req.csr_nonce(OctetStr::new(&nonce))?
                        .is_for_update_noc(if for_update { Some(true) } else { None })?
                        .end()
                })
                .await?;
            let csr = {
                let resp = handle.response()?;
                let nocsr = resp.nocsr_elements()?;
                let root = TLVElement::new(nocsr.0).structure()?;
                let csr = OctetStr::from_tlv(&root.ctx(1)?)?;
                csr.0.to_vec()
            };
            handle.complete().await?;
            Ok(csr)
        }
        .await;
        r.map_err(|e| Out::Err(e.code()))
    }

    pub async fn add_trusted_root(&self, via: Via, rcac: &[u8]) -> Out {
        // NOTE: the generated typed client method for this status-only command does not look
        // at the command status in the answer, so the generic invoke is used and the status read.
        let r: Result<(), Error> = async {
            let chunk = self
                .exch(via)
                .await?
                .invoke_with(None, |msg| {
                    msg.invoke_requests()?
                        .operational_credentials_inv()
                        .add_trusted_root_certificate(0)?
                        .root_ca_certificate(OctetStr::new(rcac))?
                        .end()?
                        .end()?
                        .end()?
                        .end()
                })
                .await?;
            let status = invoke_status(&chunk)?;
            let mut chunk = chunk;
            while let Some(next) = chunk.complete().await? {
                chunk = next;
            }
            match status.to_error_code() {
                None => Ok(()),
                Some(c) => Err(c.into()),
            }
        }
        .await;
        match r {
            Ok(()) => Out::Ok(0),
            Err(e) => Out::Err(e.code()),
        }
    }

    /// AddNOC; on success returns the fabric index the device assigned.
    #[allow(clippy::too_many_arguments)]
    pub async fn add_noc(
        &self,
        via: Via,
        noc: &[u8],
        icac: &[u8],
        ipk: &[u8],
        admin_subject: u64,
        vendor: u16,
    ) -> (Out, Option<u8>) {
        let r: Result<(u8, Option<u8>), Error> = async {
            let handle = self
                .exch(via)
                .await?
                .operational_credentials()
                .add_noc(0, |req| {
                    req.noc_value(OctetStr::new(noc))?
                        .icac_value(if icac.is_empty() {
                            None
                        } else {
                            Some(OctetStr::new(icac))
                        })?
                        .ipk_value(OctetStr::new(ipk))?
                        .case_admin_subject(admin_subject)?
                        .admin_vendor_id(vendor)?
                        .end()
                })
                .await?;
            let (status, idx) = {
                let resp = handle.response()?;
                (resp.status_code()? as u8, resp.fabric_index()?)
            };
            handle.complete().await?;
            Ok((status, idx))
        }
        .await;
        match r {
            Ok((c, idx)) => (cl(c), idx),
            Err(e) => (Out::Err(e.code()), None),
        }
    }

    pub async fn update_noc(&self, via: Via, noc: &[u8], icac: &[u8]) -> Out {
        let r: Result<u8, Error> = async {
            let handle = self
                .exch(via)
                .await?
                .operational_credentials()
                .update_noc(0, |req| {
                    req.noc_value(OctetStr::new(noc))?
                        .icac_value(if icac.is_empty() {
                            None
                        } else {
                            Some(OctetStr::new(icac))
                        })?
                        .end()
                })
                .await?;
            let status = handle.response()?.status_code()? as u8;
            handle.complete().await?;
            Ok(status)
        }
        .await;
        match r {
            Ok(c) => cl(c),
            Err(e) => Out::Err(e.code()),
        }
    }

    pub async fn remove_fabric(&self, via: Via, idx: u8) -> Out {
        let r: Result<u8, Error> = async {
            let handle = self
                .exch(via)
                .await?
                .operational_credentials()
                .remove_fabric(0, |req| req.fabric_index(idx)?.end())
                .await?;
            let status = handle.response()?.status_code()? as u8;
            handle.complete().await?;
            Ok(status)
        }
        .await;
        match r {
            Ok(c) => cl(c),
            Err(e) => Out::Err(e.code()),
        }
    }

    pub async fn add_wifi(&self, via: Via, ssid: &[u8], pass: &[u8], breadcrumb: u64) -> Out {
        let r: Result<u8, Error> = async {
            let handle = self
                .exch(via)
                .await?
                .network_commissioning()
                .add_or_update_wi_fi_network(0, |req| {
                    req.ssid(OctetStr::new(ssid))?
                        .credentials(OctetStr::new(pass))?
                        .breadcrumb(Some(breadcrumb))?
                        .end()
                })
                .await?;
            let status = handle.response()?.networking_status()? as u8;
            handle.complete().await?;
            Ok(status)
        }
        .await;
        match r {
            Ok(c) => cl(c),
            Err(e) => Out::Err(e.code()),
        }
    }

    /// AdministratorCommissioning::RevokeCommissioning (timed invoke).
    pub async fn revoke_commissioning(&self, via: Via) -> Out {
        let r: Result<(), Error> = async {
            let chunk = self
                .exch(via)
                .await?
                .invoke_with(Some(5000), |msg| {
                    msg.suppress_response(false)?
                        .timed_request(true)?
                        .invoke_requests()?
                        .administrator_commissioning_inv()
                        .revoke_commissioning(0)?
                        .end()?
                        .end()
                })
                .await?;
            let status = invoke_status(&chunk)?;
            let mut chunk = chunk;
            while let Some(next) = chunk.complete().await? {
                chunk = next;
            }
            match status.to_error_code() {
                None => Ok(()),
                Some(c) => Err(c.into()),
            }
        }
        .await;
        match r {
            Ok(()) => Out::Ok(0),
            Err(e) => Out::Err(e.code()),
        }
    }

    /// AdministratorCommissioning::OpenBasicCommissioningWindow (timed invoke).
    pub async fn open_basic_window(&self, via: Via, timeout_secs: u16) -> Out {
        let r: Result<(), Error> = async {
            let chunk = self
                .exch(via)
                .await?
                .invoke_with(Some(5000), |msg| {
                    msg.suppress_response(false)?
                        .timed_request(true)?
                        .invoke_requests()?
                        .administrator_commissioning_inv()
                        .open_basic_commissioning_window(0)?
                        .commissioning_timeout(timeout_secs)?
                        .end()?
                        .end()?
                        .end()?
                        .end()
                })
                .await?;
            let status = invoke_status(&chunk)?;
            let mut chunk = chunk;
            while let Some(next) = chunk.complete().await? {
                chunk = next;
            }
            match status.to_error_code() {
                None => Ok(()),
                Some(c) => Err(c.into()),
            }
        }
        .await;
        match r {
            Ok(()) => Out::Ok(0),
            Err(e) => Out::Err(e.code()),
        }
    }

    /// Read one concrete attribute; returns the raw TLV bytes of the data element, or the
    /// status class.
    pub async fn read_attr(
        &self,
        via: Via,
        ep: u16,
        cluster: u32,
        attr: u32,
        fabric_filtered: bool,
    ) -> Result<Vec<u8>, Out> {
        let r: Result<Result<Vec<u8>, IMStatusCode>, Error> = async {
            let chunk = self
                .exch(via)
                .await?
                .read_with(|b| {
                    b.attr_requests()?
                        .push()?
                        .endpoint(ep)?
                        .cluster(cluster)?
                        .attr(attr)?
                        .end()?
                        .end()?
                        .fabric_filtered(fabric_filtered)?
                        .end()
                })
                .await?;
            let mut out: Option<Result<Vec<u8>, IMStatusCode>> = None;
            let mut acc: Vec<u8> = Vec::new();
            let mut chunk = Some(chunk);
            while let Some(c) = chunk {
                {
                    let resp = c.response()?;
                    if let Some(reports) = resp.attr_reports.as_ref() {
                        for rep in reports.iter() {
                            match rep? {
                                AttrResp::Data(d) => {
                                    // Concatenate the raw data of all items (lists may come in pieces).
                                    acc.extend_from_slice(d.data.raw_value().unwrap_or(&[]));
                                    acc.push(0xfe);
                                    out = Some(Ok(Vec::new()));
                                }
                                AttrResp::Status(s) => {
                                    out = Some(Err(s.status.status));
                                }
                            }
                        }
                    }
                }
                chunk = c.complete().await?;
            }
            Ok(match out {
                Some(Ok(_)) => Ok(acc),
                Some(Err(s)) => Err(s),
                None => Err(IMStatusCode::Failure),
            })
        }
        .await;
        match r {
            Ok(Ok(v)) => Ok(v),
            Ok(Err(s)) => Err(Out::Err(s.to_error_code().unwrap_or(ErrorCode::Failure))),
            Err(e) => Err(Out::Err(e.code())),
        }
    }

    /// Write one concrete attribute with a value encodable by `ToTLV`.
    /// OperationalCredentials::SetVIDVerificationStatement(vendorID) for the accessing fabric.
    pub async fn set_vid_verification(&self, via: Via, vendor_id: u16) -> Out {
        let r: Result<(), Error> = async {
            self.exch(via)
                .await?
                .operational_credentials()
                .set_vid_verification_statement(0, |req| {
                    req.vendor_id(Some(vendor_id))?
                        .vid_verification_statement(None)?
                        .vvsc(None)?
                        .end()
                })
                .await?;
            Ok(())
        }
        .await;
        match r {
            Ok(()) => Out::Ok(0),
            Err(e) => Out::Err(e.code()),
        }
    }

    /// Groups::AddGroup on endpoint 1 (generic invoke: the command data is written by hand).
    pub async fn add_group(&self, via: Via, group_id: u16, name: &str) -> Out {
        let r: Result<u8, Error> = async {
            let chunk = self
                .exch(via)
                .await?
                .invoke_with(None, |msg| {
                    msg.invoke_requests()?
                        .push()?
                        .path(1, 0x0004, 0)?
                        .data(|w| {
                            use rs_matter::tlv::TLVWrite;
                            w.start_struct(&TLVTag::Context(1))?; // CmdDataTag::Data
                            w.u16(&TLVTag::Context(0), group_id)?;
                            w.utf8(&TLVTag::Context(1), name)?;
                            w.end_container()
                        })?
                        .end()?
                        .end()?
                        .end()
                })
                .await?;
            // AddGroupResponse { status, group_id } or a bare status
            let mut code: u8 = 0xFF;
            if let Some(resp) = chunk.response()? {
                if let Some(list) = resp.invoke_responses.as_ref() {
                    for r in list.iter() {
                        match r? {
                            rs_matter::im::CmdResp::Status(s) => code = s.status.status as u8,
                            rs_matter::im::CmdResp::Cmd(c) => {
                                code = c.data.structure()?.find_ctx(0)?.u8()?;
                            }
                        }
                    }
                }
            }
            let mut chunk = chunk;
            while let Some(next) = chunk.complete().await? {
                chunk = next;
            }
            Ok(code)
        }
        .await;
        match r {
            Ok(c) => cl(c),
            Err(e) => Out::Err(e.code()),
        }
    }

    pub async fn write_attr<T: ToTLV>(
        &self,
        via: Via,
        ep: u16,
        cluster: u32,
        attr: u32,
        value: &T,
    ) -> Out {
        let r: Result<IMStatusCode, Error> = async {
            let handle = self
                .exch(via)
                .await?
                .write_with(None, |b| {
                    b.write_requests()?
                        .push()?
                        .path(ep, cluster, attr)?
                        .data(|w| value.to_tlv(&TLVTag::Context(AttrDataTag::Data as u8), w))?
                        .end()?
                        .end()?
                        .end()
                })
                .await?;
            let mut st = IMStatusCode::Success;
            {
                let resp = handle.response()?;
                for s in resp.write_responses.iter() {
                    let s = s?;
                    if s.status.status != IMStatusCode::Success {
                        st = s.status.status;
                    }
                }
            }
            Ok(st)
        }
        .await;
        match r {
            Ok(IMStatusCode::Success) => Out::Ok(0),
            Ok(s) => Out::Err(s.to_error_code().unwrap_or(ErrorCode::Failure)),
            Err(e) => Out::Err(e.code()),
        }
    }
}

fn invoke_status(
    chunk: &rs_matter::im::client::InvokeRespChunk<'_>,
) -> Result<IMStatusCode, Error> {
    let Some(resp) = chunk.response()? else {
        return Ok(IMStatusCode::Success);
    };
    if let Some(list) = resp.invoke_responses.as_ref() {
        for r in list.iter() {
            match r? {
                rs_matter::im::CmdResp::Status(s) => return Ok(s.status.status),
                rs_matter::im::CmdResp::Cmd(_) => return Ok(IMStatusCode::Success),
            }
        }
    }
    Ok(IMStatusCode::Success)
}
