//! Snapshot monitor for C15 (and C20): invariants over successive session-table snapshots
//! of one node. Sessions have unique internal ids, so - unlike on the wire - a session can
//! be followed exactly.
//!
//!  * the send counter of a session never decreases;
//!  * locally chosen session ids are unique among live secure sessions;
//!  * exchange ids are unique among the live exchanges of a session with the same role.

use std::collections::HashMap;

use rs_matter::transport::session::verif::VerifSession;

#[derive(Default)]
pub struct SnapMonitor {
    /// (node, internal session id) -> last seen send counter
    ctr: HashMap<(usize, u32), u32>,
    pub violations: Vec<String>,
    pub snapshots: u64,
    pub sessions_seen: u64,
}

impl SnapMonitor {
    pub fn new() -> Self {
        Self::default()
    }

    pub fn observe(&mut self, node: usize, snap: &[VerifSession]) {
        self.snapshots += 1;
        for s in snap {
            self.sessions_seen += 1;
            // counter monotone (28-bit counter space for the initial value; it only grows)
            if let Some(prev) = self.ctr.get(&(node, s.id)) {
                if s.msg_ctr < *prev {
                    self.violations.push(format!(
                        "send-counter-decreased: node {} session {} counter {} -> {}",
                        node, s.id, prev, s.msg_ctr
                    ));
                }
            }
            self.ctr.insert((node, s.id), s.msg_ctr);

            // exchange ids unique per (session, role)
            for (i, a) in s.exchanges.iter().enumerate() {
                for b in s.exchanges.iter().skip(i + 1) {
                    if a.exch_id == b.exch_id && a.initiator == b.initiator {
                        self.violations.push(format!(
                            "duplicate-exchange-id: node {} session {} exchange id {} twice with the same role",
                            node, s.id, a.exch_id
                        ));
                    }
                }
            }
        }
        // local session ids unique among live secure unicast sessions
        let live: Vec<&VerifSession> = snap
            .iter()
            .filter(|s| {
                s.encrypted
                    && !matches!(
                        s.mode,
                        rs_matter::transport::session::SessionMode::Group { .. }
                    )
            })
            .collect();
        for (i, a) in live.iter().enumerate() {
            for b in live.iter().skip(i + 1) {
                if a.local_sess_id == b.local_sess_id {
                    self.violations.push(format!(
                        "duplicate-local-session-id: node {} sessions {} and {} share local session id {}",
                        node, a.id, b.id, a.local_sess_id
                    ));
                }
            }
        }
    }
}
