//! Independent (written from the Matter message format, not from rs-matter) decoder of
//! the unencrypted parts of a datagram, for the tap and the adversaries.

#[derive(Clone, Debug, PartialEq, Eq)]
pub struct WireInfo {
    pub msg_flags: u8,
    pub session_id: u16,
    pub sec_flags: u8,
    pub ctr: u32,
    pub src_node: Option<u64>,
    pub dst_node: Option<u64>,
    pub dst_group: Option<u16>,
    pub hdr_len: usize,
    /// Protocol header fields: only for unsecured (session id 0, unicast) messages.
    pub exch_flags: Option<u8>,
    pub opcode: Option<u8>,
    pub exch_id: Option<u16>,
    pub proto_id: Option<u16>,
    pub ack_ctr: Option<u32>,
    pub payload_off: Option<usize>,
}

pub const EXCH_I: u8 = 0x01;
pub const EXCH_A: u8 = 0x02;
pub const EXCH_R: u8 = 0x04;
pub const EXCH_V: u8 = 0x10;

pub fn peek(b: &[u8]) -> Option<WireInfo> {
    if b.len() < 8 {
        return None;
    }
    let msg_flags = b[0];
    let session_id = u16::from_le_bytes([b[1], b[2]]);
    let sec_flags = b[3];
    let ctr = u32::from_le_bytes([b[4], b[5], b[6], b[7]]);
    let mut off = 8;
    let mut src_node = None;
    let mut dst_node = None;
    let mut dst_group = None;
    if msg_flags & 0x04 != 0 {
        if b.len() < off + 8 {
            return None;
        }
        src_node = Some(u64::from_le_bytes(b[off..off + 8].try_into().ok()?));
        off += 8;
    }
    match msg_flags & 0x03 {
        1 => {
            if b.len() < off + 8 {
                return None;
            }
            dst_node = Some(u64::from_le_bytes(b[off..off + 8].try_into().ok()?));
            off += 8;
        }
        2 => {
            if b.len() < off + 2 {
                return None;
            }
            dst_group = Some(u16::from_le_bytes([b[off], b[off + 1]]));
            off += 2;
        }
        _ => {}
    }
    let mut info = WireInfo {
        msg_flags,
        session_id,
        sec_flags,
        ctr,
        src_node,
        dst_node,
        dst_group,
        hdr_len: off,
        exch_flags: None,
        opcode: None,
        exch_id: None,
        proto_id: None,
        ack_ctr: None,
        payload_off: None,
    };
    let unsecured = session_id == 0 && (sec_flags & 0x03) == 0;
    if unsecured && b.len() >= off + 6 {
        let ef = b[off];
        info.exch_flags = Some(ef);
        info.opcode = Some(b[off + 1]);
        info.exch_id = Some(u16::from_le_bytes([b[off + 2], b[off + 3]]));
        info.proto_id = Some(u16::from_le_bytes([b[off + 4], b[off + 5]]));
        let mut p = off + 6;
        if ef & EXCH_V != 0 {
            p += 2;
        }
        if ef & EXCH_A != 0 {
            if b.len() >= p + 4 {
                info.ack_ctr = Some(u32::from_le_bytes(b[p..p + 4].try_into().ok()?));
            }
            p += 4;
        }
        if p <= b.len() {
            info.payload_off = Some(p);
        }
    }
    Some(info)
}
