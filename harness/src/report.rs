//! Per-shard report: what the monitor observed, plus witnesses.

use std::collections::{BTreeMap, BTreeSet};

use serde_json::{json, Value};

#[derive(Clone, Debug)]
pub struct Violation {
    /// Oracle rule id, e.g. "unicast-window/in-window-unseen-rejected".
    pub rule: String,
    /// Normalised signature used to match known findings (rule + input class).
    pub signature: String,
    /// Human-readable description of what failed.
    pub detail: String,
    /// Everything needed to replay exactly this case.
    pub replay: Value,
}

#[derive(Default)]
pub struct Report {
    pub property: String,
    pub evaluations: u64,
    /// Hashes of distinct, non-trivial cases (rule stated per monitor).
    pub distinct: BTreeSet<u64>,
    /// Hashes of distinct poll schedules (executor) seen.
    pub interleavings: BTreeSet<u64>,
    pub counters: BTreeMap<String, u64>,
    pub samples: Vec<Value>,
    pub violations: Vec<Violation>,
    /// Observed-but-not-judged facts and inconclusive cases.
    pub notes: BTreeMap<String, u64>,
    pub inconclusive: BTreeMap<String, u64>,
    pub rule: String,
    pub assumptions: Vec<String>,
    pub max_samples: usize,
    pub max_violations: usize,
    /// Coverage floors: counter name -> minimum total over all shards (else inconclusive).
    pub floors: BTreeMap<String, u64>,
}

impl Report {
    pub fn new(property: &str, rule: &str) -> Self {
        Self {
            property: property.to_string(),
            rule: rule.to_string(),
            max_samples: 6,
            max_violations: 40,
            ..Default::default()
        }
    }

    #[inline]
    pub fn count(&mut self, key: &str) {
        *self.counters.entry(key.to_string()).or_insert(0) += 1;
    }

    #[inline]
    pub fn count_n(&mut self, key: &str, n: u64) {
        *self.counters.entry(key.to_string()).or_insert(0) += n;
    }

    pub fn get(&self, key: &str) -> u64 {
        self.counters.get(key).copied().unwrap_or(0)
    }

    pub fn note(&mut self, key: &str) {
        *self.notes.entry(key.to_string()).or_insert(0) += 1;
    }

    pub fn inconclusive(&mut self, key: &str) {
        *self.inconclusive.entry(key.to_string()).or_insert(0) += 1;
    }

    pub fn sample(&mut self, v: Value) {
        if self.samples.len() < self.max_samples {
            self.samples.push(v);
        }
    }

    pub fn violation(&mut self, rule: &str, signature: &str, detail: String, replay: Value) {
        self.count("violations_raw");
        // Keep at most a few witnesses per signature, and a global cap.
        let same = self
            .violations
            .iter()
            .filter(|v| v.signature == signature)
            .count();
        if same < 3 && self.violations.len() < self.max_violations {
            self.violations.push(Violation {
                rule: rule.to_string(),
                signature: signature.to_string(),
                detail,
                replay,
            });
        }
        *self
            .counters
            .entry(format!("violation:{}", signature))
            .or_insert(0) += 1;
    }

    pub fn floor(&mut self, key: &str, min: u64) {
        self.floors.insert(key.to_string(), min);
    }

    pub fn to_json(&self) -> Value {
        // `distinct` / `interleavings` are emitted as hash lists so that the driver can
        // take the union over shards (a measured set cardinality, not a sum).
        json!({
            "property": self.property,
            "evaluations": self.evaluations,
            "distinct": self.distinct.iter().map(|h| format!("{:016x}", h)).collect::<Vec<_>>(),
            "interleavings": self.interleavings.iter().map(|h| format!("{:016x}", h)).collect::<Vec<_>>(),
            "counters": self.counters,
            "samples": self.samples,
            "violations": self.violations.iter().map(|v| json!({
                "rule": v.rule, "signature": v.signature, "detail": v.detail, "replay": v.replay
            })).collect::<Vec<_>>(),
            "notes": self.notes,
            "inconclusive": self.inconclusive,
            "rule": self.rule,
            "assumptions": self.assumptions,
            "floors": self.floors,
        })
    }
}

#[derive(Clone, Debug)]
pub struct Ctx {
    pub seed: u64,
    pub thorough: bool,
    pub shard: u64,
    pub nshards: u64,
    /// Scale factor applied on top of the tier (for Miri / sanitizer builds: < 1).
    pub scale: f64,
    pub replay: Option<Value>,
    /// Free-form mode string (e.g. "miri", "asan").
    pub mode: String,
}

impl Ctx {
    /// Number of cases this shard should run given a total for the tier.
    pub fn share(&self, quick_total: u64, thorough_total: u64) -> u64 {
        let total = if self.thorough {
            thorough_total
        } else {
            quick_total
        };
        let total = ((total as f64) * self.scale).ceil() as u64;
        let base = total / self.nshards;
        let extra = if self.shard < total % self.nshards { 1 } else { 0 };
        (base + extra).max(1)
    }

    pub fn shard_seed(&self) -> u64 {
        crate::sim::rng::subseed(self.seed, &[self.shard, 0x5eed])
    }
}
