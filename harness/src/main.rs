//! rsmv — runtime monitors for rs-matter (see /verif/DESIGN.md).
//!
//! `rsmv run <ID> [--thorough] [--seed N] [--shard i/n] [--scale f] [--mode m] [--replay file] --out file.json`

mod mon;
mod report;
mod sim;
mod util;

use report::{Ctx, Report};

fn dispatch(id: &str, ctx: &Ctx) -> Option<Report> {
    Some(match id {
        "C01" => mon::c01::run(ctx),
        "C04" => mon::c04::run(ctx),
        "C05" => mon::c05::run(ctx),
        "C20" => mon::c20::run(ctx),
        "C19" => mon::c19::run(ctx),
        "C16" => mon::c16::run(ctx),
        "C02" => mon::c02::run(ctx),
        "C12" => mon::c12::run(ctx),
        "C17" => mon::c17::run(ctx),
        "C18" => mon::c18::run(ctx),
        "C08" => mon::c08::run(ctx),
        "C03" => mon::c03::run(ctx),
        "C09" => mon::c09::run(ctx),
        "C13" => mon::c13::run(ctx),
        "C06" => mon::c06::run(ctx),
        "C14" => mon::c14::run(ctx),
        "C07" => mon::c07::run(ctx),
        "C10" => mon::c10::run(ctx),
        "C11" => mon::c11::run(ctx),
        "C15" => mon::c15::run(ctx),
        _ => return None,
    })
}

fn main() {
    let args: Vec<String> = std::env::args().collect();
    if args.len() == 2 && args[1] == "version" {
        println!("rsmv {}", env!("CARGO_PKG_VERSION"));
        return;
    }
    if args.len() < 3 || args[1] != "run" {
        eprintln!("usage: rsmv run <ID> [--thorough] [--seed N] [--shard i/n] [--scale f] [--mode m] [--replay file] --out file");
        std::process::exit(2);
    }
    let id = args[2].clone();
    let mut ctx = Ctx {
        seed: 1,
        thorough: false,
        shard: 0,
        nshards: 1,
        scale: 1.0,
        replay: None,
        mode: String::new(),
    };
    let mut out: Option<String> = None;
    let mut i = 3;
    while i < args.len() {
        match args[i].as_str() {
            "--thorough" => ctx.thorough = true,
            "--seed" => {
                i += 1;
                ctx.seed = args[i].parse().expect("seed");
            }
            "--shard" => {
                i += 1;
                let (a, b) = args[i].split_once('/').expect("shard i/n");
                ctx.shard = a.parse().unwrap();
                ctx.nshards = b.parse().unwrap();
            }
            "--scale" => {
                i += 1;
                ctx.scale = args[i].parse().unwrap();
            }
            "--mode" => {
                i += 1;
                ctx.mode = args[i].clone();
            }
            "--replay" => {
                i += 1;
                let txt = std::fs::read_to_string(&args[i]).expect("replay file");
                let v: serde_json::Value = serde_json::from_str(&txt).expect("replay json");
                // Accept either the bare replay object or a witness wrapper {"replay": {...}}
                ctx.replay = Some(if v.get("replay").is_some() { v["replay"].clone() } else { v });
            }
            "--out" => {
                i += 1;
                out = Some(args[i].clone());
            }
            other => {
                eprintln!("unknown arg {other}");
                std::process::exit(2);
            }
        }
        i += 1;
    }

    // Scenarios build large futures: run on a thread with a big stack.
    let id2 = id.clone();
    let ctx2 = ctx.clone();
    let handle = std::thread::Builder::new()
        .stack_size(512 * 1024 * 1024)
        .spawn(move || dispatch(&id2, &ctx2))
        .unwrap();
    let rep = match handle.join() {
        Ok(Some(r)) => r,
        Ok(None) => {
            eprintln!("unknown property {id}");
            std::process::exit(2);
        }
        Err(_) => {
            eprintln!("harness thread panicked outside a guarded case");
            std::process::exit(3);
        }
    };
    let js = serde_json::to_string(&rep.to_json()).unwrap();
    match out {
        Some(p) => std::fs::write(p, js).unwrap(),
        None => println!("{js}"),
    }
}
