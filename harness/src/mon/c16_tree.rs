//! C16 helper: harness-side TLV value trees — generator, reference encoder (from the Matter TLV
//! format, used only to *locate* elements and length fields, never as the oracle), the real
//! writer driver, the structural comparison, and the malformed-input generators.

use serde_json::json;

use rs_matter::error::Error;
use rs_matter::tlv::{TLVElement, TLVTag, TLVValue, TLVValueType, TLVWrite};
use rs_matter::utils::storage::WriteBuf;

use crate::report::{Ctx, Report};
use crate::sim::rng::{Fnv, Rng};

use super::c16::{probe_input, Stats, BOUNDARIES};
use super::c16_probe::{elem_bytes, guarded, hex, reencode_tlv_iter, reencode_to_tlv};
use super::c16_types;

#[derive(Clone, Debug, PartialEq)]
pub enum Tag {
    Anon,
    Ctx(u8),
    C16(u16),
    C32(u32),
    I16(u16),
    I32(u32),
    F48(u16, u16, u16),
    F64(u16, u16, u32),
}

impl Tag {
    fn to_real(&self) -> TLVTag {
        match *self {
            Tag::Anon => TLVTag::Anonymous,
            Tag::Ctx(v) => TLVTag::Context(v),
            Tag::C16(v) => TLVTag::CommonPrf16(v),
            Tag::C32(v) => TLVTag::CommonPrf32(v),
            Tag::I16(v) => TLVTag::ImplPrf16(v),
            Tag::I32(v) => TLVTag::ImplPrf32(v),
            Tag::F48(a, b, c) => TLVTag::FullQual48 { vendor_id: a, profile: b, tag: c },
            Tag::F64(a, b, c) => TLVTag::FullQual64 { vendor_id: a, profile: b, tag: c },
        }
    }
    fn code(&self) -> u8 {
        match self {
            Tag::Anon => 0,
            Tag::Ctx(_) => 1,
            Tag::C16(_) => 2,
            Tag::C32(_) => 3,
            Tag::I16(_) => 4,
            Tag::I32(_) => 5,
            Tag::F48(..) => 6,
            Tag::F64(..) => 7,
        }
    }
    fn counter(&self) -> &'static str {
        match self {
            Tag::Anon => "rt:tag:anonymous",
            Tag::Ctx(_) => "rt:tag:context",
            Tag::C16(_) => "rt:tag:common16",
            Tag::C32(_) => "rt:tag:common32",
            Tag::I16(_) => "rt:tag:implicit16",
            Tag::I32(_) => "rt:tag:implicit32",
            Tag::F48(..) => "rt:tag:fq48",
            Tag::F64(..) => "rt:tag:fq64",
        }
    }
    fn encode(&self, out: &mut Vec<u8>) {
        match *self {
            Tag::Anon => {}
            Tag::Ctx(v) => out.push(v),
            Tag::C16(v) | Tag::I16(v) => out.extend_from_slice(&v.to_le_bytes()),
            Tag::C32(v) | Tag::I32(v) => out.extend_from_slice(&v.to_le_bytes()),
            Tag::F48(a, b, c) => {
                out.extend_from_slice(&a.to_le_bytes());
                out.extend_from_slice(&b.to_le_bytes());
                out.extend_from_slice(&c.to_le_bytes());
            }
            Tag::F64(a, b, c) => {
                out.extend_from_slice(&a.to_le_bytes());
                out.extend_from_slice(&b.to_le_bytes());
                out.extend_from_slice(&c.to_le_bytes());
            }
        }
    }
}

#[derive(Clone, Debug, PartialEq)]
pub enum Val {
    S8(i8),
    S16(i16),
    S32(i32),
    S64(i64),
    U8(u8),
    U16(u16),
    U32(u32),
    U64(u64),
    Bool(bool),
    /// bit patterns, compared bitwise
    F32(u32),
    F64(u64),
    /// (length-field width 1/2/4/8, content)
    Utf8(u8, String),
    Octets(u8, Vec<u8>),
    Null,
    Struct(Vec<Node>),
    Array(Vec<Node>),
    List(Vec<Node>),
}

impl Val {
    /// TLV element-type code (low 5 bits of the control byte).
    fn type_code(&self) -> u8 {
        fn lw(w: u8) -> u8 {
            match w {
                1 => 0,
                2 => 1,
                4 => 2,
                _ => 3,
            }
        }
        match self {
            Val::S8(_) => 0,
            Val::S16(_) => 1,
            Val::S32(_) => 2,
            Val::S64(_) => 3,
            Val::U8(_) => 4,
            Val::U16(_) => 5,
            Val::U32(_) => 6,
            Val::U64(_) => 7,
            Val::Bool(false) => 8,
            Val::Bool(true) => 9,
            Val::F32(_) => 10,
            Val::F64(_) => 11,
            Val::Utf8(w, _) => 12 + lw(*w),
            Val::Octets(w, _) => 16 + lw(*w),
            Val::Null => 20,
            Val::Struct(_) => 21,
            Val::Array(_) => 22,
            Val::List(_) => 23,
        }
    }
    pub fn class(&self) -> &'static str {
        match self {
            Val::S8(_) | Val::S16(_) | Val::S32(_) | Val::S64(_) => "sint",
            Val::U8(_) | Val::U16(_) | Val::U32(_) | Val::U64(_) => "uint",
            Val::Bool(_) => "bool",
            Val::F32(_) | Val::F64(_) => "float",
            Val::Utf8(8, _) => "utf8-64l",
            Val::Utf8(..) => "utf8",
            Val::Octets(8, _) => "octets-64l",
            Val::Octets(..) => "octets",
            Val::Null => "null",
            Val::Struct(k) | Val::Array(k) | Val::List(k) => {
                if k.iter().any(|c| c.val.kids().is_some()) {
                    "container-nested"
                } else if k.is_empty() {
                    "container-empty"
                } else {
                    "container-flat"
                }
            }
        }
    }
    fn kids(&self) -> Option<&Vec<Node>> {
        match self {
            Val::Struct(k) | Val::Array(k) | Val::List(k) => Some(k),
            _ => None,
        }
    }
}

/// How the node is handed to the real writer.
#[derive(Clone, Copy, Debug, PartialEq)]
pub enum Via {
    /// `TLVWrite::tlv(tag, &TLVValue::X(..))` — exact width as given.
    Tlv,
    /// The typed method (`u32()`, `str()`, `start_struct()` ...). Only generated when the node's
    /// width already is the smallest that fits (the documented behaviour of the typed methods).
    Typed,
    /// typed method of a wider type / iterator variant / callback variant
    Alt,
}

#[derive(Clone, Debug, PartialEq)]
pub struct Node {
    pub tag: Tag,
    pub val: Val,
    pub via: Via,
}

#[derive(Clone, Debug)]
pub struct LenField {
    /// offset of the control byte
    pub ctl: usize,
    /// offset of the length field
    pub pos: usize,
    pub w: usize,
    pub len: u64,
    pub utf8: bool,
}

#[derive(Default)]
pub struct Enc {
    pub bytes: Vec<u8>,
    /// preorder: (start, end, depth)
    pub spans: Vec<(usize, usize, usize)>,
    pub lens: Vec<LenField>,
}

pub fn encode_ref(n: &Node, depth: usize, e: &mut Enc) {
    let start = e.bytes.len();
    let idx = e.spans.len();
    e.spans.push((start, 0, depth));
    e.bytes.push((n.tag.code() << 5) | n.val.type_code());
    n.tag.encode(&mut e.bytes);
    let lenfield = |e: &mut Enc, w: u8, len: usize, utf8: bool| {
        let pos = e.bytes.len();
        e.lens.push(LenField { ctl: start, pos, w: w as usize, len: len as u64, utf8 });
        e.bytes.extend_from_slice(&(len as u64).to_le_bytes()[..w as usize]);
    };
    match &n.val {
        Val::S8(v) => e.bytes.extend_from_slice(&v.to_le_bytes()),
        Val::S16(v) => e.bytes.extend_from_slice(&v.to_le_bytes()),
        Val::S32(v) => e.bytes.extend_from_slice(&v.to_le_bytes()),
        Val::S64(v) => e.bytes.extend_from_slice(&v.to_le_bytes()),
        Val::U8(v) => e.bytes.extend_from_slice(&v.to_le_bytes()),
        Val::U16(v) => e.bytes.extend_from_slice(&v.to_le_bytes()),
        Val::U32(v) => e.bytes.extend_from_slice(&v.to_le_bytes()),
        Val::U64(v) => e.bytes.extend_from_slice(&v.to_le_bytes()),
        Val::Bool(_) | Val::Null => {}
        Val::F32(v) => e.bytes.extend_from_slice(&v.to_le_bytes()),
        Val::F64(v) => e.bytes.extend_from_slice(&v.to_le_bytes()),
        Val::Utf8(w, s) => {
            lenfield(e, *w, s.len(), true);
            e.bytes.extend_from_slice(s.as_bytes());
        }
        Val::Octets(w, b) => {
            lenfield(e, *w, b.len(), false);
            e.bytes.extend_from_slice(b);
        }
        Val::Struct(k) | Val::Array(k) | Val::List(k) => {
            for c in k {
                encode_ref(c, depth + 1, e);
            }
            e.bytes.push(0x18);
        }
    }
    e.spans[idx].1 = e.bytes.len();
}

// ---------------------------------------------------------------- generator

pub struct GenCfg {
    pub max_depth: usize,
    pub max_kids: usize,
    /// max string length class: 0 = short only (<= 12), 1 = up to 300, 2 = allow 65535/65536
    pub str_class: u8,
    pub budget: usize,
}

fn gen_tag(rng: &mut Rng) -> Tag {
    let pick16 = |rng: &mut Rng| *rng.pick(&[0u16, 1, 0xff, 0x100, 0x7fff, 0xffff, 0x1234]);
    match rng.below(16) {
        0..=3 => Tag::Anon,
        4..=8 => Tag::Ctx(match rng.below(4) {
            0 => 0,
            1 => 255,
            2 => 254,
            _ => rng.below(256) as u8,
        }),
        9 => Tag::C16(if rng.bool() { pick16(rng) } else { rng.u32() as u16 }),
        10 => Tag::C32(if rng.bool() { *rng.pick(&[0u32, 0xffff, 0x10000, u32::MAX]) } else { rng.u32() }),
        11 => Tag::I16(if rng.bool() { pick16(rng) } else { rng.u32() as u16 }),
        12 => Tag::I32(if rng.bool() { *rng.pick(&[0u32, 0xffff, 0x10000, u32::MAX]) } else { rng.u32() }),
        13 | 14 => Tag::F48(pick16(rng), rng.u32() as u16, pick16(rng)),
        _ => Tag::F64(rng.u32() as u16, pick16(rng), if rng.bool() { u32::MAX } else { rng.u32() }),
    }
}

fn gen_string(rng: &mut Rng, len_hint: usize) -> String {
    const CH: &[char] = &['a', 'Z', '0', ' ', '\u{0}', '\u{7f}', 'é', 'ß', '€', '中', '😀', '\u{10FFFF}', '"', '\n'];
    let mut s = String::new();
    while s.len() < len_hint {
        let c = *rng.pick(CH);
        if s.len() + c.len_utf8() > len_hint {
            s.push('x');
        } else {
            s.push(c);
        }
    }
    s
}

fn gen_len(rng: &mut Rng, cfg: &GenCfg) -> usize {
    match cfg.str_class {
        0 => *rng.pick(&[0usize, 0, 1, 2, 3, 5, 8, 12]),
        1 => match rng.below(12) {
            0 => 0,
            1 => 1,
            2 => 254,
            3 => 255,
            4 => 256,
            5 => 257,
            6 => 300,
            _ => rng.usize(24),
        },
        _ => *rng.pick(&[65_534usize, 65_535, 65_536, 65_537]),
    }
}

fn min_w(len: usize) -> u8 {
    if len <= 0xff {
        1
    } else if len <= 0xffff {
        2
    } else {
        4
    }
}

fn gen_leaf(rng: &mut Rng, cfg: &GenCfg) -> (Val, Via) {
    let via3 = |rng: &mut Rng| *rng.pick(&[Via::Tlv, Via::Typed, Via::Alt]);
    match rng.below(20) {
        0 => {
            let v = *rng.pick(&[i8::MIN, -1, 0, 1, i8::MAX, 42]);
            (Val::S8(if rng.chance(1, 4) { rng.u32() as i8 } else { v }), via3(rng))
        }
        1 => {
            let v = *rng.pick(&[i16::MIN, -129, -128, -1, 0, 1, 127, 128, i16::MAX]);
            let v = if rng.chance(1, 4) { rng.u32() as i16 } else { v };
            let minimal = !(i8::MIN as i16..=i8::MAX as i16).contains(&v);
            (Val::S16(v), if minimal { via3(rng) } else { Via::Tlv })
        }
        2 => {
            let v = *rng.pick(&[i32::MIN, -32769, -32768, -1, 0, 1, 32767, 32768, i32::MAX]);
            let v = if rng.chance(1, 4) { rng.u32() as i32 } else { v };
            let minimal = !(i16::MIN as i32..=i16::MAX as i32).contains(&v);
            (Val::S32(v), if minimal { via3(rng) } else { Via::Tlv })
        }
        3 => {
            let v = *rng.pick(&[
                i64::MIN,
                i32::MIN as i64 - 1,
                i32::MIN as i64,
                -1,
                0,
                1,
                i32::MAX as i64,
                i32::MAX as i64 + 1,
                i64::MAX,
            ]);
            let v = if rng.chance(1, 4) { rng.u64() as i64 } else { v };
            let minimal = !(i32::MIN as i64..=i32::MAX as i64).contains(&v);
            (Val::S64(v), if minimal { via3(rng) } else { Via::Tlv })
        }
        4 => {
            let v = *rng.pick(&[0u8, 1, 127, 128, 254, 255]);
            (Val::U8(if rng.chance(1, 4) { rng.u32() as u8 } else { v }), via3(rng))
        }
        5 => {
            let v = *rng.pick(&[0u16, 1, 255, 256, 0x7fff, 0x8000, u16::MAX - 1, u16::MAX]);
            let v = if rng.chance(1, 4) { rng.u32() as u16 } else { v };
            (Val::U16(v), if v > 0xff { via3(rng) } else { Via::Tlv })
        }
        6 => {
            let v = *rng.pick(&[0u32, 1, 0xffff, 0x10000, 0x7fff_ffff, 0x8000_0000, u32::MAX - 1, u32::MAX]);
            let v = if rng.chance(1, 4) { rng.u32() } else { v };
            (Val::U32(v), if v > 0xffff { via3(rng) } else { Via::Tlv })
        }
        7 => {
            let v = *rng.pick(&[
                0u64,
                1,
                u32::MAX as u64,
                u32::MAX as u64 + 1,
                i64::MAX as u64,
                1 << 63,
                u64::MAX - 1,
                u64::MAX,
            ]);
            let v = if rng.chance(1, 4) { rng.u64() } else { v };
            (Val::U64(v), if v > u32::MAX as u64 { via3(rng) } else { Via::Tlv })
        }
        8 => (Val::Bool(rng.bool()), via3(rng)),
        9 => {
            let v = *rng.pick(&[
                0u32,
                0x8000_0000,
                0x3f80_0000,
                0x7f80_0000,
                0xff80_0000,
                0x7fc0_0000,
                0x7f80_0001,
                0xffff_ffff,
                0x7fa0_1234,
                1,
                0x007f_ffff,
            ]);
            (Val::F32(if rng.chance(1, 4) { rng.u32() } else { v }), if rng.bool() { Via::Tlv } else { Via::Typed })
        }
        10 => {
            let v = *rng.pick(&[
                0u64,
                1 << 63,
                0x3ff0_0000_0000_0000,
                0x7ff0_0000_0000_0000,
                0xfff0_0000_0000_0000,
                0x7ff8_0000_0000_0000,
                0x7ff0_0000_0000_0001,
                u64::MAX,
                0x7ff4_0000_dead_beef,
                1,
            ]);
            (Val::F64(if rng.chance(1, 4) { rng.u64() } else { v }), if rng.bool() { Via::Tlv } else { Via::Typed })
        }
        11..=14 => {
            let len = gen_len(rng, cfg);
            let s = gen_string(rng, len);
            let mw = min_w(s.len());
            let w = if rng.chance(1, 2) { mw } else { *rng.pick(&[1u8, 2, 4, 8]) }.max(mw);
            let via = if w == mw { via3(rng) } else { Via::Tlv };
            (Val::Utf8(w, s), via)
        }
        15..=18 => {
            let len = gen_len(rng, cfg);
            let b = match rng.below(4) {
                0 => vec![0u8; len],
                1 => vec![0xff; len],
                2 => vec![0x18; len],
                _ => rng.bytes(len),
            };
            let mw = min_w(b.len());
            let w = if rng.chance(1, 2) { mw } else { *rng.pick(&[1u8, 2, 4, 8]) }.max(mw);
            let via = if w == mw { via3(rng) } else { Via::Tlv };
            (Val::Octets(w, b), via)
        }
        _ => (Val::Null, via3(rng)),
    }
}

pub fn gen_node(rng: &mut Rng, cfg: &GenCfg, depth: usize, budget: &mut usize) -> Node {
    let tag = gen_tag(rng);
    let container = depth < cfg.max_depth && *budget > 0 && rng.chance(if depth == 0 { 4 } else { 2 }, 6);
    if container {
        let n = if rng.chance(1, 8) { 0 } else { 1 + rng.usize(cfg.max_kids) };
        let mut kids = Vec::new();
        for _ in 0..n {
            if *budget == 0 {
                break;
            }
            *budget -= 1;
            kids.push(gen_node(rng, cfg, depth + 1, budget));
        }
        let via = *rng.pick(&[Via::Tlv, Via::Typed, Via::Alt]);
        let val = match rng.below(3) {
            0 => Val::Struct(kids),
            1 => Val::Array(kids),
            _ => Val::List(kids),
        };
        Node { tag, val, via }
    } else {
        let (val, via) = gen_leaf(rng, cfg);
        Node { tag, val, via }
    }
}

/// A chain of `depth` nested containers with a leaf (and optionally siblings) at the bottom.
fn gen_chain(rng: &mut Rng, depth: usize) -> Node {
    let cfg = GenCfg { max_depth: 0, max_kids: 0, str_class: 0, budget: 0 };
    let (val, via) = gen_leaf(rng, &cfg);
    let mut node = Node { tag: gen_tag(rng), val, via };
    for _ in 0..depth {
        let mut kids = vec![node];
        if rng.chance(1, 3) {
            let (val, via) = gen_leaf(rng, &cfg);
            let sib = Node { tag: gen_tag(rng), val, via };
            if rng.bool() {
                kids.push(sib)
            } else {
                kids.insert(0, sib)
            }
        }
        let via = *rng.pick(&[Via::Tlv, Via::Typed, Via::Alt]);
        let val = match rng.below(3) {
            0 => Val::Struct(kids),
            1 => Val::Array(kids),
            _ => Val::List(kids),
        };
        node = Node { tag: gen_tag(rng), val, via };
    }
    node
}

pub fn gen_tree(rng: &mut Rng) -> Node {
    match rng.below(100) {
        0..=5 => {
            let d = 8 + rng.usize(25);
            gen_chain(rng, d)
        }
        6..=7 => {
            let d = 32 + rng.usize(200);
            gen_chain(rng, d)
        }
        8 => {
            // huge strings (2-byte / 4-byte length boundary)
            let cfg = GenCfg { max_depth: 1, max_kids: 2, str_class: 2, budget: 2 };
            let mut b = cfg.budget;
            gen_node(rng, &cfg, 0, &mut b)
        }
        9..=39 => {
            let cfg = GenCfg { max_depth: 4, max_kids: 5, str_class: 1, budget: 24 };
            let mut b = cfg.budget;
            gen_node(rng, &cfg, 0, &mut b)
        }
        _ => {
            let cfg = GenCfg { max_depth: 6, max_kids: 4, str_class: 0, budget: 14 };
            let mut b = cfg.budget;
            gen_node(rng, &cfg, 0, &mut b)
        }
    }
}

/// Small trees for the malformed-input seeds.
pub fn gen_small_tree(rng: &mut Rng, want_string: bool) -> Node {
    for _ in 0..50 {
        let cfg = GenCfg {
            max_depth: 1 + rng.usize(4),
            max_kids: 3,
            str_class: if rng.chance(1, 12) { 1 } else { 0 },
            budget: 2 + rng.usize(7),
        };
        let mut b = cfg.budget;
        let n = gen_node(rng, &cfg, 0, &mut b);
        if !want_string || has_string(&n) {
            return n;
        }
    }
    Node { tag: Tag::Ctx(1), val: Val::Octets(1, vec![1, 2, 3]), via: Via::Tlv }
}

fn has_string(n: &Node) -> bool {
    match &n.val {
        Val::Utf8(..) | Val::Octets(..) => true,
        Val::Struct(k) | Val::Array(k) | Val::List(k) => k.iter().any(has_string),
        _ => false,
    }
}

// ---------------------------------------------------------------- real writer

/// A second `TLVWrite` implementation that only provides `write` (exercises the trait defaults).
struct VecSink(Vec<u8>);

impl TLVWrite for VecSink {
    type Position = usize;
    fn write(&mut self, byte: u8) -> Result<(), Error> {
        self.0.push(byte);
        Ok(())
    }
}

fn write_node<W: TLVWrite>(tw: &mut W, n: &Node, cb_ok: bool) -> Result<(), Error> {
    let tag = n.tag.to_real();
    let tag = &tag;
    match (&n.val, n.via) {
        (Val::S8(v), Via::Tlv) => tw.tlv(tag, &TLVValue::S8(*v)),
        (Val::S8(v), Via::Typed) => tw.i8(tag, *v),
        (Val::S8(v), Via::Alt) => tw.i64(tag, *v as i64),
        (Val::S16(v), Via::Tlv) => tw.tlv(tag, &TLVValue::S16(*v)),
        (Val::S16(v), Via::Typed) => tw.i16(tag, *v),
        (Val::S16(v), Via::Alt) => tw.i32(tag, *v as i32),
        (Val::S32(v), Via::Tlv) => tw.tlv(tag, &TLVValue::S32(*v)),
        (Val::S32(v), Via::Typed) => tw.i32(tag, *v),
        (Val::S32(v), Via::Alt) => tw.i64(tag, *v as i64),
        (Val::S64(v), Via::Tlv) => tw.tlv(tag, &TLVValue::S64(*v)),
        (Val::S64(v), _) => tw.i64(tag, *v),
        (Val::U8(v), Via::Tlv) => tw.tlv(tag, &TLVValue::U8(*v)),
        (Val::U8(v), Via::Typed) => tw.u8(tag, *v),
        (Val::U8(v), Via::Alt) => tw.u64(tag, *v as u64),
        (Val::U16(v), Via::Tlv) => tw.tlv(tag, &TLVValue::U16(*v)),
        (Val::U16(v), Via::Typed) => tw.u16(tag, *v),
        (Val::U16(v), Via::Alt) => tw.u32(tag, *v as u32),
        (Val::U32(v), Via::Tlv) => tw.tlv(tag, &TLVValue::U32(*v)),
        (Val::U32(v), Via::Typed) => tw.u32(tag, *v),
        (Val::U32(v), Via::Alt) => tw.u64(tag, *v as u64),
        (Val::U64(v), Via::Tlv) => tw.tlv(tag, &TLVValue::U64(*v)),
        (Val::U64(v), _) => tw.u64(tag, *v),
        (Val::Bool(v), Via::Tlv) => tw.tlv(tag, &TLVValue::bool(*v)),
        (Val::Bool(v), _) => tw.bool(tag, *v),
        (Val::F32(v), Via::Tlv) => tw.tlv(tag, &TLVValue::F32(f32::from_bits(*v))),
        (Val::F32(v), _) => tw.f32(tag, f32::from_bits(*v)),
        (Val::F64(v), Via::Tlv) => tw.tlv(tag, &TLVValue::F64(f64::from_bits(*v))),
        (Val::F64(v), _) => tw.f64(tag, f64::from_bits(*v)),
        (Val::Utf8(w, s), Via::Tlv) => {
            let v = match w {
                1 => TLVValue::Utf8l(s),
                2 => TLVValue::Utf16l(s),
                4 => TLVValue::Utf32l(s),
                _ => TLVValue::Utf64l(s),
            };
            tw.tlv(tag, &v)
        }
        (Val::Utf8(_, s), Via::Typed) => tw.utf8(tag, s),
        (Val::Utf8(_, s), Via::Alt) => {
            if cb_ok && s.len() <= 0xffff && s.len() % 2 == 0 {
                tw.utf8_cb(tag, |buf| {
                    buf[..s.len()].copy_from_slice(s.as_bytes());
                    Ok(s.len())
                })
            } else {
                tw.utf8i(tag, s.len(), s.as_bytes().iter().copied())
            }
        }
        (Val::Octets(w, b), Via::Tlv) => {
            let v = match w {
                1 => TLVValue::Str8l(b),
                2 => TLVValue::Str16l(b),
                4 => TLVValue::Str32l(b),
                _ => TLVValue::Str64l(b),
            };
            tw.tlv(tag, &v)
        }
        (Val::Octets(_, b), Via::Typed) => tw.str(tag, b),
        (Val::Octets(_, b), Via::Alt) => {
            if cb_ok && b.len() <= 0xffff && b.len() % 2 == 0 {
                tw.str_cb(tag, |buf| {
                    buf[..b.len()].copy_from_slice(b);
                    Ok(b.len())
                })
            } else {
                tw.stri(tag, b.len(), b.iter().copied())
            }
        }
        (Val::Null, Via::Tlv) => tw.tlv(tag, &TLVValue::Null),
        (Val::Null, _) => tw.null(tag),
        (Val::Struct(k), via) | (Val::Array(k), via) | (Val::List(k), via) => {
            let (vt, vv) = match &n.val {
                Val::Struct(_) => (TLVValueType::Struct, TLVValue::Struct),
                Val::Array(_) => (TLVValueType::Array, TLVValue::Array),
                _ => (TLVValueType::List, TLVValue::List),
            };
            match via {
                Via::Tlv => tw.tlv(tag, &vv)?,
                Via::Alt => tw.start_container(tag, vt)?,
                Via::Typed => match vt {
                    TLVValueType::Struct => tw.start_struct(tag)?,
                    TLVValueType::Array => tw.start_array(tag)?,
                    _ => tw.start_list(tag)?,
                },
            }
            for c in k {
                write_node(tw, c, cb_ok)?;
            }
            if via == Via::Tlv {
                tw.tlv(&TLVTag::Anonymous, &TLVValue::EndCnt)
            } else {
                tw.end_container()
            }
        }
    }
}

pub fn write_real(root: &Node, cap: usize, sink: bool) -> Result<Vec<u8>, Error> {
    if sink {
        let mut s = VecSink(Vec::with_capacity(cap));
        write_node(&mut s, root, false)?;
        Ok(s.0)
    } else {
        let mut buf = vec![0u8; cap];
        let mut wb = WriteBuf::new(&mut buf);
        write_node(&mut wb, root, true)?;
        Ok(wb.as_slice().to_vec())
    }
}

// ---------------------------------------------------------------- comparison

pub struct Fail {
    pub check: &'static str,
    pub class: &'static str,
    pub detail: String,
}

fn fail<T>(check: &'static str, n: &Node, detail: String) -> Result<T, Fail> {
    Err(Fail { check, class: n.val.class(), detail })
}

struct Walk<'e> {
    bytes: &'e [u8],
    enc: &'e Enc,
    idx: usize,
    compared: u64,
    reenc_ok: u64,
    reenc_iter_ok: u64,
    /// failures of the two re-encoders are collected (all classes), not short-circuited
    soft: Vec<Fail>,
}

fn value_matches(n: &Node, v: &TLVValue<'_>) -> bool {
    match (&n.val, v) {
        (Val::S8(a), TLVValue::S8(b)) => a == b,
        (Val::S16(a), TLVValue::S16(b)) => a == b,
        (Val::S32(a), TLVValue::S32(b)) => a == b,
        (Val::S64(a), TLVValue::S64(b)) => a == b,
        (Val::U8(a), TLVValue::U8(b)) => a == b,
        (Val::U16(a), TLVValue::U16(b)) => a == b,
        (Val::U32(a), TLVValue::U32(b)) => a == b,
        (Val::U64(a), TLVValue::U64(b)) => a == b,
        (Val::Bool(false), TLVValue::False) => true,
        (Val::Bool(true), TLVValue::True) => true,
        (Val::F32(a), TLVValue::F32(b)) => *a == b.to_bits(),
        (Val::F64(a), TLVValue::F64(b)) => *a == b.to_bits(),
        (Val::Utf8(1, a), TLVValue::Utf8l(b)) => a == b,
        (Val::Utf8(2, a), TLVValue::Utf16l(b)) => a == b,
        (Val::Utf8(4, a), TLVValue::Utf32l(b)) => a == b,
        (Val::Utf8(8, a), TLVValue::Utf64l(b)) => a == b,
        (Val::Octets(1, a), TLVValue::Str8l(b)) => a.as_slice() == *b,
        (Val::Octets(2, a), TLVValue::Str16l(b)) => a.as_slice() == *b,
        (Val::Octets(4, a), TLVValue::Str32l(b)) => a.as_slice() == *b,
        (Val::Octets(8, a), TLVValue::Str64l(b)) => a.as_slice() == *b,
        (Val::Null, TLVValue::Null) => true,
        (Val::Struct(_), TLVValue::Struct) => true,
        (Val::Array(_), TLVValue::Array) => true,
        (Val::List(_), TLVValue::List) => true,
        _ => false,
    }
}

fn short(b: &[u8]) -> String {
    if b.len() <= 48 {
        hex(b)
    } else {
        format!("{}..({} bytes)", hex(&b[..48]), b.len())
    }
}

impl<'e> Walk<'e> {
    fn node(&mut self, e: &TLVElement<'e>, n: &Node) -> Result<(), Fail> {
        let (s0, s1, _) = self.enc.spans[self.idx];
        self.idx += 1;
        self.compared += 1;
        let span = &self.bytes[s0..s1];
        macro_rules! ck {
            ($check:literal, $got:expr, $want:expr) => {{
                let got = $got;
                match &got {
                    Ok(g) if *g == $want => {}
                    _ => {
                        return fail(
                            $check,
                            n,
                            format!(
                                "element {} (tree node {:?} {:?}): {} gave {:?}, written value was {:?}",
                                short(span),
                                n.tag,
                                n.val.class(),
                                $check,
                                got.as_ref().map_err(|er| er.code()),
                                $want
                            ),
                        )
                    }
                }
            }};
        }
        // position: the element must start exactly where it was written
        if e.raw_data().as_ptr() != span.as_ptr() {
            return fail(
                "element-position",
                n,
                format!(
                    "decoded element starts at offset {} but was written at offset {}",
                    e.raw_data().as_ptr() as isize - self.bytes.as_ptr() as isize,
                    s0
                ),
            );
        }
        ck!("tag", e.tag(), n.tag.to_real());
        match e.value() {
            Ok(v) if value_matches(n, &v) => {}
            other => {
                return fail(
                    "value",
                    n,
                    format!(
                        "element {}: value() gave {:?}, written {:?}",
                        short(span),
                        other.map_err(|er| er.code()),
                        n.val.class()
                    ),
                )
            }
        }
        match &n.val {
            Val::S8(v) => {
                ck!("i8", e.i8(), *v);
                ck!("i16", e.i16(), *v as i16);
                ck!("i32", e.i32(), *v as i32);
                ck!("i64", e.i64(), *v as i64);
            }
            Val::S16(v) => {
                ck!("i16", e.i16(), *v);
                ck!("i32", e.i32(), *v as i32);
                ck!("i64", e.i64(), *v as i64);
            }
            Val::S32(v) => {
                ck!("i32", e.i32(), *v);
                ck!("i64", e.i64(), *v as i64);
            }
            Val::S64(v) => ck!("i64", e.i64(), *v),
            Val::U8(v) => {
                ck!("u8", e.u8(), *v);
                ck!("u16", e.u16(), *v as u16);
                ck!("u32", e.u32(), *v as u32);
                ck!("u64", e.u64(), *v as u64);
            }
            Val::U16(v) => {
                ck!("u16", e.u16(), *v);
                ck!("u32", e.u32(), *v as u32);
                ck!("u64", e.u64(), *v as u64);
            }
            Val::U32(v) => {
                ck!("u32", e.u32(), *v);
                ck!("u64", e.u64(), *v as u64);
            }
            Val::U64(v) => ck!("u64", e.u64(), *v),
            Val::Bool(v) => ck!("bool", e.bool(), *v),
            Val::F32(v) => ck!("f32", e.f32().map(|f| f.to_bits()), *v),
            Val::F64(v) => ck!("f64", e.f64().map(|f| f.to_bits()), *v),
            Val::Utf8(_, s) => {
                ck!("utf8", e.utf8(), s.as_str());
                ck!("octets", e.octets(), s.as_bytes());
            }
            Val::Octets(_, b) => {
                ck!("str", e.str(), b.as_slice());
                ck!("octets", e.octets(), b.as_slice());
            }
            Val::Null => ck!("null", e.null(), ()),
            Val::Struct(_) | Val::Array(_) | Val::List(_) => {}
        }
        // extent
        match elem_bytes(e) {
            Ok(b) if b == span => {}
            Ok(b) => {
                return fail(
                    "element-extent",
                    n,
                    format!("element written as {} is reported as {}", short(span), short(b)),
                )
            }
            Err(er) => return fail("element-extent", n, format!("element {}: {er}", short(span))),
        }
        // re-encoding (both encoders of `ToTLV for TLVElement`)
        match reencode_to_tlv(e, span.len() + 16) {
            Ok(b) if b == span => self.reenc_ok += 1,
            Ok(b) => self.soft.push(Fail {
                check: "reencode/to_tlv",
                class: n.val.class(),
                detail: format!("element {} re-encoded with to_tlv() as {}", short(span), short(&b)),
            }),
            Err(er) => self.soft.push(Fail {
                check: "reencode/to_tlv",
                class: n.val.class(),
                detail: format!("element {}: re-encoding with to_tlv() failed: {er}", short(span)),
            }),
        }
        if span.len() <= 4096 {
            match guarded(|| reencode_tlv_iter(e, span.len() + 16)) {
                Ok(Ok(b)) if b == span => self.reenc_iter_ok += 1,
                Ok(Ok(b)) => self.soft.push(Fail {
                    check: "reencode/tlv_iter",
                    class: n.val.class(),
                    detail: format!("element {} re-encoded with tlv_iter() as {}", short(span), short(&b)),
                }),
                Ok(Err(er)) => self.soft.push(Fail {
                    check: "reencode/tlv_iter",
                    class: n.val.class(),
                    detail: format!("element {}: re-encoding with tlv_iter() failed: {er}", short(span)),
                }),
                Err(p) => self.soft.push(Fail {
                    check: "reencode/tlv_iter-panic",
                    class: n.val.class(),
                    detail: format!(
                        "element {}: re-encoding with tlv_iter() panicked: '{}' at {}",
                        short(span),
                        p.msg,
                        p.loc
                    ),
                }),
            }
        }
        // children
        if let Some(kids) = n.val.kids() {
            let seq = match &n.val {
                Val::Struct(_) => e.structure(),
                Val::Array(_) => e.array(),
                _ => e.list(),
            };
            let seq = match seq {
                Ok(s) => s,
                Err(er) => {
                    return fail("enter-container", n, format!("element {}: {:?}", short(span), er.code()))
                }
            };
            if e.container().is_err() || !matches!(e.is_container(), Ok(true)) {
                return fail("enter-container", n, format!("element {}: container()/is_container() refused", short(span)));
            }
            let mut it = seq.iter();
            let mut first_ctx: Vec<(u8, *const u8)> = Vec::new();
            for (i, k) in kids.iter().enumerate() {
                match it.next() {
                    Some(Ok(c)) => {
                        if let Tag::Ctx(t) = k.tag {
                            if !first_ctx.iter().any(|(x, _)| *x == t) {
                                first_ctx.push((t, c.raw_data().as_ptr()));
                            }
                        }
                        self.node(&c, k)?;
                    }
                    Some(Err(er)) => {
                        return fail(
                            "iterate",
                            n,
                            format!("container {}: child {} of {} gave error {:?}", short(span), i, kids.len(), er.code()),
                        )
                    }
                    None => {
                        return fail(
                            "iterate",
                            n,
                            format!("container {}: iteration ended after {} of {} children", short(span), i, kids.len()),
                        )
                    }
                }
            }
            match it.next() {
                None => {}
                Some(x) => {
                    return fail(
                        "iterate",
                        n,
                        format!(
                            "container {}: iteration yields an extra item after the {} written children: {:?}",
                            short(span),
                            kids.len(),
                            x.map(|c| short(c.raw_data())).map_err(|er| er.code())
                        ),
                    )
                }
            }
            for (t, ptr) in first_ctx {
                match seq.find_ctx(t) {
                    Ok(c) if c.raw_data().as_ptr() == ptr => {}
                    other => {
                        return fail(
                            "find_ctx",
                            n,
                            format!(
                                "container {}: find_ctx({t}) did not return the first child with that context tag: {:?}",
                                short(span),
                                other.map(|c| short(c.raw_data())).map_err(|er| er.code())
                            ),
                        )
                    }
                }
            }
        }
        Ok(())
    }
}

fn shape_hash(n: &Node, f: &mut Fnv) {
    f.add(&[n.tag.code(), n.val.type_code(), n.via as u8]);
    if let Some(k) = n.val.kids() {
        f.add(&[0xfe, k.len().min(255) as u8]);
        for c in k {
            shape_hash(c, f);
        }
        f.add(&[0xff]);
    } else if let Val::Utf8(_, s) = &n.val {
        f.add(&[(s.len().min(300) / 20) as u8]);
    } else if let Val::Octets(_, s) = &n.val {
        f.add(&[(s.len().min(300) / 20) as u8]);
    }
}

fn count_tree(st: &mut Stats, n: &Node, depth: usize, maxd: &mut usize) {
    *maxd = (*maxd).max(depth);
    st.count(n.tag.counter());
    match &n.val {
        Val::Utf8(w, _) | Val::Octets(w, _) => st.count(match w {
            1 => "rt:lenw1",
            2 => "rt:lenw2",
            4 => "rt:lenw4",
            _ => "rt:lenw8",
        }),
        Val::S8(v) if *v == i8::MIN || *v == i8::MAX => st.count("rt:int-extreme"),
        Val::S16(v) if *v == i16::MIN || *v == i16::MAX => st.count("rt:int-extreme"),
        Val::S32(v) if *v == i32::MIN || *v == i32::MAX => st.count("rt:int-extreme"),
        Val::S64(v) if *v == i64::MIN || *v == i64::MAX => st.count("rt:int-extreme"),
        Val::U8(v) if *v == u8::MAX => st.count("rt:int-extreme"),
        Val::U16(v) if *v == u16::MAX => st.count("rt:int-extreme"),
        Val::U32(v) if *v == u32::MAX => st.count("rt:int-extreme"),
        Val::U64(v) if *v == u64::MAX => st.count("rt:int-extreme"),
        Val::F32(v) if f32::from_bits(*v).is_nan() => st.count("rt:float-nan"),
        Val::F64(v) if f64::from_bits(*v).is_nan() => st.count("rt:float-nan"),
        _ => {}
    }
    if let Some(k) = n.val.kids() {
        for c in k {
            count_tree(st, c, depth + 1, maxd);
        }
    }
}

pub fn rt_tree_case(rep: &mut Report, st: &mut Stats, seed: u64, sample: bool) {
    let mut rng = Rng::new(seed);
    let root = gen_tree(&mut rng);
    let sink = rng.chance(1, 4);
    rep.evaluations += 1;
    st.count("rt:trees");
    let mut maxd = 0;
    count_tree(st, &root, 0, &mut maxd);
    if maxd >= 8 {
        st.count("rt:depth>=8");
    }
    if maxd >= 32 {
        st.count("rt:depth>=32");
    }
    if maxd >= 128 {
        st.count("rt:depth>=128");
    }
    let mut f = Fnv::new();
    shape_hash(&root, &mut f);
    rep.distinct.insert(f.0);

    let mut enc = Enc::default();
    encode_ref(&root, 0, &mut enc);
    let replay = json!({"check":"C16","kind":"tree","seed":seed});
    let cap = enc.bytes.len() + 64;
    let real = match guarded(|| write_real(&root, cap, sink)) {
        Err(p) => {
            rep.violation(
                "roundtrip/writer-panic",
                &format!("C16/roundtrip/writer-panic/{}/{}", p.kind(), root.val.class()),
                format!("writing tree (reference encoding {}) panicked: '{}' at {}", short(&enc.bytes), p.msg, p.loc),
                replay,
            );
            return;
        }
        Ok(Err(e)) => {
            // The statement speaks about trees that *were* written; a refusal is not judged.
            rep.note("writer-returned-error-for-valid-tree");
            rep.inconclusive(&format!("writer-error:{:?}", e.code()));
            return;
        }
        Ok(Ok(b)) => b,
    };
    if sample {
        rep.sample(json!({"kind":"tree","seed":seed,"encoded_hex": short(&real), "depth": maxd}));
    }
    if real != enc.bytes {
        // Not an oracle: the harness encoder is only used to locate elements.
        rep.note("writer-bytes-differ-from-harness-reference-encoding");
        rep.inconclusive("writer-vs-reference-mismatch");
        rep.sample(json!({"kind":"writer-vs-reference","seed":seed,"real":short(&real),"reference":short(&enc.bytes)}));
        return;
    }
    let mut w = Walk { bytes: &real, enc: &enc, idx: 0, compared: 0, reenc_ok: 0, reenc_iter_ok: 0, soft: Vec::new() };
    let res = guarded(|| w.node(&TLVElement::new(&real), &root));
    st.counters.entry("rt:elements-compared").and_modify(|c| *c += w.compared).or_insert(w.compared);
    st.counters.entry("rt:reencode-to_tlv-equal").and_modify(|c| *c += w.reenc_ok).or_insert(w.reenc_ok);
    st.counters.entry("rt:reencode-tlv_iter-equal").and_modify(|c| *c += w.reenc_iter_ok).or_insert(w.reenc_iter_ok);
    let mut ok = true;
    match res {
        Err(p) => {
            ok = false;
            rep.violation(
                "roundtrip/decode-panic",
                &format!("C16/roundtrip/decode-panic/{}/{}", p.kind(), p.file()),
                format!("decoding the valid encoding {} panicked: '{}' at {}", short(&real), p.msg, p.loc),
                replay.clone(),
            );
        }
        Ok(Err(fl)) => {
            ok = false;
            rep.violation(
                &format!("roundtrip/{}", fl.check),
                &format!("C16/roundtrip/{}/{}", fl.check, fl.class),
                format!("tree written with TLVWrite as {}: {}. The statement requires the written tree to decode back to an equal value.", short(&real), fl.detail),
                replay.clone(),
            );
        }
        Ok(Ok(())) => {}
    }
    // one violation per (check, class) and tree
    let mut seen: Vec<(&'static str, &'static str)> = Vec::new();
    for fl in w.soft.iter() {
        if seen.contains(&(fl.check, fl.class)) {
            continue;
        }
        seen.push((fl.check, fl.class));
        ok = false;
        rep.violation(
            &format!("roundtrip/{}", fl.check),
            &format!("C16/roundtrip/{}/{}", fl.check, fl.class),
            format!("tree written as {}: {}. The statement requires re-encoding a decoded element to reproduce its bytes.", short(&real), fl.detail),
            replay.clone(),
        );
    }
    if ok {
        st.count("rt:trees-ok");
    }
}

// ---------------------------------------------------------------- malformed inputs

fn boundary_values(len: u64) -> [(usize, Option<u64>); 10] {
    [
        (0, Some(0)),
        (1, Some(1)),
        (2, len.checked_sub(1)),
        (3, Some(len + 1)),
        (4, Some(0xff)),
        (5, Some(0xffff)),
        (6, Some(1 << 31)),
        (7, Some(0xffff_ffff)),
        (8, Some(1 << 63)),
        (9, Some(u64::MAX)),
    ]
}

fn sub_counter(i: usize) -> &'static str {
    const N: [&str; 10] = [
        "sub:0", "sub:1", "sub:len-1", "sub:len+1", "sub:2^8-1", "sub:2^16-1", "sub:2^31", "sub:2^32-1", "sub:2^63",
        "sub:2^64-1",
    ];
    let _ = BOUNDARIES;
    N[i]
}

fn encode_small(rng: &mut Rng, want_string: bool) -> Enc {
    let t = gen_small_tree(rng, want_string);
    let mut enc = Enc::default();
    encode_ref(&t, 0, &mut enc);
    enc
}

fn random_blob(rng: &mut Rng) -> Vec<u8> {
    match rng.below(4) {
        0 => {
            let n = rng.usize(65);
            rng.bytes(n)
        }
        1 => {
            let c = rng.below(256) as u8;
            ctl_sample(rng, c)
        }
        2 => {
            // a string element with a hand-written hostile length
            let utf8 = rng.bool();
            let w = *rng.pick(&[1usize, 2, 4, 8]);
            let ty = if utf8 { 12 } else { 16 } + [1, 2, 4, 8].iter().position(|x| *x == w).unwrap() as u8;
            let mut v = vec![ty | ((rng.below(2) as u8) << 5)];
            if v[0] >> 5 == 1 {
                v.push(rng.below(4) as u8);
            }
            let b = *rng.pick(&[0u64, 1, 2, 0xff, 0xffff, 1 << 31, 0xffff_ffff, 1 << 63, u64::MAX, u64::MAX - 8, u64::MAX - 9, u64::MAX - 10]);
            v.extend_from_slice(&b.to_le_bytes()[..w]);
            let n = rng.usize(6);
            v.extend(rng.bytes(n));
            v
        }
        _ => encode_small(rng, false).bytes,
    }
}

/// control byte followed by sampled bytes
fn ctl_sample(rng: &mut Rng, ctl: u8) -> Vec<u8> {
    let n = match rng.below(6) {
        0 => 0,
        1 => rng.usize(4),
        2 => 9,
        _ => rng.usize(24),
    };
    let mut v = vec![ctl];
    for _ in 0..n {
        v.push(match rng.below(8) {
            0 => 0,
            1 => 0xff,
            2 => 0x18,
            3 => rng.below(4) as u8,
            4 => *rng.pick(&[0x15u8, 0x16, 0x17, 0x35, 0x36, 0x37, 0x30, 0x2c, 0x13, 0x0f, 0x24]),
            _ => rng.below(256) as u8,
        });
    }
    v
}

fn wrap_nested(rng: &mut Rng, blob: &[u8]) -> Vec<u8> {
    let dmax = if rng.chance(1, 8) { 24 } else { 4 };
    let d = 1 + rng.usize(dmax);
    let mut v = Vec::new();
    for _ in 0..d {
        let ty = 21 + rng.below(3) as u8;
        match rng.below(3) {
            0 => v.push(ty),
            1 => {
                v.push(0x20 | ty);
                v.push(rng.below(4) as u8);
            }
            _ => {
                v.push(0x40 | ty);
                v.extend_from_slice(&(rng.u32() as u16).to_le_bytes());
            }
        }
        if rng.chance(1, 3) {
            // a valid sibling before
            v.extend_from_slice(&[0x24, rng.below(4) as u8, rng.below(256) as u8]);
        }
    }
    v.extend_from_slice(blob);
    if rng.chance(1, 2) {
        v.extend_from_slice(&[0x24, rng.below(4) as u8, 7]);
    }
    let closes = match rng.below(4) {
        0 => 0,
        1 => rng.usize(d + 1),
        2 => d + 1,
        _ => d,
    };
    for _ in 0..closes {
        v.push(0x18);
    }
    v
}

fn mutate(rng: &mut Rng, mut v: Vec<u8>) -> Vec<u8> {
    let n = 1 + rng.usize(3);
    for _ in 0..n {
        if v.is_empty() {
            v.push(rng.below(256) as u8);
            continue;
        }
        let i = rng.usize(v.len());
        match rng.below(6) {
            0 => v[i] ^= 1 << rng.below(8),
            1 => v[i] = rng.below(256) as u8,
            2 => v[i] = *rng.pick(&[0u8, 0xff, 0x18, 0x15, 0x30, 0x13]),
            3 => {
                v.remove(i);
            }
            4 => v.insert(i, rng.below(256) as u8),
            _ => v.insert(i, *rng.pick(&[0x18u8, 0x15, 0x16, 0x17, 0xff])),
        }
    }
    v
}

/// Apply substitution `val` to length field `lf`; `widen` rewrites the element as the 8-byte form.
fn substitute(enc: &Enc, lf: &LenField, val: u64, widen: bool) -> Option<Vec<u8>> {
    let b = &enc.bytes;
    let mut v = Vec::with_capacity(b.len() + 8);
    if widen {
        v.extend_from_slice(&b[..lf.ctl]);
        v.push((b[lf.ctl] & 0xe0) | if lf.utf8 { 15 } else { 19 });
        v.extend_from_slice(&b[lf.ctl + 1..lf.pos]);
        v.extend_from_slice(&val.to_le_bytes());
        v.extend_from_slice(&b[lf.pos + lf.w..]);
    } else {
        if lf.w < 8 && val >= 1u64 << (8 * lf.w) {
            return None;
        }
        v.extend_from_slice(&b[..lf.pos]);
        v.extend_from_slice(&val.to_le_bytes()[..lf.w]);
        v.extend_from_slice(&b[lf.pos + lf.w..]);
    }
    Some(v)
}

/// One round of every malformed-input generator (about 150 inputs).
pub fn malformed_round(rep: &mut Report, st: &mut Stats, rng: &mut Rng, round: u64, ctx: &Ctx) {
    // 1. uniform random <= 64 B
    for _ in 0..24 {
        let n = rng.usize(65);
        let b = rng.bytes(n);
        st.count("in:random");
        probe_input(rep, st, &b, "random");
    }
    // 2. control bytes enumerated exhaustively, sampled tails. Each shard walks all 256 values.
    for k in 0..24u64 {
        let ctl = ((round * 24 + k + ctx.shard * 16) % 256) as u8;
        let b = ctl_sample(rng, ctl);
        st.count("in:ctl-enum");
        probe_input(rep, st, &b, "ctl-enum");
    }
    // 3. every truncation of a valid encoding
    {
        let enc = if rng.chance(1, 4) {
            Enc { bytes: c16_types::random_derived_encoding(rng), ..Default::default() }
        } else {
            encode_small(rng, false)
        };
        let n = enc.bytes.len();
        if n <= 64 {
            for cut in 0..n {
                st.count("in:truncation");
                probe_input(rep, st, &enc.bytes[..cut], "truncation");
            }
        } else {
            for _ in 0..32 {
                let cut = rng.usize(n);
                st.count("in:truncation");
                probe_input(rep, st, &enc.bytes[..cut], "truncation");
            }
        }
        if round % 16 == 0 {
            st.count("in:valid-encoding");
            probe_input(rep, st, &enc.bytes, "valid");
        }
    }
    // 4. each length field replaced by the boundary values (same width and hand-written 8-byte form)
    {
        let enc = encode_small(rng, true);
        let lens = enc.lens.clone();
        for lf in lens.iter().take(3) {
            for (bi, val) in boundary_values(lf.len) {
                let Some(val) = val else { continue };
                for widen in [false, true] {
                    if let Some(b) = substitute(&enc, lf, val, widen) {
                        st.count("in:len-substitution");
                        st.count(sub_counter(bi));
                        if widen {
                            st.count("sub:widened-to-8-byte-length");
                        }
                        if enc.spans.len() > 1 && lf.ctl > 0 {
                            st.count("sub:inside-container");
                        }
                        probe_input(rep, st, &b, "len-substitution");
                    }
                }
            }
        }
    }
    // 5. hostile elements inside (possibly unterminated) containers
    for _ in 0..12 {
        let blob = if rng.chance(1, 3) {
            let enc = encode_small(rng, true);
            let lf = rng.pick(&enc.lens).clone();
            let (_, val) = *rng.pick(&boundary_values(lf.len));
            substitute(&enc, &lf, val.unwrap_or(0), rng.bool()).unwrap_or_else(|| enc.bytes.clone())
        } else {
            random_blob(rng)
        };
        let b = wrap_nested(rng, &blob);
        st.count("in:nested");
        probe_input(rep, st, &b, "nested");
    }
    // 6. valid encodings with a few byte edits
    for _ in 0..12 {
        let v = encode_small(rng, false).bytes;
        let b = mutate(rng, v);
        st.count("in:mutated");
        probe_input(rep, st, &b, "mutated");
    }
    // 7. encodings of the derived wire types with a few byte edits (so FromTLV gets far)
    for _ in 0..12 {
        let v = c16_types::random_derived_encoding(rng);
        let b = if rng.chance(1, 6) { v } else { mutate(rng, v) };
        st.count("in:derived-mutated");
        probe_input(rep, st, &b, "derived-mutated");
    }
}
