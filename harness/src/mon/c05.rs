//! C05 — access is granted exactly when the Matter access-control algorithm grants it.
//!
//! Real `Fabrics` / `Fabric` / `AclEntry` tables are built through the public API
//! (`Fabrics::add_with_post_init`, `Fabrics::remove`, `Fabric::acl_add`, `Groups::add`, and — for
//! shapes the setters cannot produce: `[]` lists, PASE-mode entries, entries whose
//! `fab_idx` field names another fabric — `Fabrics::load_persist` of a re-written fabric blob).
//! Every decision is taken exactly the way the IM takes it
//! (`Accessor::is_endpoint_accessible` && `AccessReq::new` + `set_target_perms` + `allow`)
//! and compared with `reference()` below, which is written from the property statement.

use std::collections::{BTreeMap, HashMap};
use std::num::NonZeroU8;
use std::panic::{catch_unwind, AssertUnwindSafe};

use serde_json::{json, Value};

use rs_matter::acl::{
    gen_noc_cat, AccessReq, Accessor, AccessorSubjects, AclEntry, AuthMode, Target,
};
use rs_matter::dm::devices::test::{TEST_DEV_ATT, TEST_DEV_COMM, TEST_DEV_DET};
use rs_matter::dm::{Access, DeviceType, Privilege};
use rs_matter::im::GenericPath;
use rs_matter::tlv::{TLVElement, TLVTag, TLVWrite, ToTLV};
use rs_matter::utils::storage::WriteBuf;
use rs_matter::Matter;

use crate::report::{Ctx, Report};
use crate::sim::kv::{KvMap, SimKv};
use crate::sim::rng::{Fnv, Rng};

// ---------------------------------------------------------------------------------------------
// Abstract model of a configuration and of a request
// ---------------------------------------------------------------------------------------------

pub const MODE_NONE: u8 = 0;
pub const MODE_PASE: u8 = 1;
pub const MODE_CASE: u8 = 2;
pub const MODE_GROUP: u8 = 3;

pub const P_VIEW: u8 = 0;
pub const P_PROXY: u8 = 1;
pub const P_OPERATE: u8 = 2;
pub const P_MANAGE: u8 = 3;
pub const P_ADMIN: u8 = 4;

pub const OP_READ: u8 = 0;
pub const OP_WRITE: u8 = 1;
pub const OP_INVOKE: u8 = 2;

// `Access` declaration bits (public constants of rs_matter::dm::Access)
const NEED_VIEW: u16 = 0x0001;
const NEED_OPERATE: u16 = 0x0002;
const NEED_MANAGE: u16 = 0x0004;
const NEED_ADMIN: u16 = 0x0008;
const A_READ: u16 = 0x0010;
const A_WRITE: u16 = 0x0020;
const A_FAB_SCOPED: u16 = 0x0040;
const ALL_ACCESS_BITS: u16 = 0x01FF;

const CAT_PREFIX: u64 = 0xFFFF_FFFD;

#[derive(Clone, Debug, PartialEq, Eq)]
pub struct MTarget {
    pub ep: Option<u16>,
    pub cl: Option<u32>,
    pub dt: Option<u32>,
}

/// Value of the entry's own `fab_idx` field relative to the fabric it is stored in.
#[derive(Clone, Copy, Debug, PartialEq, Eq)]
pub enum Label {
    Own,
    Absent,
    Other(u8),
}

#[derive(Clone, Debug, PartialEq, Eq)]
pub struct MEntry {
    pub privilege: u8,
    pub mode: u8,
    pub subjects: Option<Vec<u64>>,
    pub targets: Option<Vec<MTarget>>,
    pub label: Label,
}

#[derive(Clone, Debug, PartialEq, Eq)]
pub struct MGroup {
    pub id: u16,
    pub eps: Vec<u16>,
}

#[derive(Clone, Debug, PartialEq, Eq)]
pub struct MFabric {
    pub idx: u8,
    pub entries: Vec<MEntry>,
    pub groups: Vec<MGroup>,
}

#[derive(Clone, Debug, PartialEq, Eq)]
pub struct MTable {
    /// 0 = add a fabric, n > 0 = remove the fabric with index n (creates gaps).
    pub ops: Vec<u8>,
    pub fabrics: Vec<MFabric>,
    /// ACL entries written through the persisted-blob route instead of `acl_add`.
    pub persist: bool,
}

#[derive(Clone, Debug, PartialEq, Eq)]
pub struct MCase {
    pub mode: u8,
    pub fab: u8,
    /// Node id (CASE), group id (Group).
    pub node: u64,
    pub cats: Vec<(u16, u16)>,
    pub ep: u16,
    pub cl: u32,
    pub leaf: u32,
    /// Device types (type, revision) of the endpoint hosting the path.
    pub dts: Vec<(u16, u16)>,
    pub op: u8,
    /// The element's access declaration (`Access` bits).
    pub decl: u16,
    pub aux: bool,
}

// ---------------------------------------------------------------------------------------------
// Reference decision, written from the statement
// ---------------------------------------------------------------------------------------------

#[derive(Clone, Copy, Debug, PartialEq, Eq)]
pub enum Expect {
    Allow,
    Deny,
    /// The statement does not fix the outcome.
    Any,
}

#[derive(Clone, Debug)]
pub struct Verdict {
    pub expect: Expect,
    /// The rule that decided.
    pub rule: &'static str,
    /// (fabric position, entry position) of the entry that decided, if any.
    pub entry: Option<(usize, usize)>,
}

enum Tri {
    Yes,
    /// (sub-class of the mismatch, closeness: larger = nearer miss)
    No(&'static str, u8),
    Unclear(&'static str),
}

fn nonempty<T>(l: &Option<Vec<T>>) -> Option<&Vec<T>> {
    l.as_ref().filter(|v| !v.is_empty())
}

/// Subject rule: null/empty list = any subject; node id equality; tag with the same 16-bit
/// identifier and an accessor version >= the entry's version. Version 0 is not a valid tag
/// version: a match that depends on it is left open.
fn ref_subject(e: &MEntry, c: &MCase) -> Tri {
    let Some(list) = nonempty(&e.subjects) else {
        return Tri::Yes;
    };
    let mut unclear = false;
    let mut miss: (&'static str, u8) = ("node", 0);
    for &s in list {
        if s >> 32 == CAT_PREFIX {
            let (id, ver) = ((s >> 16) as u16, s as u16);
            if miss.1 < 1 {
                miss = ("cat-id", 1);
            }
            for &(aid, aver) in &c.cats {
                if aid == id {
                    if ver == 0 || aver == 0 {
                        unclear = true;
                    } else if aver >= ver {
                        return Tri::Yes;
                    } else {
                        miss = ("cat-version", 2);
                    }
                }
            }
        } else if s == c.node {
            return Tri::Yes;
        }
    }
    if unclear {
        Tri::Unclear("cat-version-zero")
    } else {
        Tri::No(miss.0, miss.1)
    }
}

/// Target rule: null/empty list = whole node; otherwise some target whose present components
/// all match (endpoint equal, cluster equal, device type among the endpoint's device types).
fn ref_target(e: &MEntry, c: &MCase) -> Tri {
    let Some(list) = nonempty(&e.targets) else {
        return Tri::Yes;
    };
    let mut best: (u8, &'static str) = (4, "endpoint");
    for t in list {
        let ep_ok = t.ep.map_or(true, |x| x == c.ep);
        let cl_ok = t.cl.map_or(true, |x| x == c.cl);
        let dt_ok = t.dt.map_or(true, |x| c.dts.iter().any(|d| d.0 as u32 == x));
        if ep_ok && cl_ok && dt_ok {
            return Tri::Yes;
        }
        let n = (!ep_ok) as u8 + (!cl_ok) as u8 + (!dt_ok) as u8;
        if n < best.0 {
            best = (
                n,
                if !ep_ok {
                    "endpoint"
                } else if !cl_ok {
                    "cluster"
                } else {
                    "devtype"
                },
            );
        }
    }
    Tri::No(best.1, 4 - best.0)
}

/// Privilege level (View 1 < Operate 2 < Manage 3 < Administer 4) the declaration requires for
/// the operation: the lowest level it lists for that operation (reads look at V/O/M/A, writes
/// and invokes at O/M/A — the V of e.g. `RWVA` belongs to the read side). `None`: nothing listed.
pub fn required_level(decl: u16, op: u8) -> Option<u8> {
    let all = [(NEED_VIEW, 1u8), (NEED_OPERATE, 2), (NEED_MANAGE, 3), (NEED_ADMIN, 4)];
    let from = if op == OP_READ { 0 } else { 1 };
    all[from..].iter().find(|(b, _)| decl & b != 0).map(|x| x.1)
}

/// Administer ⊇ Manage ⊇ Operate ⊇ View; ProxyView ⊇ View.
pub fn privilege_includes(p: u8, level: u8) -> bool {
    let top = match p {
        P_VIEW | P_PROXY => 1,
        P_OPERATE => 2,
        P_MANAGE => 3,
        _ => 4,
    };
    level <= top
}

pub fn op_declared(decl: u16, op: u8) -> bool {
    decl & (if op == OP_READ { A_READ } else { A_WRITE }) != 0
}

const R_AUTHMODE: u8 = 1;
const R_SUBJECT: u8 = 2;
const R_TARGET: u8 = 3;
const R_PRIV: u8 = 4;
const R_LABEL: u8 = 5;

enum EntryRes {
    Pass { proxy: bool },
    Unclear(&'static str),
    /// (stage, closeness, rule)
    Fail(u8, u8, &'static str),
}

fn ref_entry(e: &MEntry, c: &MCase, need: Option<u8>) -> EntryRes {
    if e.mode != c.mode {
        return EntryRes::Fail(R_AUTHMODE, 0, "authmode-mismatch");
    }
    let mut unclear: Option<&'static str> = None;
    match ref_subject(e, c) {
        Tri::Yes => {}
        Tri::No(sub, close) => {
            return EntryRes::Fail(
                R_SUBJECT,
                close,
                match sub {
                    "cat-version" => "subject-mismatch/cat-version",
                    "cat-id" => "subject-mismatch/cat-id",
                    _ => "subject-mismatch/node",
                },
            )
        }
        Tri::Unclear(why) => unclear = Some(why),
    }
    match ref_target(e, c) {
        Tri::Yes => {}
        Tri::No(sub, close) => {
            return EntryRes::Fail(
                R_TARGET,
                close,
                match sub {
                    "endpoint" => "target-mismatch/endpoint",
                    "cluster" => "target-mismatch/cluster",
                    _ => "target-mismatch/devtype",
                },
            )
        }
        Tri::Unclear(why) => unclear = Some(why),
    }
    match need {
        None => unclear = unclear.or(Some("privilege-undeclared")),
        Some(level) => {
            if !privilege_includes(e.privilege, level) {
                return EntryRes::Fail(R_PRIV, 0, "privilege-insufficient");
            }
        }
    }
    match e.label {
        Label::Own => {}
        // An entry stored with fabric A but carrying the index of fabric B is not an entry of A.
        Label::Other(_) => return EntryRes::Fail(R_LABEL, 0, "foreign-labelled-entry"),
        Label::Absent => unclear = unclear.or(Some("unlabelled-entry")),
    }
    match unclear {
        Some(why) => EntryRes::Unclear(why),
        None => EntryRes::Pass {
            proxy: e.privilege == P_PROXY,
        },
    }
}

pub fn reference(t: &MTable, c: &MCase) -> Verdict {
    let v = |expect, rule, entry| Verdict {
        expect,
        rule,
        entry,
    };
    if c.mode == MODE_PASE {
        return v(Expect::Allow, "pase-bypass", None);
    }
    if c.mode == MODE_NONE {
        return v(Expect::Deny, "unauthenticated", None);
    }
    if c.fab == 0 {
        return v(Expect::Deny, "no-fabric/index-zero", None);
    }
    let Some((fi, f)) = t.fabrics.iter().enumerate().find(|(_, f)| f.idx == c.fab) else {
        return v(Expect::Deny, "no-fabric/nonexistent", None);
    };
    let need = required_level(c.decl, c.op);

    let mut pass: Option<(usize, bool)> = None; // (entry, only thanks to ProxyView ⊇ View)
    let mut unclear: Option<(usize, usize, &'static str)> = None;
    let mut fail: Option<(u8, u8, &'static str, usize)> = None;
    for (ei, e) in f.entries.iter().enumerate() {
        match ref_entry(e, c, need) {
            EntryRes::Pass { proxy } => {
                if pass.map_or(true, |(_, p)| p && !proxy) {
                    pass = Some((ei, proxy));
                }
            }
            EntryRes::Unclear(why) => unclear = unclear.or(Some((fi, ei, why))),
            EntryRes::Fail(stage, close, rule) => {
                if fail.map_or(true, |(s, cl, _, _)| (stage, close) > (s, cl)) {
                    fail = Some((stage, close, rule, ei));
                }
            }
        }
    }
    // Entries stored with another fabric but labelled with the accessor's fabric index:
    // whose entries they are is not settled by the statement.
    for (ofi, of) in t.fabrics.iter().enumerate() {
        if of.idx == c.fab {
            continue;
        }
        for (ei, e) in of.entries.iter().enumerate() {
            if e.label == Label::Other(c.fab) {
                let mut own = e.clone();
                own.label = Label::Own;
                if !matches!(ref_entry(&own, c, need), EntryRes::Fail(..)) {
                    unclear = unclear.or(Some((ofi, ei, "entry-resident-elsewhere")));
                }
            }
        }
    }

    if pass.is_none() && unclear.is_none() {
        return match fail {
            None => v(Expect::Deny, "no-entry-of-fabric", None),
            Some((_, _, rule, ei)) => v(Expect::Deny, rule, Some((fi, ei))),
        };
    }
    let entry = pass
        .map(|(ei, _)| (fi, ei))
        .or(unclear.map(|(a, b, _)| (a, b)));
    if !op_declared(c.decl, c.op) {
        return v(Expect::Deny, "operation-not-declared", entry);
    }
    if c.mode == MODE_GROUP
        && !f
            .groups
            .iter()
            .any(|g| g.id as u64 == c.node && g.eps.contains(&c.ep))
    {
        return v(Expect::Deny, "group-endpoint-not-member", entry);
    }
    match (pass, unclear) {
        (Some((_, false)), _) => v(Expect::Allow, "granted-by-entry", entry),
        // Granted only if ProxyView is taken to include View. rs-matter deliberately stores
        // ProxyView as a non-hierarchical flag that grants nothing (documented in
        // dm/types/privilege.rs); the statement does not settle it, the deviation is in the
        // denying direction: observed and counted, not judged.
        (Some((_, true)), _) => v(
            Expect::Any,
            "granted-by-entry/proxyview-includes-view",
            entry,
        ),
        (None, Some((_, _, why))) => v(Expect::Any, why, entry),
        (None, None) => unreachable!(),
    }
}

// ---------------------------------------------------------------------------------------------
// Building the real configuration
// ---------------------------------------------------------------------------------------------

fn real_priv(p: u8) -> Privilege {
    match p {
        P_VIEW => Privilege::VIEW,
        P_PROXY => Privilege::PROXYVIEW,
        P_OPERATE => Privilege::OPERATE,
        P_MANAGE => Privilege::MANAGE,
        _ => Privilege::ADMIN,
    }
}

fn real_mode(m: u8) -> Option<AuthMode> {
    match m {
        MODE_PASE => Some(AuthMode::Pase),
        MODE_CASE => Some(AuthMode::Case),
        MODE_GROUP => Some(AuthMode::Group),
        _ => None,
    }
}

fn nz(i: u8) -> NonZeroU8 {
    NonZeroU8::new(i).expect("non-zero fabric index")
}

fn err<E: core::fmt::Debug>(what: &str) -> impl Fn(E) -> String + '_ {
    move |e| format!("{what}: {e:?}")
}

/// Execute the fabric add/remove operations (on an emptied table if `reset`); returns the
/// live fabric indices.
fn apply_ops(matter: &Matter<'_>, ops: &[u8], reset: bool) -> Result<Vec<u8>, String> {
    matter.with_state(|s| {
        if reset {
            s.fabrics.reset();
        }
        for &op in ops {
            if op == 0 {
                s.fabrics
                    .add_with_post_init(|_| Ok(()))
                    .map_err(err("add fabric"))?;
            } else {
                s.fabrics.remove(nz(op)).map_err(err("remove fabric"))?;
            }
        }
        Ok(s.fabrics.iter().map(|f| f.fab_idx().get()).collect())
    })
}

fn api_entry(e: &MEntry) -> Result<AclEntry, String> {
    let mode = real_mode(e.mode).ok_or("entry without auth mode")?;
    let mut r = AclEntry::new(None, real_priv(e.privilege), mode);
    if let Some(l) = &e.subjects {
        if l.is_empty() {
            return Err("[] subjects need the persist route".into());
        }
        for s in l {
            r.add_subject(*s).map_err(err("add_subject"))?;
        }
    }
    if let Some(l) = &e.targets {
        if l.is_empty() {
            return Err("[] targets need the persist route".into());
        }
        for t in l {
            r.add_target(Target::new(t.ep, t.cl, t.dt))
                .map_err(err("add_target"))?;
        }
    }
    Ok(r)
}

const FABRIC_ACL_TAG: u8 = 12;

fn encode_entry(wb: &mut WriteBuf<'_>, e: &MEntry, resident: u8) -> Result<(), rs_matter::error::Error> {
    let ctx = TLVTag::Context;
    wb.start_struct(&TLVTag::Anonymous)?;
    real_priv(e.privilege).to_tlv(&ctx(1), &mut *wb)?;
    real_mode(e.mode)
        .unwrap_or(AuthMode::Case)
        .to_tlv(&ctx(2), &mut *wb)?;
    match &e.subjects {
        None => wb.null(&ctx(3))?,
        Some(l) => {
            wb.start_array(&ctx(3))?;
            for s in l {
                wb.u64(&TLVTag::Anonymous, *s)?;
            }
            wb.end_container()?;
        }
    }
    match &e.targets {
        None => wb.null(&ctx(4))?,
        Some(l) => {
            wb.start_array(&ctx(4))?;
            for t in l {
                wb.start_struct(&TLVTag::Anonymous)?;
                if let Some(c) = t.cl {
                    wb.u32(&ctx(0), c)?;
                }
                if let Some(ep) = t.ep {
                    wb.u16(&ctx(1), ep)?;
                }
                if let Some(dt) = t.dt {
                    wb.u32(&ctx(2), dt)?;
                }
                wb.end_container()?;
            }
            wb.end_container()?;
        }
    }
    match e.label {
        Label::Own => wb.u8(&ctx(254), resident)?,
        Label::Other(x) => wb.u8(&ctx(254), x)?,
        Label::Absent => {}
    }
    wb.end_container()
}

/// Copy a persisted fabric blob, replacing its ACL array by the model's entries.
fn rewrite_blob(orig: &[u8], f: &MFabric) -> Result<Vec<u8>, rs_matter::error::Error> {
    let mut out = vec![0u8; 16 * 1024];
    let len = {
        let mut wb = WriteBuf::new(&mut out);
        wb.start_struct(&TLVTag::Anonymous)?;
        for item in TLVElement::new(orig).structure()?.iter() {
            let item = item?;
            if item.try_ctx()? == Some(FABRIC_ACL_TAG) {
                wb.start_array(&TLVTag::Context(FABRIC_ACL_TAG))?;
                for e in &f.entries {
                    encode_entry(&mut wb, e, f.idx)?;
                }
                wb.end_container()?;
            } else {
                item.to_tlv(&item.tag()?, &mut wb)?;
            }
        }
        wb.end_container()?;
        wb.get_tail()
    };
    out.truncate(len);
    Ok(out)
}

/// Build the real table for `t`. `t.fabrics[i].idx` must be what the operations produce.
pub fn build(matter: &Matter<'_>, t: &MTable) -> Result<(), String> {
    let live = apply_ops(matter, &t.ops, true)?;
    let want: Vec<u8> = t.fabrics.iter().map(|f| f.idx).collect();
    if live != want {
        return Err(format!("fabric indices {live:?} != model {want:?}"));
    }
    matter.with_state(|s| -> Result<(), String> {
        for f in &t.fabrics {
            let fabric = s.fabrics.fabric_mut(nz(f.idx)).map_err(err("fabric_mut"))?;
            for g in &f.groups {
                for ep in &g.eps {
                    fabric
                        .groups_mut()
                        .add(*ep, g.id, "g")
                        .map_err(err("groups.add"))?;
                }
            }
            if !t.persist {
                for e in &f.entries {
                    if e.label != Label::Own {
                        return Err("foreign label needs the persist route".into());
                    }
                    fabric.acl_add(api_entry(e)?).map_err(err("acl_add"))?;
                }
            }
        }
        if t.persist {
            let mut map = KvMap::new();
            let mut buf = vec![0u8; 16 * 1024];
            for f in &t.fabrics {
                let fabric = s.fabrics.fabric(nz(f.idx)).map_err(err("fabric"))?;
                let len = {
                    let mut wb = WriteBuf::new(&mut buf);
                    fabric
                        .to_tlv(&TLVTag::Anonymous, &mut wb)
                        .map_err(err("fabric.to_tlv"))?;
                    wb.get_tail()
                };
                let blob = rewrite_blob(&buf[..len], f).map_err(err("rewrite_blob"))?;
                map.insert(rs_matter::persist::FABRIC_KEYS_START + f.idx as u16, blob);
            }
            let mut kv = SimKv::from_map(map, false);
            s.fabrics
                .load_persist(&mut kv, &mut buf)
                .map_err(err("load_persist"))?;
        }
        Ok(())
    })?;
    verify(matter, t)
}

/// Read the real table back and compare it with the model (guards the harness itself).
fn verify(matter: &Matter<'_>, t: &MTable) -> Result<(), String> {
    matter.with_state(|s| {
        let live: Vec<u8> = s.fabrics.iter().map(|f| f.fab_idx().get()).collect();
        let mut want: Vec<u8> = t.fabrics.iter().map(|f| f.idx).collect();
        let mut got = live.clone();
        got.sort();
        want.sort();
        if got != want {
            return Err(format!("read-back: fabrics {got:?} != {want:?}"));
        }
        let mut buf = [0u8; 512];
        for f in &t.fabrics {
            let fabric = s.fabrics.fabric(nz(f.idx)).map_err(err("fabric"))?;
            let real: Vec<&AclEntry> = fabric.acl_iter().collect();
            if real.len() != f.entries.len() {
                return Err(format!(
                    "read-back: fabric {} has {} entries, model {}",
                    f.idx,
                    real.len(),
                    f.entries.len()
                ));
            }
            for (r, e) in real.iter().zip(&f.entries) {
                let subj: Option<Vec<u64>> = r.subjects().into_option().map(|l| l.to_vec());
                let targ: Option<Vec<MTarget>> = r.targets().into_option().map(|l| {
                    l.iter()
                        .map(|t| MTarget {
                            ep: t.endpoint,
                            cl: t.cluster,
                            dt: t.device_type,
                        })
                        .collect()
                });
                let label = match r.fab_idx.map(|x| x.get()) {
                    None => Label::Absent,
                    Some(x) if x == f.idx => Label::Own,
                    Some(x) => Label::Other(x),
                };
                let privilege = {
                    let mut wb = WriteBuf::new(&mut buf);
                    r.to_tlv(&TLVTag::Anonymous, &mut wb)
                        .map_err(err("entry.to_tlv"))?;
                    let len = wb.get_tail();
                    TLVElement::new(&buf[..len])
                        .structure()
                        .and_then(|s| s.find_ctx(1))
                        .and_then(|e| e.u8())
                        .map_err(err("entry privilege"))?
                };
                // Matter enum values: View 1, ProxyView 2, Operate 3, Manage 4, Administer 5
                let back = MEntry {
                    privilege: privilege.wrapping_sub(1),
                    mode: match r.auth_mode() {
                        AuthMode::Pase => MODE_PASE,
                        AuthMode::Case => MODE_CASE,
                        AuthMode::Group => MODE_GROUP,
                    },
                    subjects: subj,
                    targets: targ,
                    label,
                };
                if &back != e || r.auxiliary_type().is_some() {
                    return Err(format!("read-back: entry {back:?} != model {e:?}"));
                }
            }
            let mut rg: Vec<(u16, Vec<u16>)> = fabric
                .groups()
                .iter()
                .map(|g| (g.group_id, g.endpoints.iter().copied().collect()))
                .collect();
            let mut mg: Vec<(u16, Vec<u16>)> =
                f.groups.iter().map(|g| (g.id, g.eps.clone())).collect();
            rg.sort();
            mg.sort();
            if rg != mg || fabric.groups().iter().any(|g| g.has_aux_acl()) {
                return Err(format!("read-back: groups {rg:?} != model {mg:?}"));
            }
        }
        Ok(())
    })
}

/// The real decision, driven the way `im/expand.rs` + `Cluster::check_*_access` drive it.
pub fn real_decision(matter: &Matter<'_>, c: &MCase) -> bool {
    let mut subjects = AccessorSubjects::new(c.node);
    for (id, ver) in &c.cats {
        let _ = subjects.add_catid(gen_noc_cat(*id, *ver));
    }
    let accessor = Accessor::new(c.fab, c.aux, subjects, real_mode(c.mode), matter);
    if !accessor.is_endpoint_accessible(c.ep) {
        return false;
    }
    let dts: Vec<DeviceType> = c
        .dts
        .iter()
        .map(|d| DeviceType {
            dtype: d.0,
            drev: d.1,
        })
        .collect();
    let op = if c.op == OP_READ {
        Access::READ
    } else {
        Access::WRITE
    };
    let path = GenericPath::new(Some(c.ep), Some(c.cl), Some(c.leaf));
    let mut req = AccessReq::new(&accessor, path, op, &dts);
    req.set_target_perms(Access::from_bits_truncate(c.decl));
    req.allow()
}

// ---------------------------------------------------------------------------------------------
// Workload generation
// ---------------------------------------------------------------------------------------------

const NODES: [u64; 6] = [0x1111, 0x2222, 0x3333, 112233, 1, 0xFFFF_FFEF_FFFF_FFFF];
const CAT_IDS: [u16; 4] = [0xABCD, 0xCAFE, 0x0001, 0xFFFF];
const GROUPS: [u16; 4] = [1, 2, 0x12AB, 0xFFFF];
const ENDPOINTS: [u16; 5] = [0, 1, 2, 3, 0xFFFE];
const CLUSTERS: [u32; 5] = [0x0006, 0x0008, 0x001F, 0x0028, 0xFFF1_FC01];
const DEVTYPES: [u32; 6] = [0x0016, 0x0100, 0x0101, 0x010A, 0x0001_0100, 0xFFFF];
const NAMED_DECLS: [u16; 12] = [
    0x0011, // RV
    0x0050, // RF
    0x0018, // RA
    0x0039, // RWVA
    0x0078, // RWFA
    0x0035, // RWVM
    0x0075, // RWFVM
    0x002E, // WO
    0x002C, // WM
    0x0028, // WA
    0x0139, // RWVA | TIMED_ONLY
    0x0033, // R W, View / Operate
];

fn weighted(rng: &mut Rng, w: &[u32]) -> usize {
    let total: u32 = w.iter().sum();
    let mut x = rng.below(total as u64) as u32;
    for (i, v) in w.iter().enumerate() {
        if x < *v {
            return i;
        }
        x -= *v;
    }
    w.len() - 1
}

fn gen_cat_version(rng: &mut Rng) -> u16 {
    match rng.below(50) {
        0 => 0,
        1 => 0xFFFF,
        _ => 1 + rng.below(4) as u16,
    }
}

fn gen_subject(rng: &mut Rng, mode: u8, groups: &[MGroup]) -> u64 {
    if mode == MODE_GROUP {
        if !groups.is_empty() && rng.chance(3, 4) {
            rng.pick(groups).id as u64
        } else {
            *rng.pick(&GROUPS) as u64
        }
    } else if rng.chance(2, 5) {
        (CAT_PREFIX << 32) | gen_noc_cat(*rng.pick(&CAT_IDS), gen_cat_version(rng)) as u64
    } else {
        *rng.pick(&NODES)
    }
}

fn gen_target(rng: &mut Rng) -> MTarget {
    let k = weighted(rng, &[25, 25, 12, 20, 8, 4, 3, 3]);
    let ep = Some(*rng.pick(&ENDPOINTS[..4]));
    let cl = Some(*rng.pick(&CLUSTERS));
    let dt = Some(*rng.pick(&DEVTYPES));
    match k {
        0 => MTarget { ep, cl: None, dt: None },
        1 => MTarget { ep: None, cl, dt: None },
        2 => MTarget { ep: None, cl: None, dt },
        3 => MTarget { ep, cl, dt: None },
        4 => MTarget { ep: None, cl, dt },
        5 => MTarget { ep, cl: None, dt },
        6 => MTarget { ep, cl, dt },
        _ => MTarget { ep: None, cl: None, dt: None },
    }
}

fn gen_entry(rng: &mut Rng, persist: bool, groups: &[MGroup], others: &[u8]) -> MEntry {
    let privilege = weighted(rng, &[24, 14, 24, 19, 19]) as u8;
    let mode = if persist {
        [MODE_CASE, MODE_GROUP, MODE_PASE][weighted(rng, &[60, 32, 8])]
    } else {
        [MODE_CASE, MODE_GROUP][weighted(rng, &[64, 36])]
    };
    let ns = weighted(rng, &[25, 8, 35, 17, 8, 7]);
    let subjects = match ns {
        0 => None,
        1 if persist => Some(vec![]),
        1 => None,
        n => Some((0..n - 1).map(|_| gen_subject(rng, mode, groups)).collect()),
    };
    let nt = weighted(rng, &[30, 8, 37, 15, 10]);
    let targets = match nt {
        0 => None,
        1 if persist => Some(vec![]),
        1 => None,
        n => Some((0..n - 1).map(|_| gen_target(rng)).collect()),
    };
    let label = if persist {
        match rng.below(100) {
            0..=9 => {
                if !others.is_empty() && rng.chance(4, 5) {
                    Label::Other(*rng.pick(others))
                } else {
                    Label::Other(200 + rng.below(55) as u8)
                }
            }
            10..=14 => Label::Absent,
            _ => Label::Own,
        }
    } else {
        Label::Own
    };
    MEntry {
        privilege,
        mode,
        subjects,
        targets,
        label,
    }
}

/// Choose and execute fabric add/remove operations on the real table (indices are whatever
/// the real `Fabrics` assigns), then populate the model.
fn gen_table(rng: &mut Rng, matter: &Matter<'_>) -> Result<MTable, String> {
    let mut ops: Vec<u8> = vec![];
    let mut live: Vec<u8>;
    let rounds = match rng.below(150) {
        0 => 320 + rng.usize(200), // climb to the top of the index space and wrap
        1..=8 => 4 + rng.usize(8),
        9..=14 => 0,
        _ => 1 + rng.usize(2),
    };
    let first = if rounds == 0 {
        rng.usize(2) // 0 or 1 fabric, no churn
    } else {
        1 + weighted(rng, &[18, 27, 25, 15, 15])
    };
    for _ in 0..first {
        ops.push(0);
    }
    live = apply_ops(matter, &ops, true)?;
    for _ in 0..rounds {
        let from = ops.len();
        if !live.is_empty() && rng.chance(3, 4) {
            let n = 1 + rng.usize(live.len().min(2));
            for _ in 0..n {
                if live.len() > 1 || (rounds < 100 && rng.chance(1, 10)) {
                    // mostly the oldest fabric goes, so indices keep climbing
                    let victim = if rng.chance(2, 3) {
                        *live.iter().min().unwrap()
                    } else {
                        *rng.pick(&live)
                    };
                    ops.push(victim);
                    live.retain(|x| *x != victim);
                }
            }
        }
        let room = 5 - live.len();
        let adds = rng.usize(room.min(2) + 1);
        for _ in 0..adds {
            ops.push(0);
        }
        live = apply_ops(matter, &ops[from..], false)?;
    }

    let persist = rng.chance(1, 4);
    let mut fabrics = vec![];
    for &idx in &live {
        let ng = weighted(rng, &[30, 35, 25, 10]);
        let mut groups: Vec<MGroup> = vec![];
        for _ in 0..ng {
            let id = *rng.pick(&GROUPS);
            if groups.iter().any(|g| g.id == id) {
                continue;
            }
            let mut eps: Vec<u16> = vec![];
            for _ in 0..1 + rng.usize(3) {
                let ep = *rng.pick(&ENDPOINTS[..4]);
                if !eps.contains(&ep) {
                    eps.push(ep);
                }
            }
            groups.push(MGroup { id, eps });
        }
        let others: Vec<u8> = live.iter().copied().filter(|x| *x != idx).collect();
        let ne = weighted(rng, &[14, 30, 26, 15, 15]);
        let entries = (0..ne)
            .map(|_| gen_entry(rng, persist, &groups, &others))
            .collect();
        fabrics.push(MFabric {
            idx,
            entries,
            groups,
        });
    }
    Ok(MTable {
        ops,
        fabrics,
        persist,
    })
}

fn gen_decl_random(rng: &mut Rng) -> u16 {
    match rng.below(10) {
        0..=3 => *rng.pick(&NAMED_DECLS),
        4 => 0,
        _ => rng.below(ALL_ACCESS_BITS as u64 + 1) as u16,
    }
}

fn level_bit(level: u8) -> u16 {
    match level {
        1 => NEED_VIEW,
        2 => NEED_OPERATE,
        3 => NEED_MANAGE,
        _ => NEED_ADMIN,
    }
}

/// A declaration whose requirement for `op` sits at / just above what `privilege` includes.
fn gen_decl_near(rng: &mut Rng, privilege: u8, op: u8) -> u16 {
    let top = match privilege {
        P_VIEW | P_PROXY => 1u8,
        P_OPERATE => 2,
        P_MANAGE => 3,
        _ => 4,
    };
    let floor = if op == OP_READ { 1 } else { 2 };
    let level = match rng.below(100) {
        0..=64 => floor.max(1 + rng.below(top as u64) as u8).min(4),
        65..=94 => (top + 1).max(floor).min(4),
        _ => floor + rng.below((5 - floor) as u64) as u8,
    };
    let mut d = level_bit(level);
    // Add higher levels too, the way WO / WM list every sufficient level
    if rng.chance(1, 3) {
        for l in level..=4 {
            d |= level_bit(l);
        }
    }
    if op == OP_READ {
        d |= A_READ;
        if rng.chance(1, 3) {
            d |= A_WRITE | NEED_ADMIN;
        }
    } else {
        d |= A_WRITE;
        if rng.chance(1, 3) && op == OP_WRITE {
            d |= A_READ; // read side of e.g. RWVM; V would lower nothing for a write
            if rng.chance(1, 2) {
                d |= NEED_VIEW;
            }
        }
    }
    if rng.chance(1, 6) {
        d |= [A_FAB_SCOPED, 0x0080, 0x0100][rng.usize(3)];
    }
    if rng.chance(1, 9) {
        d &= !(A_READ | A_WRITE); // operation not declared
    } else if rng.chance(1, 30) {
        d ^= A_READ | A_WRITE; // only the other operation declared
    }
    d
}

fn gen_dts(rng: &mut Rng) -> Vec<(u16, u16)> {
    let n = weighted(rng, &[20, 45, 25, 10]);
    (0..n)
        .map(|_| (*rng.pick(&DEVTYPES[..4]) as u16, 1 + rng.below(3) as u16))
        .collect()
}

fn nonexistent_idx(rng: &mut Rng, t: &MTable) -> u8 {
    let live: Vec<u8> = t.fabrics.iter().map(|f| f.idx).collect();
    let removed: Vec<u8> = t
        .ops
        .iter()
        .copied()
        .filter(|o| *o != 0 && !live.contains(o))
        .collect();
    let max = live.iter().copied().max().unwrap_or(0);
    for _ in 0..8 {
        let c = match rng.below(10) {
            0..=4 if !removed.is_empty() => *rng.pick(&removed),
            5..=6 => max.wrapping_add(1),
            7 => 255,
            8 => 254,
            _ => 1 + rng.below(255) as u8,
        };
        if c != 0 && !live.contains(&c) {
            return c;
        }
    }
    255
}

fn gen_case(rng: &mut Rng, t: &MTable) -> MCase {
    let live: Vec<u8> = t.fabrics.iter().map(|f| f.idx).collect();
    let r = rng.below(100);
    let fab = if r < 5 {
        0
    } else if r < 12 || live.is_empty() {
        nonexistent_idx(rng, t)
    } else {
        *rng.pick(&live)
    };

    let mode = [MODE_CASE, MODE_GROUP, MODE_PASE, MODE_NONE][weighted(rng, &[56, 30, 7, 7])];
    let op = rng.below(3) as u8;
    let mut c = MCase {
        mode,
        fab,
        node: if mode == MODE_GROUP {
            *rng.pick(&GROUPS) as u64
        } else {
            *rng.pick(&NODES)
        },
        cats: (0..weighted(rng, &[40, 30, 20, 10]))
            .map(|_| (*rng.pick(&CAT_IDS), gen_cat_version(rng)))
            .collect(),
        ep: *rng.pick(&ENDPOINTS),
        cl: *rng.pick(&CLUSTERS),
        leaf: rng.below(6) as u32,
        dts: gen_dts(rng),
        op,
        decl: gen_decl_random(rng),
        aux: rng.chance(1, 25),
    };
    if mode == MODE_PASE || mode == MODE_NONE {
        // what `Accessor::for_session` produces for these sessions (PASE may already carry the
        // index of the fabric it has just added)
        c.node = 1;
        c.cats.clear();
        if rng.chance(if mode == MODE_NONE { 3 } else { 1 }, if mode == MODE_NONE { 5 } else { 2 }) {
            c.fab = 0;
        }
        return c;
    }

    // Focus: make the request a (near) match of one concrete entry.
    let own = t.fabrics.iter().find(|f| f.idx == fab);
    let r2 = rng.below(100);
    let focus: Option<(&MFabric, &MEntry)> = match own {
        Some(f) if r2 < 74 && !f.entries.is_empty() => Some((f, rng.pick(&f.entries))),
        _ if r2 < 88 => {
            let cands: Vec<&MFabric> = t
                .fabrics
                .iter()
                .filter(|f| f.idx != fab && !f.entries.is_empty())
                .collect();
            if cands.is_empty() {
                None
            } else {
                let f = *rng.pick(&cands);
                Some((f, rng.pick(&f.entries)))
            }
        }
        _ => None,
    };
    let Some((ff, e)) = focus else {
        return c;
    };

    if e.mode != MODE_PASE {
        c.mode = e.mode;
    }
    let member_eps: Vec<u16>;
    if c.mode == MODE_GROUP {
        c.cats.clear();
        c.node = match nonempty(&e.subjects) {
            Some(l) => *rng.pick(l),
            None if !ff.groups.is_empty() && rng.chance(4, 5) => rng.pick(&ff.groups).id as u64,
            None => *rng.pick(&GROUPS) as u64,
        };
        if c.node == 0 || c.node > 0xFFFF {
            c.node = *rng.pick(&GROUPS) as u64; // group sessions carry a 16-bit group id
        }
        member_eps = ff
            .groups
            .iter()
            .find(|g| g.id as u64 == c.node)
            .map(|g| g.eps.clone())
            .unwrap_or_default();
    } else {
        member_eps = vec![];
        if let Some(l) = nonempty(&e.subjects) {
            let s = *rng.pick(l);
            if s >> 32 == CAT_PREFIX {
                let (id, ver) = ((s >> 16) as u16, s as u16);
                let aver = match rng.below(100) {
                    0..=39 => ver,
                    40..=64 => ver.saturating_add(1),
                    65..=89 => ver.saturating_sub(1).max(1),
                    _ => gen_cat_version(rng),
                };
                let at = rng.usize(c.cats.len() + 1);
                c.cats.truncate(2);
                c.cats.insert(at.min(c.cats.len()), (id, aver));
                if rng.chance(1, 6) {
                    // right version, wrong identifier
                    let k = at.min(c.cats.len() - 1);
                    c.cats[k].0 = *rng.pick(&CAT_IDS);
                }
            } else if s != 0 && s >> 32 != CAT_PREFIX {
                c.node = s;
            }
        }
    }
    if let Some(l) = nonempty(&e.targets) {
        let tg = rng.pick(l);
        if let Some(ep) = tg.ep {
            c.ep = ep;
        } else if !member_eps.is_empty() && rng.chance(3, 4) {
            c.ep = *rng.pick(&member_eps);
        }
        if let Some(cl) = tg.cl {
            c.cl = cl;
        }
        if let Some(dt) = tg.dt {
            if dt <= 0xFFFF && rng.chance(5, 6) {
                c.dts.truncate(2);
                let at = rng.usize(c.dts.len() + 1);
                c.dts.insert(at, (dt as u16, 1));
            } else if rng.chance(1, 2) {
                c.dts.retain(|d| d.0 as u32 != dt);
            }
        }
    } else if !member_eps.is_empty() && rng.chance(3, 4) {
        c.ep = *rng.pick(&member_eps);
    }
    if rng.chance(4, 5) {
        c.decl = gen_decl_near(rng, e.privilege, c.op);
    }

    // Perturb one aspect: near misses
    if rng.chance(2, 5) {
        match rng.below(11) {
            0 => c.mode = if c.mode == MODE_CASE { MODE_GROUP } else { MODE_CASE },
            1 => {
                c.fab = if !live.is_empty() && rng.chance(2, 3) {
                    *rng.pick(&live)
                } else if rng.chance(1, 2) {
                    nonexistent_idx(rng, t)
                } else {
                    0
                }
            }
            2 => {
                c.node = if c.mode == MODE_GROUP {
                    *rng.pick(&GROUPS) as u64
                } else {
                    *rng.pick(&NODES)
                }
            }
            3 => {
                if let Some(k) = c.cats.first_mut() {
                    k.1 = k.1.saturating_sub(1).max(1);
                }
            }
            4 => {
                if !c.cats.is_empty() {
                    let k = rng.usize(c.cats.len());
                    c.cats[k].0 = *rng.pick(&CAT_IDS);
                }
            }
            5 => c.ep = *rng.pick(&ENDPOINTS),
            6 => c.cl = *rng.pick(&CLUSTERS),
            7 => {
                if !c.dts.is_empty() && rng.chance(1, 2) {
                    let k = rng.usize(c.dts.len());
                    c.dts.remove(k);
                } else {
                    c.dts = gen_dts(rng);
                }
            }
            8 => c.decl = gen_decl_random(rng),
            9 => c.decl ^= 1 << rng.below(9),
            _ => {
                let non: Vec<u16> = ENDPOINTS
                    .iter()
                    .copied()
                    .filter(|e| !member_eps.contains(e))
                    .collect();
                if !non.is_empty() {
                    c.ep = *rng.pick(&non);
                }
            }
        }
    }
    if c.mode == MODE_GROUP && (c.node == 0 || c.node > 0xFFFF) {
        c.node = *rng.pick(&GROUPS) as u64; // group sessions carry a 16-bit group id
    }
    c
}

// ---------------------------------------------------------------------------------------------
// JSON (witness / replay)
// ---------------------------------------------------------------------------------------------

fn mode_name(m: u8) -> &'static str {
    ["none", "pase", "case", "group"][m as usize & 3]
}

fn priv_name(p: u8) -> &'static str {
    ["view", "proxyview", "operate", "manage", "administer"][(p as usize).min(4)]
}

fn op_name(o: u8) -> &'static str {
    ["read", "write", "invoke"][(o as usize).min(2)]
}

fn pos<T: PartialEq + Copy>(names: &[T], v: T) -> u8 {
    names.iter().position(|n| *n == v).unwrap_or(0) as u8
}

fn entry_json(e: &MEntry) -> Value {
    json!({
        "privilege": priv_name(e.privilege),
        "mode": mode_name(e.mode),
        "subjects": e.subjects,
        "targets": e.targets.as_ref().map(|l| l.iter().map(|t| json!([t.ep, t.cl, t.dt])).collect::<Vec<_>>()),
        "label": match e.label { Label::Own => json!("own"), Label::Absent => Value::Null, Label::Other(x) => json!(x) },
    })
}

pub fn table_json(t: &MTable) -> Value {
    json!({
        "ops": t.ops,
        "persist": t.persist,
        "fabrics": t.fabrics.iter().map(|f| json!({
            "idx": f.idx,
            "entries": f.entries.iter().map(entry_json).collect::<Vec<_>>(),
            "groups": f.groups.iter().map(|g| json!({"id": g.id, "eps": g.eps})).collect::<Vec<_>>(),
        })).collect::<Vec<_>>(),
    })
}

pub fn case_json(c: &MCase) -> Value {
    json!({
        "mode": mode_name(c.mode), "fab": c.fab, "node": c.node,
        "cats": c.cats.iter().map(|k| json!([k.0, k.1])).collect::<Vec<_>>(),
        "ep": c.ep, "cl": c.cl, "leaf": c.leaf,
        "dts": c.dts.iter().map(|k| json!([k.0, k.1])).collect::<Vec<_>>(),
        "op": op_name(c.op), "decl": c.decl, "aux": c.aux,
    })
}

fn opt_u64(v: &Value) -> Option<u64> {
    v.as_u64()
}

fn table_from(v: &Value) -> Option<MTable> {
    let mut fabrics = vec![];
    for f in v["fabrics"].as_array()? {
        let mut entries = vec![];
        for e in f["entries"].as_array()? {
            entries.push(MEntry {
                privilege: pos(
                    &["view", "proxyview", "operate", "manage", "administer"],
                    e["privilege"].as_str()?,
                ),
                mode: pos(&["none", "pase", "case", "group"], e["mode"].as_str()?),
                subjects: e["subjects"]
                    .as_array()
                    .map(|l| l.iter().filter_map(opt_u64).collect()),
                targets: e["targets"].as_array().map(|l| {
                    l.iter()
                        .map(|t| MTarget {
                            ep: opt_u64(&t[0]).map(|x| x as u16),
                            cl: opt_u64(&t[1]).map(|x| x as u32),
                            dt: opt_u64(&t[2]).map(|x| x as u32),
                        })
                        .collect()
                }),
                label: match &e["label"] {
                    Value::Null => Label::Absent,
                    Value::String(_) => Label::Own,
                    x => Label::Other(x.as_u64()? as u8),
                },
            });
        }
        let mut groups = vec![];
        for g in f["groups"].as_array()? {
            groups.push(MGroup {
                id: g["id"].as_u64()? as u16,
                eps: g["eps"]
                    .as_array()?
                    .iter()
                    .filter_map(opt_u64)
                    .map(|x| x as u16)
                    .collect(),
            });
        }
        fabrics.push(MFabric {
            idx: f["idx"].as_u64()? as u8,
            entries,
            groups,
        });
    }
    Some(MTable {
        ops: v["ops"]
            .as_array()?
            .iter()
            .filter_map(opt_u64)
            .map(|x| x as u8)
            .collect(),
        fabrics,
        persist: v["persist"].as_bool()?,
    })
}

fn pairs(v: &Value) -> Option<Vec<(u16, u16)>> {
    Some(
        v.as_array()?
            .iter()
            .filter_map(|k| Some((k[0].as_u64()? as u16, k[1].as_u64()? as u16)))
            .collect(),
    )
}

fn case_from(v: &Value) -> Option<MCase> {
    Some(MCase {
        mode: pos(&["none", "pase", "case", "group"], v["mode"].as_str()?),
        fab: v["fab"].as_u64()? as u8,
        node: v["node"].as_u64()?,
        cats: pairs(&v["cats"])?,
        ep: v["ep"].as_u64()? as u16,
        cl: v["cl"].as_u64()? as u32,
        leaf: v["leaf"].as_u64()? as u32,
        dts: pairs(&v["dts"])?,
        op: pos(&["read", "write", "invoke"], v["op"].as_str()?),
        decl: v["decl"].as_u64()? as u16,
        aux: v["aux"].as_bool()?,
    })
}

// ---------------------------------------------------------------------------------------------
// Judging
// ---------------------------------------------------------------------------------------------

#[derive(Debug)]
enum Outcome {
    Decision(bool),
    Panic(String),
}

fn real_guarded(matter: &Matter<'_>, c: &MCase) -> Outcome {
    match catch_unwind(AssertUnwindSafe(|| real_decision(matter, c))) {
        Ok(b) => Outcome::Decision(b),
        Err(p) => Outcome::Panic(
            p.downcast_ref::<&str>()
                .map(|s| s.to_string())
                .or_else(|| p.downcast_ref::<String>().cloned())
                .unwrap_or_else(|| "<non-string panic>".into()),
        ),
    }
}

/// How the granting entry matched (normalised class for signatures of wrongly denied requests).
fn grant_class(t: &MTable, c: &MCase, v: &Verdict) -> String {
    let Some((fi, ei)) = v.entry else {
        return String::new();
    };
    let e = &t.fabrics[fi].entries[ei];
    let subject = match nonempty(&e.subjects) {
        None => "any-subject",
        Some(l) if l.contains(&c.node) => {
            if c.mode == MODE_GROUP {
                "group-id"
            } else {
                "node-id"
            }
        }
        Some(l) => {
            let same = l.iter().any(|s| {
                s >> 32 == CAT_PREFIX
                    && c.cats.iter().any(|k| k.0 == (*s >> 16) as u16 && k.1 == *s as u16)
            });
            if same {
                "cat-same-version"
            } else {
                "cat-higher-version"
            }
        }
    };
    let target = match nonempty(&e.targets) {
        None => "any-target",
        Some(l) if l.iter().any(|t| t.dt.is_some()) => "listed-target-with-devtype",
        Some(_) => "listed-target",
    };
    format!("/{}/{}/{}", mode_name(c.mode), subject, target)
}

/// `Some(signature)` if the real outcome contradicts the reference.
fn judge(t: &MTable, v: &Verdict, c: &MCase, out: &Outcome) -> Option<String> {
    match out {
        Outcome::Panic(_) => Some("C05/panic/access-decision".into()),
        Outcome::Decision(got) => {
            let aux = if c.aux { "/aux-on" } else { "" };
            match (v.expect, *got) {
                (Expect::Deny, true) => {
                    Some(format!("C05/grants-but-reference-denies/{}{}", v.rule, aux))
                }
                // With the AUXILIARY feature on only "never more permissive" is asserted.
                (Expect::Allow, false) if !c.aux => Some(format!(
                    "C05/denies-but-reference-grants/{}{}",
                    v.rule,
                    if v.rule == "granted-by-entry" {
                        grant_class(t, c, v)
                    } else {
                        String::new()
                    }
                )),
                _ => None,
            }
        }
    }
}

fn shape<T>(l: &Option<Vec<T>>) -> u8 {
    match l {
        None => 0,
        Some(v) => 1 + v.len() as u8,
    }
}

fn class_hash(t: &MTable, c: &MCase, v: &Verdict) -> u64 {
    let mut f = Fnv::new();
    f.add(v.rule.as_bytes());
    f.add(&[
        c.mode,
        c.cats.len() as u8,
        c.op,
        required_level(c.decl, c.op).unwrap_or(0),
        op_declared(c.decl, c.op) as u8,
        t.persist as u8,
        (c.fab == 0) as u8,
        c.dts.len().min(2) as u8,
    ]);
    if let Some((fi, ei)) = v.entry {
        let e = &t.fabrics[fi].entries[ei];
        let tmask = e.targets.as_ref().and_then(|l| l.first()).map_or(0, |t| {
            t.ep.is_some() as u8 | (t.cl.is_some() as u8) << 1 | (t.dt.is_some() as u8) << 2
        });
        let has_cat = e
            .subjects
            .as_ref()
            .map_or(false, |l| l.iter().any(|s| s >> 32 == CAT_PREFIX));
        f.add(&[
            e.privilege,
            e.mode,
            shape(&e.subjects),
            shape(&e.targets),
            tmask,
            has_cat as u8,
            match e.label {
                Label::Own => 0,
                Label::Absent => 1,
                Label::Other(_) => 2,
            },
        ]);
    }
    f.0
}

/// Greedy witness minimisation: drop parts of the configuration / request while the same
/// disagreement (same signature) persists on a freshly built real table.
fn minimise(matter: &Matter<'_>, t: &MTable, c: &MCase, sig: &str) -> (MTable, MCase) {
    let still = |t: &MTable, c: &MCase| -> bool {
        if build(matter, t).is_err() {
            return false;
        }
        let v = reference(t, c);
        judge(t, &v, c, &real_guarded(matter, c)).as_deref() == Some(sig)
    };
    let (mut t, mut c) = (t.clone(), c.clone());
    // Simplest fabric history that yields the accessor's index
    if (1..=5).contains(&c.fab) && t.fabrics.iter().any(|f| f.idx == c.fab) {
        let mut t2 = t.clone();
        t2.ops = vec![0; c.fab as usize];
        t2.fabrics = (1..=c.fab)
            .map(|i| MFabric {
                idx: i,
                entries: if i == c.fab {
                    t.fabrics.iter().find(|f| f.idx == i).unwrap().entries.clone()
                } else {
                    vec![]
                },
                groups: if i == c.fab {
                    t.fabrics.iter().find(|f| f.idx == i).unwrap().groups.clone()
                } else {
                    vec![]
                },
            })
            .collect();
        if still(&t2, &c) {
            t = t2;
        }
    }
    let mut progress = true;
    let mut budget = 400;
    while progress && budget > 0 {
        progress = false;
        // (fabric, entry, kind, index) removals
        let mut cands: Vec<(MTable, MCase)> = vec![];
        for fi in 0..t.fabrics.len() {
            for ei in 0..t.fabrics[fi].entries.len() {
                let mut t2 = t.clone();
                t2.fabrics[fi].entries.remove(ei);
                cands.push((t2, c.clone()));
                if let Some(l) = &t.fabrics[fi].entries[ei].subjects {
                    for k in 0..l.len() {
                        let mut t2 = t.clone();
                        let l2 = t2.fabrics[fi].entries[ei].subjects.as_mut().unwrap();
                        l2.remove(k);
                        if l2.is_empty() && !t2.persist {
                            t2.fabrics[fi].entries[ei].subjects = None;
                        }
                        cands.push((t2, c.clone()));
                    }
                }
                if let Some(l) = &t.fabrics[fi].entries[ei].targets {
                    for k in 0..l.len() {
                        let mut t2 = t.clone();
                        let l2 = t2.fabrics[fi].entries[ei].targets.as_mut().unwrap();
                        l2.remove(k);
                        if l2.is_empty() && !t2.persist {
                            t2.fabrics[fi].entries[ei].targets = None;
                        }
                        cands.push((t2, c.clone()));
                    }
                }
            }
            for gi in 0..t.fabrics[fi].groups.len() {
                let mut t2 = t.clone();
                t2.fabrics[fi].groups.remove(gi);
                cands.push((t2, c.clone()));
            }
        }
        for k in 0..c.cats.len() {
            let mut c2 = c.clone();
            c2.cats.remove(k);
            cands.push((t.clone(), c2));
        }
        for k in 0..c.dts.len() {
            let mut c2 = c.clone();
            c2.dts.remove(k);
            cands.push((t.clone(), c2));
        }
        if t.persist
            && t.fabrics.iter().all(|f| {
                f.entries.iter().all(|e| {
                    e.label == Label::Own
                        && e.mode != MODE_PASE
                        && e.subjects.as_ref().map_or(true, |l| !l.is_empty())
                        && e.targets.as_ref().map_or(true, |l| !l.is_empty())
                })
            })
        {
            let mut t2 = t.clone();
            t2.persist = false;
            cands.push((t2, c.clone()));
        }
        for (t2, c2) in cands {
            budget -= 1;
            if budget == 0 {
                break;
            }
            if still(&t2, &c2) {
                t = t2;
                c = c2;
                progress = true;
                break;
            }
        }
    }
    let _ = build(matter, &t);
    (t, c)
}

struct Tally {
    counts: HashMap<&'static str, u64>,
    dynamic: BTreeMap<String, u64>,
}

impl Tally {
    fn hit(&mut self, k: &'static str) {
        *self.counts.entry(k).or_insert(0) += 1;
    }
}

/// (reference rule, counter name)
const DECIDE_KEYS: [(&str, &str); 18] = [
    ("pase-bypass", "decide:pase-bypass"),
    ("unauthenticated", "decide:unauthenticated"),
    ("no-fabric/index-zero", "decide:no-fabric/index-zero"),
    ("no-fabric/nonexistent", "decide:no-fabric/nonexistent"),
    ("no-entry-of-fabric", "decide:no-entry-of-fabric"),
    ("authmode-mismatch", "decide:authmode-mismatch"),
    ("subject-mismatch/node", "decide:subject-mismatch/node"),
    ("subject-mismatch/cat-id", "decide:subject-mismatch/cat-id"),
    ("subject-mismatch/cat-version", "decide:subject-mismatch/cat-version"),
    ("target-mismatch/endpoint", "decide:target-mismatch/endpoint"),
    ("target-mismatch/cluster", "decide:target-mismatch/cluster"),
    ("target-mismatch/devtype", "decide:target-mismatch/devtype"),
    ("privilege-insufficient", "decide:privilege-insufficient"),
    ("operation-not-declared", "decide:operation-not-declared"),
    ("group-endpoint-not-member", "decide:group-endpoint-not-member"),
    ("granted-by-entry", "decide:granted-by-entry"),
    ("granted-by-entry/proxyview-includes-view", "decide:granted-by-entry/proxyview-includes-view"),
    ("foreign-labelled-entry", "decide:foreign-labelled-entry"),
];

#[allow(clippy::too_many_arguments)]
fn check_case(
    rep: &mut Report,
    tally: &mut Tally,
    matter: &Matter<'_>,
    t: &MTable,
    c: &MCase,
    origin: &str,
    do_min: bool,
) {
    rep.evaluations += 1;
    let v = reference(t, c);
    let out = real_guarded(matter, c);

    tally.hit(match v.expect {
        Expect::Allow => "ref:allow",
        Expect::Deny => "ref:deny",
        Expect::Any => "ref:open",
    });
    match &out {
        Outcome::Decision(true) => tally.hit("real:allow"),
        Outcome::Decision(false) => tally.hit("real:deny"),
        Outcome::Panic(_) => tally.hit("real:panic"),
    }
    if c.aux {
        tally.hit("aux-feature-on");
    }
    if t.persist {
        tally.hit("route:persisted-blob");
    } else {
        tally.hit("route:api");
    }
    if v.expect == Expect::Any {
        *tally
            .dynamic
            .entry(format!(
                "note:open:{}:real-{}",
                v.rule,
                match out {
                    Outcome::Decision(true) => "allows",
                    Outcome::Decision(false) => "denies",
                    Outcome::Panic(_) => "panics",
                }
            ))
            .or_insert(0) += 1;
    } else {
        tally.hit(
            DECIDE_KEYS
                .iter()
                .find(|k| k.0 == v.rule)
                .map(|k| k.1)
                .unwrap_or("decide:other"),
        );
    }
    if c.aux && v.expect == Expect::Allow && matches!(out, Outcome::Decision(false)) {
        *tally
            .dynamic
            .entry(format!("note:aux-on:stricter-than-reference:{}", v.rule))
            .or_insert(0) += 1;
    }
    let nontrivial = c.mode != MODE_PASE && t.fabrics.iter().any(|f| !f.entries.is_empty());
    if nontrivial {
        rep.distinct.insert(class_hash(t, c, &v));
    }

    if let Some(sig) = judge(t, &v, c, &out) {
        let known = rep.violations.iter().filter(|x| x.signature == sig).count();
        let (mt, mc) = if do_min && known < 3 {
            let r = minimise(matter, t, c, &sig);
            // restore the table under test
            let _ = build(matter, t);
            r
        } else {
            (t.clone(), c.clone())
        };
        let mv = reference(&mt, &mc);
        let detail = format!(
            "real decision {:?}, reference {:?} by rule '{}' (deciding entry {:?}). request: {} | table: {} | required level for op: {:?}, op declared: {}",
            out,
            mv.expect,
            mv.rule,
            mv.entry,
            case_json(&mc),
            table_json(&mt),
            required_level(mc.decl, mc.op),
            op_declared(mc.decl, mc.op),
        );
        rep.violation(
            v.rule,
            &sig,
            detail,
            json!({"check": "C05", "table": table_json(&mt), "case": case_json(&mc), "origin": origin}),
        );
    }
}

fn new_matter() -> Matter<'static> {
    Matter::new(&TEST_DEV_DET, TEST_DEV_COMM, &TEST_DEV_ATT, 0)
}

pub fn run(ctx: &Ctx) -> Report {
    let mut rep = Report::new(
        "C05",
        "Real Fabrics/ACL tables (public API + persisted blobs) x requests; AccessReq::allow() (preceded by \
         Accessor::is_endpoint_accessible, as the IM does) compared with a reference decision written from the statement. \
         distinct = abstract class (deciding rule x accessor mode x #CATs x operation x required level x op-declared x route x \
         deciding entry's privilege / mode / subject-list shape / target-list shape+components / label) of non-trivial cases \
         (some ACL entry present, accessor not PASE).",
    );
    rep.assumptions.push("An `Access` declaration lists sufficient privilege levels as NEED_* bits; the level required for read is the lowest of V/O/M/A listed, for write/invoke the lowest of O/M/A listed (V of RWVA-style declarations is the read side). Nothing listed for the operation => outcome left open (noted).".into());
    rep.assumptions.push("Invoke is checked as WRITE against the command's declaration (what Cluster::check_cmd_access does); the FAB_SCOPED/no-accessing-fabric pre-check of check_cmd_access is crate-private and outside this monitor.".into());
    rep.assumptions.push("Tag (CAT) version 0 is invalid: matches that depend on a version-0 tag are left open. Entries without / with a foreign fab_idx field (only reachable through persisted blobs): never allowed to grant to the fabric they are stored with if labelled with another fabric; other outcomes left open.".into());
    rep.assumptions.push("Whether a ProxyView entry grants View-level reads is NOT judged: rs-matter documents ProxyView as a non-hierarchical flag granting nothing (denying direction); such cases are counted under granted-by-entry/proxyview-includes-view.".into());
    rep.assumptions.push("AUXILIARY feature: generated off; 4% of requests have it on with no group carrying auxiliary ACLs, asserting only 'never more permissive than the reference'. Group accessors carry 16-bit group ids.".into());

    std::panic::set_hook(Box::new(|_| {}));
    let matter = new_matter();
    let mut tally = Tally {
        counts: HashMap::new(),
        dynamic: BTreeMap::new(),
    };

    if let Some(r) = &ctx.replay {
        match (table_from(&r["table"]), case_from(&r["case"])) {
            (Some(t), Some(c)) => match build(&matter, &t) {
                Ok(()) => {
                    check_case(&mut rep, &mut tally, &matter, &t, &c, "replay", false);
                    let v = reference(&t, &c);
                    rep.sample(json!({"reference": format!("{:?}", v.expect), "rule": v.rule,
                        "real": format!("{:?}", real_guarded(&matter, &c))}));
                }
                Err(e) => rep.inconclusive(&format!("replay: cannot build table: {e}")),
            },
            _ => rep.inconclusive("replay: malformed table/case"),
        }
        flush(&mut rep, tally);
        let _ = std::panic::take_hook();
        return rep;
    }

    let tier_total = (if ctx.thorough { 5e7 } else { 5e5 }) * ctx.scale;
    rep.floor("ref:allow", (tier_total * 0.10) as u64);
    rep.floor("ref:deny", (tier_total * 0.10) as u64);
    rep.floor("real:allow", (tier_total * 0.10) as u64);
    let rule_floor = ((1000.0 * ctx.scale) as u64).max(1);
    for (k, counter) in DECIDE_KEYS {
        if k == "granted-by-entry/proxyview-includes-view" {
            // not judged (Expect::Any): counted as a note, no floor
            continue;
        }
        rep.floor(
            counter,
            if k == "foreign-labelled-entry" {
                (rule_floor / 5).max(1)
            } else {
                rule_floor
            },
        );
    }
    rep.floor("route:persisted-blob", (tier_total * 0.05) as u64);
    rep.floor("tables:with-index-gap", (20.0 * ctx.scale) as u64 + 1);

    let mut rng = Rng::new(ctx.shard_seed());
    let cases = ctx.share(500_000, 50_000_000);
    let per_table = 40u64;
    let mut done = 0u64;
    let mut table_no = 0u64;
    while done < cases {
        table_no += 1;
        let built = catch_unwind(AssertUnwindSafe(|| {
            let t = gen_table(&mut rng, &matter)?;
            build(&matter, &t)?;
            Ok::<MTable, String>(t)
        }));
        let t = match built {
            Ok(Ok(t)) => t,
            Ok(Err(e)) => {
                // The generator only produces configurations the public API accepts.
                rep.inconclusive(&format!("table build failed: {}", class_of_err(&e)));
                rep.sample(json!({"build_error": e}));
                if rep.inconclusive.values().sum::<u64>() > 50 {
                    break;
                }
                continue;
            }
            Err(_) => {
                rep.violation(
                    "panic",
                    "C05/panic/table-build",
                    "panic while building a fabric/ACL table through the public API".into(),
                    json!({"check": "C05", "origin": "table-build", "seed": ctx.seed, "shard": ctx.shard, "table_no": table_no}),
                );
                continue;
            }
        };
        tally.hit("tables");
        if t.persist {
            tally.hit("tables:persisted-blob-route");
        }
        let live: Vec<u8> = t.fabrics.iter().map(|f| f.idx).collect();
        let maxi = live.iter().copied().max().unwrap_or(0);
        if (1..maxi).any(|i| !live.contains(&i)) {
            tally.hit("tables:with-index-gap");
        }
        if maxi >= 250 || t.ops.iter().any(|o| *o >= 250) {
            tally.hit("tables:history-reached-index>=250");
        }
        if live.is_empty() {
            tally.hit("tables:no-fabric");
        }
        if table_no <= 2 {
            rep.sample(json!({"table": table_json(&t)}));
        }
        let n = per_table.min(cases - done);
        for k in 0..n {
            let c = gen_case(&mut rng, &t);
            if table_no <= 2 && k < 2 {
                let v = reference(&t, &c);
                rep.sample(json!({"case": case_json(&c), "reference": format!("{:?}", v.expect), "rule": v.rule}));
            }
            check_case(&mut rep, &mut tally, &matter, &t, &c, "random", true);
        }
        done += n;
    }

    flush(&mut rep, tally);
    let _ = std::panic::take_hook();
    rep
}

fn class_of_err(e: &str) -> String {
    e.split(':').next().unwrap_or("?").to_string()
}

fn flush(rep: &mut Report, tally: Tally) {
    for (k, n) in tally.counts {
        rep.count_n(k, n);
    }
    for (k, n) in tally.dynamic {
        if let Some(note) = k.strip_prefix("note:") {
            *rep.notes.entry(note.to_string()).or_insert(0) += n;
        } else {
            rep.count_n(&k, n);
        }
    }
}
