//! C19 helper — the harness's own Matter-TLV operational-certificate writer.
//!
//! rs-matter's generator (`cert::gen`) can only produce well-formed certificates; this
//! writer exposes every field as a parameter so that exactly one rule can be broken at a
//! time. Encoding uses rs-matter's public TLV writer; the X.509 TBS that is signed is
//! obtained through the public `CertRef::as_asn1`, and the signature is made with the public
//! `Crypto` API (ECDSA P-256, raw r||s).

use rs_matter::cert::CertRef;
use rs_matter::crypto::{
    CanonPkcPublicKey, CanonPkcSecretKey, CanonPkcSecretKeyRef, CanonPkcSignature, Crypto,
    CryptoSensitive, Digest, PublicKey, SecretKey, SigningSecretKey,
};
use rs_matter::tlv::{TLVElement, TLVTag, TLVWrite};
use rs_matter::utils::storage::WriteBuf;

use crate::sim::rng::Rng;

// Matter DN attribute tags (Matter certificate TLV encoding).
pub const DN_COMMON_NAME: u8 = 1;
pub const DN_ORG_NAME: u8 = 7;
pub const DN_ORG_UNIT: u8 = 8;
pub const DN_TITLE: u8 = 9;
pub const DN_NAME: u8 = 10;
pub const DN_PSEUDONYM: u8 = 15;
pub const DN_NODE_ID: u8 = 17;
pub const DN_ICAC_ID: u8 = 19;
pub const DN_RCAC_ID: u8 = 20;
pub const DN_FABRIC_ID: u8 = 21;
pub const DN_NOC_CAT: u8 = 22;

// Key usage bits in the Matter TLV encoding.
pub const KU_DIGITAL_SIGNATURE: u16 = 0x0001;
pub const KU_NON_REPUDIATION: u16 = 0x0002;
pub const KU_KEY_ENCIPHERMENT: u16 = 0x0004;
pub const KU_KEY_AGREEMENT: u16 = 0x0010;
pub const KU_KEY_CERT_SIGN: u16 = 0x0020;
pub const KU_CRL_SIGN: u16 = 0x0040;

pub const EKU_SERVER_AUTH: u8 = 1;
pub const EKU_CLIENT_AUTH: u8 = 2;

#[derive(Clone, Debug, PartialEq, Eq)]
pub enum DnVal {
    U(u64),
    Utf8(String),
    Printable(String),
}

#[derive(Clone, Debug, PartialEq, Eq)]
pub struct DnAttr {
    pub tag: u8,
    pub val: DnVal,
}

impl DnAttr {
    pub fn u(tag: u8, v: u64) -> Self {
        Self {
            tag,
            val: DnVal::U(v),
        }
    }
}

pub type Dn = Vec<DnAttr>;

pub fn dn_uints(dn: &Dn, tag: u8) -> Vec<u64> {
    dn.iter()
        .filter(|a| a.tag == tag)
        .filter_map(|a| match a.val {
            DnVal::U(v) => Some(v),
            _ => None,
        })
        .collect()
}

pub fn dn_text(dn: &Dn) -> String {
    let mut s = String::new();
    for (i, a) in dn.iter().enumerate() {
        if i > 0 {
            s.push_str(", ");
        }
        let name = match a.tag {
            DN_COMMON_NAME => "CN".to_string(),
            DN_ORG_NAME => "O".to_string(),
            DN_ORG_UNIT => "OU".to_string(),
            DN_NODE_ID => "node-id".to_string(),
            DN_ICAC_ID => "icac-id".to_string(),
            DN_RCAC_ID => "rcac-id".to_string(),
            DN_FABRIC_ID => "fabric-id".to_string(),
            DN_NOC_CAT => "noc-cat".to_string(),
            t => format!("dn{}", t),
        };
        match &a.val {
            DnVal::U(v) => s.push_str(&format!("{}={:#x}", name, v)),
            DnVal::Utf8(v) => s.push_str(&format!("{}=utf8'{}'", name, v)),
            DnVal::Printable(v) => s.push_str(&format!("{}=printable'{}'", name, v)),
        }
    }
    s
}

/// A "future extension": one DER X.509 `Extension` that Matter has no TLV form for.
#[derive(Clone, Debug, PartialEq, Eq)]
pub struct FutureExt {
    /// DER content bytes of the OID.
    pub oid: Vec<u8>,
    pub critical: bool,
    pub value: Vec<u8>,
}

impl FutureExt {
    /// `SEQUENCE { OID, [BOOLEAN TRUE,] OCTET STRING }` (DER; DEFAULT FALSE is omitted).
    pub fn der(&self) -> Vec<u8> {
        let mut inner = vec![0x06, self.oid.len() as u8];
        inner.extend_from_slice(&self.oid);
        if self.critical {
            inner.extend_from_slice(&[0x01, 0x01, 0xFF]);
        }
        inner.push(0x04);
        inner.push(self.value.len() as u8);
        inner.extend_from_slice(&self.value);
        let mut out = vec![0x30, inner.len() as u8];
        out.extend_from_slice(&inner);
        out
    }
}

/// Every field of a Matter operational certificate.
#[derive(Clone, Debug, PartialEq, Eq)]
pub struct CertParams {
    pub serial: Vec<u8>,
    pub sig_algo: u8,
    pub issuer: Dn,
    pub not_before: u32,
    pub not_after: u32,
    pub subject: Dn,
    pub pubkey_algo: u8,
    pub curve: u8,
    pub pubkey: Vec<u8>,
    /// basic constraints: (cA, pathLenConstraint)
    pub bc: Option<(bool, Option<u8>)>,
    pub ku: Option<u16>,
    pub eku: Option<Vec<u8>>,
    pub skid: Option<Vec<u8>>,
    pub akid: Option<Vec<u8>>,
    pub future: Option<FutureExt>,
    /// Top-level certificate elements (context tags 1..=11) to leave out entirely.
    pub omit: Vec<u8>,
}

impl CertParams {
    pub fn describe(&self) -> String {
        format!(
            "{{subject[{}] issuer[{}] nb={} na={} bc={:?} ku={:?} eku={:?} skid={} akid={} pubkey={}.. future={:?} serial={} omitted-elements={:?}}}",
            dn_text(&self.subject),
            dn_text(&self.issuer),
            self.not_before,
            self.not_after,
            self.bc,
            self.ku.map(|k| format!("{:#06x}", k)),
            self.eku,
            self.skid.as_ref().map(|k| hex(&k[..k.len().min(4)])).unwrap_or("-".into()),
            self.akid.as_ref().map(|k| hex(&k[..k.len().min(4)])).unwrap_or("-".into()),
            hex(&self.pubkey[..self.pubkey.len().min(5)]),
            self.future.as_ref().map(|f| (hex(&f.oid), f.critical)),
            hex(&self.serial),
            self.omit,
        )
    }
}

pub fn hex(b: &[u8]) -> String {
    let mut s = String::with_capacity(b.len() * 2);
    for x in b {
        s.push_str(&format!("{:02x}", x));
    }
    s
}

fn write_dn(tw: &mut WriteBuf<'_>, tag: u8, dn: &Dn) -> Result<(), rs_matter::error::Error> {
    tw.start_list(&TLVTag::Context(tag))?;
    for a in dn {
        match &a.val {
            DnVal::U(v) => tw.u64(&TLVTag::Context(a.tag), *v)?,
            DnVal::Utf8(s) => tw.utf8(&TLVTag::Context(a.tag), s)?,
            DnVal::Printable(s) => tw.utf8(&TLVTag::Context(a.tag | 0x80), s)?,
        }
    }
    tw.end_container()
}

/// Matter-TLV encoding of the certificate; `sig == None` leaves the signature element out
/// (the form from which the TBS is derived).
pub fn encode_tlv(p: &CertParams, sig: Option<&[u8]>) -> Result<Vec<u8>, String> {
    let mut buf = [0u8; 2048];
    let mut tw = WriteBuf::new(&mut buf);
    (|| -> Result<(), rs_matter::error::Error> {
        let keep = |t: u8| !p.omit.contains(&t);
        tw.start_struct(&TLVTag::Anonymous)?;
        if keep(1) {
            tw.str(&TLVTag::Context(1), &p.serial)?;
        }
        if keep(2) {
            tw.u8(&TLVTag::Context(2), p.sig_algo)?;
        }
        if keep(3) {
            write_dn(&mut tw, 3, &p.issuer)?;
        }
        if keep(4) {
            tw.u32(&TLVTag::Context(4), p.not_before)?;
        }
        if keep(5) {
            tw.u32(&TLVTag::Context(5), p.not_after)?;
        }
        if keep(6) {
            write_dn(&mut tw, 6, &p.subject)?;
        }
        if keep(7) {
            tw.u8(&TLVTag::Context(7), p.pubkey_algo)?;
        }
        if keep(8) {
            tw.u8(&TLVTag::Context(8), p.curve)?;
        }
        if keep(9) {
            tw.str(&TLVTag::Context(9), &p.pubkey)?;
        }
        if keep(10) {
            tw.start_list(&TLVTag::Context(10))?;
            if let Some((ca, path)) = p.bc {
                tw.start_struct(&TLVTag::Context(1))?;
                tw.bool(&TLVTag::Context(1), ca)?;
                if let Some(pl) = path {
                    tw.u8(&TLVTag::Context(2), pl)?;
                }
                tw.end_container()?;
            }
            if let Some(ku) = p.ku {
                tw.u16(&TLVTag::Context(2), ku)?;
            }
            if let Some(eku) = &p.eku {
                tw.start_array(&TLVTag::Context(3))?;
                for e in eku {
                    tw.u8(&TLVTag::Anonymous, *e)?;
                }
                tw.end_container()?;
            }
            if let Some(k) = &p.skid {
                tw.str(&TLVTag::Context(4), k)?;
            }
            if let Some(k) = &p.akid {
                tw.str(&TLVTag::Context(5), k)?;
            }
            if let Some(f) = &p.future {
                tw.str(&TLVTag::Context(6), &f.der())?;
            }
            tw.end_container()?;
        }
        if let Some(sig) = sig {
            if keep(11) {
                tw.str(&TLVTag::Context(11), sig)?;
            }
        }
        tw.end_container()
    })()
    .map_err(|e| format!("tlv encode: {:?}", e.code()))?;
    Ok(tw.as_slice().to_vec())
}

/// A P-256 key pair in canonical form + its SHA-1 key identifier.
#[derive(Clone, Debug, PartialEq, Eq)]
pub struct Key {
    pub sk: [u8; 32],
    pub pk: [u8; 65],
    pub kid: [u8; 20],
}

pub fn sha1<C: Crypto>(crypto: &C, data: &[u8]) -> [u8; 20] {
    let mut h = crypto.hash1().expect("hash1");
    h.update(data).expect("hash1 update");
    let mut out = CryptoSensitive::<20>::new();
    h.finish(&mut out).expect("hash1 finish");
    *out.access()
}

pub fn key_from_secret<C: Crypto>(crypto: &C, sk: CanonPkcSecretKeyRef<'_>) -> Key {
    let k = crypto.secret_key(sk).expect("secret_key");
    let mut pk = CanonPkcPublicKey::new();
    k.pub_key()
        .expect("pub_key")
        .write_canon(&mut pk)
        .expect("pk canon");
    let pk = *pk.access();
    Key {
        sk: *sk.access(),
        pk,
        kid: sha1(crypto, &pk),
    }
}

pub fn gen_key<C: Crypto>(crypto: &C) -> Key {
    let k = crypto.generate_secret_key().expect("generate_secret_key");
    let mut sk = CanonPkcSecretKey::new();
    k.write_canon(&mut sk).expect("sk canon");
    key_from_secret(crypto, sk.reference())
}

/// The DER TBS of the certificate as rs-matter derives it from the TLV form.
/// `Err` carries the error / panic text (hostile parameters may make the conversion fail).
pub fn tbs_der(p: &CertParams) -> Result<Vec<u8>, String> {
    let tlv = encode_tlv(p, None)?;
    let r = std::panic::catch_unwind(std::panic::AssertUnwindSafe(|| {
        let cert = CertRef::new(TLVElement::new(&tlv));
        let mut buf = [0u8; 2048];
        cert.as_asn1(&mut buf).map(|n| buf[..n].to_vec())
    }));
    match r {
        Ok(Ok(v)) => Ok(v),
        Ok(Err(e)) => Err(format!("as_asn1: {:?}", e.code())),
        Err(_) => Err("as_asn1 panicked".to_string()),
    }
}

pub fn sign<C: Crypto>(crypto: &C, signer: &Key, data: &[u8]) -> [u8; 64] {
    let k = crypto
        .secret_key(CanonPkcSecretKeyRef::new(&signer.sk))
        .expect("secret_key");
    let mut sig = CanonPkcSignature::new();
    k.sign(data, &mut sig).expect("sign");
    *sig.access()
}

/// Sign `signed` (normally == `presented`) with `signer` and emit `presented` carrying that
/// signature. Returns (tlv, tbs_available).
pub fn build_cert<C: Crypto>(
    crypto: &C,
    presented: &CertParams,
    signed: &CertParams,
    signer: &Key,
    sig_flip_bit: Option<u16>,
    rng: &mut Rng,
) -> Result<(Vec<u8>, bool), String> {
    let (mut sig, tbs_ok) = match tbs_der(signed) {
        Ok(tbs) => (sign(crypto, signer, &tbs), true),
        Err(_) => {
            // The TBS cannot be derived (hostile field values): any signature will do, the
            // verifier has to cope with the same conversion.
            let mut s = [0u8; 64];
            s.copy_from_slice(&rng.bytes(64));
            (s, false)
        }
    };
    if let Some(bit) = sig_flip_bit {
        let bit = (bit as usize) % 512;
        sig[bit / 8] ^= 1 << (bit % 8);
    }
    Ok((encode_tlv(presented, Some(&sig))?, tbs_ok))
}
