//! C07 — nothing bound to a fabric outlives that fabric.
//!
//! Histories over the commissioning world: fabrics are commissioned (completed or not),
//! CASE sessions established / resumed / saved, then a fabric vanishes - removed by its own
//! or by another administrator, or rolled back because its commissioning did not complete
//! (expiry, ArmFailSafe(0), RevokeCommissioning, restart) - possibly followed by the
//! commissioning of a *different* fabric, which receives the same local index.
//!
//! The harness gives every fabric incarnation an identity (fabric id, node id, hash of the
//! root certificate) and records, when a session or a resumption record first shows up in a
//! device snapshot, which incarnation occupied its fabric index.
//!
//! Oracle:
//!  I1 after every step, every live (non-expired, non-reserved) CASE session of the device
//!     refers to the fabric incarnation it was created under.
//!  I2 the same for every resumption record.
//!  P1 a request over a saved session of a vanished fabric is not answered with data.
//!  P2 a CASE establishment (full or resumed) with the credentials of a fabric the device
//!     no longer has does not succeed.
//!  K  control: a request over a session of an untouched fabric still succeeds.

use std::collections::HashMap;

use serde_json::json;

use crate::mon::commis::{self, Ctx as SCtx, DevDump, Step, WorldParams, WorldResult};
use crate::report::{Ctx, Report};
use crate::sim::exec::RunStatus;
use crate::sim::rng::{subseed, Fnv, Rng};
use rs_matter::transport::session::SessionMode;

#[derive(Clone, Copy, Debug, PartialEq, Eq)]
pub enum Vanish {
    /// Rollback of a commissioning that did not complete.
    Expiry,
    ForceExpire,
    Restart,
    /// RemoveFabric issued by the fabric's own administrator.
    RemoveOwn,
    /// RemoveFabric issued by the administrator of the other fabric.
    RemoveByOther,
    /// A second fabric (B) is staged up to AddNOC through a window that the administrator of
    /// the existing fabric A opened; A's administrator then rolls it back over ITS OWN CASE
    /// session (ArmFailSafe(0), or RevokeCommissioning if `true`). B's sessions must go, A's
    /// session - the very one the command arrived on - must keep working.
    StagedSecondRolledBackByAdmin(bool),
}

#[derive(Clone, Debug)]
pub struct Scenario {
    pub seed: u64,
    pub vanish: Vanish,
    /// commission another fabric afterwards (takes the freed index)
    pub recommission: bool,
    /// let the resumption cache be flushed to the store before the fabric vanishes
    pub flush_before: bool,
    /// restart the device between the vanishing and the re-commissioning
    pub restart_between: bool,
    /// number of extra CASE sessions / resumptions established before
    pub extra_case: u8,
    pub chaos: u8,
}

pub struct Built {
    pub steps: Vec<Step>,
    /// index of the step at which the fabric vanishes
    pub vanish_at: usize,
    /// indices of Probe steps over saved sessions of the vanished fabric
    pub stale_probes: Vec<usize>,
    /// indices of Case steps using the vanished fabric's credentials
    pub stale_cases: Vec<usize>,
    /// indices of control probes that must succeed
    pub controls: Vec<usize>,
    /// true if fabric A is the one that vanishes (always, by construction)
    pub victim_is_a: bool,
}

fn commission(steps: &mut Vec<Step>, fab_b: bool, secs: u16, complete: bool) {
    steps.push(Step::Arm { ctx: SCtx::Pase, secs });
    steps.push(Step::Csr { ctx: SCtx::Pase, update: false });
    steps.push(Step::AddRoot { ctx: SCtx::Pase, fab_b });
    steps.push(Step::AddNoc { ctx: SCtx::Pase, fab_b });
    steps.push(Step::Case { fab_b });
    if complete {
        steps.push(Step::Complete { ctx: if fab_b { SCtx::CaseB } else { SCtx::CaseA } });
    }
}

pub fn build(sc: &Scenario) -> Built {
    let mut steps = Vec::new();
    let mut stale_probes = Vec::new();
    let mut stale_cases = Vec::new();
    let mut controls = Vec::new();
    if let Vanish::StagedSecondRolledBackByAdmin(revoke) = sc.vanish {
        commission(&mut steps, false, 60, true);
        steps.push(Step::Probe { ctx: SCtx::CaseA });
        steps.push(Step::OpenWindow { ctx: SCtx::CaseA });
        commission(&mut steps, true, 60, false);
        steps.push(Step::Probe { ctx: SCtx::CaseB });
        steps.push(Step::Save { fab_b: true, slot: 0 });
        if sc.flush_before {
            steps.push(Step::Sleep { ms: 1200 });
        }
        let vanish_at = steps.len();
        if revoke {
            steps.push(Step::Revoke { ctx: SCtx::CaseA });
        } else {
            steps.push(Step::Arm { ctx: SCtx::CaseA, secs: 0 });
        }
        steps.push(Step::Sleep { ms: 300 });
        // the administrator's own session (the one the command arrived on) still works
        controls.push(steps.len());
        steps.push(Step::Probe { ctx: SCtx::CaseA });
        // the staged fabric's session is gone
        stale_probes.push(steps.len());
        steps.push(Step::Probe { ctx: SCtx::Saved(0) });
        steps.push(Step::CtlForgetSessions);
        stale_cases.push(steps.len());
        steps.push(Step::Case { fab_b: true });
        steps.push(Step::Probe { ctx: SCtx::CaseB });
        // and a fresh session of A works, too
        steps.push(Step::Case { fab_b: false });
        controls.push(steps.len());
        steps.push(Step::Probe { ctx: SCtx::CaseA });
        steps.push(Step::Sleep { ms: 1500 });
        return Built { steps, vanish_at, stale_probes, stale_cases, controls, victim_is_a: false };
    }
    let rollback = matches!(sc.vanish, Vanish::Expiry | Vanish::ForceExpire | Vanish::Restart);
    let secs: u16 = 10;

    if rollback {
        // Fabric A is being commissioned and never completes.
        commission(&mut steps, false, secs, false);
    } else {
        // Fabric A completed; fabric B completed through a window opened by A.
        commission(&mut steps, false, 60, true);
        steps.push(Step::OpenWindow { ctx: SCtx::CaseA });
        commission(&mut steps, true, 60, true);
    }
    for _ in 0..sc.extra_case {
        steps.push(Step::CtlForgetSessions);
        steps.push(Step::Case { fab_b: false }); // resumes with the cached record
        if !rollback {
            steps.push(Step::Case { fab_b: true });
        }
    }
    steps.push(Step::Probe { ctx: SCtx::CaseA });
    steps.push(Step::Save { fab_b: false, slot: 0 });
    if sc.flush_before {
        steps.push(Step::Sleep { ms: 1200 });
    }

    let vanish_at = steps.len();
    match sc.vanish {
        Vanish::Expiry => steps.push(Step::Sleep { ms: secs as u32 * 1000 + 2500 }),
        Vanish::ForceExpire => steps.push(Step::Arm { ctx: SCtx::Pase, secs: 0 }),
        Vanish::Restart => steps.push(Step::Restart),
        Vanish::RemoveOwn => steps.push(Step::RemoveFabric { ctx: SCtx::CaseA, idx: 1 }),
        Vanish::RemoveByOther => steps.push(Step::RemoveFabric { ctx: SCtx::CaseB, idx: 1 }),
        Vanish::StagedSecondRolledBackByAdmin(_) => unreachable!("handled above"),
    }
    steps.push(Step::Sleep { ms: 300 });

    // Probes right after the fabric vanished
    stale_probes.push(steps.len());
    steps.push(Step::Probe { ctx: SCtx::Saved(0) });
    steps.push(Step::CtlForgetSessions);
    stale_cases.push(steps.len());
    steps.push(Step::Case { fab_b: false });
    steps.push(Step::Probe { ctx: SCtx::CaseA });
    if !rollback {
        // re-establish the survivor's session (the controller forgot it) and check it works
        steps.push(Step::Case { fab_b: true });
        controls.push(steps.len());
        steps.push(Step::Probe { ctx: SCtx::CaseB });
    }

    if sc.restart_between {
        steps.push(Step::Restart);
    }

    if sc.recommission {
        // A different fabric takes the freed index.
        if rollback {
            // the initial window is still open (no fabrics): commission B over PASE
            commission(&mut steps, true, 60, true);
        } else {
            // B survived: it opens a window and a third commissioning re-uses CA "A"?? No:
            // re-commissioning with the *old* credentials would make the old credentials valid
            // again. Instead B is removed and re-added is pointless; keep the survivor only.
        }
        stale_probes.push(steps.len());
        steps.push(Step::Probe { ctx: SCtx::Saved(0) });
        steps.push(Step::CtlForgetSessions);
        stale_cases.push(steps.len());
        steps.push(Step::Case { fab_b: false });
        steps.push(Step::Probe { ctx: SCtx::CaseA });
        if rollback {
            steps.push(Step::Case { fab_b: true });
            controls.push(steps.len());
            steps.push(Step::Probe { ctx: SCtx::CaseB });
        }
    }
    steps.push(Step::Sleep { ms: 1500 });

    Built {
        steps,
        vanish_at,
        stale_probes,
        stale_cases,
        controls,
        victim_is_a: true,
    }
}

pub fn gen_scenario(rng: &mut Rng) -> Scenario {
    Scenario {
        seed: rng.u64(),
        vanish: *rng.pick(&[
            Vanish::Expiry,
            Vanish::ForceExpire,
            Vanish::Restart,
            Vanish::RemoveOwn,
            Vanish::RemoveByOther,
            Vanish::StagedSecondRolledBackByAdmin(false),
            Vanish::StagedSecondRolledBackByAdmin(true),
        ]),
        recommission: rng.chance(2, 3),
        flush_before: rng.bool(),
        restart_between: rng.chance(1, 4),
        extra_case: rng.below(3) as u8,
        chaos: if rng.chance(1, 8) { 10 } else { 0 },
    }
}

type Ident = (u64, u64, u64);

fn ident_of(d: &DevDump, idx: u8) -> Option<Ident> {
    d.fabric_ids.get(&idx).copied()
}

pub fn judge(rep: &mut Report, sc: &Scenario, b: &Built, r: &WorldResult, replay: serde_json::Value) {
    if let Some(msg) = &r.panic {
        rep.violation(
            "no-panic",
            &format!("C07/panic/{}", crate::util::panic_class(msg)),
            format!("panic: {} scenario {:?}", msg, sc),
            replay,
        );
        return;
    }
    if r.setup_failed {
        rep.inconclusive("setup-failed(certificate generator)");
        return;
    }
    match r.status {
        Some(RunStatus::Done) => {}
        s => {
            rep.inconclusive(&format!("run-status-{:?}", s));
            return;
        }
    }
    if r.log.len() < b.steps.len() {
        rep.inconclusive("scenario-did-not-run-to-the-end");
        return;
    }
    let clean = sc.chaos == 0;

    // The set-up before the vanishing must have worked for the scenario to mean anything.
    let setup_ok = r.log.iter().take(b.vanish_at).all(|l| l.success);
    if !setup_ok {
        if clean {
            rep.violation(
                "setup",
                "C07/honest-setup-failed",
                format!("honest set-up failed: {:?}", r.log.iter().take(b.vanish_at).map(|l| (format!("{:?}", l.step), l.out.clone())).collect::<Vec<_>>()),
                replay.clone(),
            );
        } else {
            rep.inconclusive("setup-failed-under-faults");
        }
        return;
    }
    let before = &r.log[b.vanish_at - 1].dev;
    let Some(victim) = ident_of(before, if b.victim_is_a { 1 } else { 2 }) else {
        rep.inconclusive("victim-fabric-not-at-index-1");
        return;
    };
    let after = &r.log[b.vanish_at + 1].dev;
    let vanished = !after.fabric_ids.values().any(|i| *i == victim);
    rep.count(&format!("vanish:{:?}:{}", sc.vanish, if vanished { "gone" } else { "still-there" }));
    if !vanished {
        if clean {
            rep.violation(
                "vanish",
                &format!("C07/fabric-did-not-vanish/{:?}", sc.vanish),
                format!("the fabric is still there after {:?}: {:?}", sc.vanish, after.fabric_ids),
                replay.clone(),
            );
        } else {
            rep.inconclusive("vanish-step-failed-under-faults");
        }
        return;
    }

    // ---- I1 / I2: incarnation tracking over all snapshots ----
    let mut sess_birth: HashMap<(u32, u32), (u8, Ident)> = HashMap::new();
    let mut rec_birth: HashMap<(u8, u64, u64), Ident> = HashMap::new();
    for l in &r.log {
        let d = &l.dev;
        for s in &d.sessions {
            let SessionMode::Case { fab_idx, .. } = &s.mode else { continue };
            if s.reserved {
                continue;
            }
            let idx = fab_idx.get();
            let key = (l.incarnation, s.id);
            let now_ident = ident_of(d, idx);
            match sess_birth.get(&key) {
                None => {
                    if let Some(i) = now_ident {
                        sess_birth.insert(key, (idx, i));
                    } else if !s.expired {
                        rep.violation(
                            "I1-session-fabric-incarnation",
                            &format!("C07/I1/session-of-absent-fabric/after-{:?}", sc.vanish),
                            format!("step {} {:?}: the device holds a live CASE session (id {}, peer {:?}) for fabric index {} which designates no fabric", l.index, l.step, s.id, s.peer_nodeid, idx),
                            replay.clone(),
                        );
                    }
                }
                Some((_, born)) => {
                    rep.count("I1-checked");
                    if !s.expired && now_ident != Some(*born) {
                        rep.violation(
                            "I1-session-fabric-incarnation",
                            &format!(
                                "C07/I1/session-outlives-fabric/{}/after-{:?}",
                                if now_ident.is_some() { "index-reused-by-another-fabric" } else { "fabric-gone" },
                                sc.vanish
                            ),
                            format!(
                                "step {} {:?}: live CASE session id {} (peer {:?}) was created under fabric {:?} at index {}, which now holds {:?}; scenario {:?}",
                                l.index, l.step, s.id, s.peer_nodeid, born, idx, now_ident, sc
                            ),
                            replay.clone(),
                        );
                    }
                }
            }
        }
        for rec in &d.resumption {
            let now_ident = ident_of(d, rec.0);
            match rec_birth.get(rec) {
                None => {
                    if let Some(i) = now_ident {
                        rec_birth.insert(*rec, i);
                    } else {
                        rep.violation(
                            "I2-resumption-record-fabric-incarnation",
                            &format!("C07/I2/record-of-absent-fabric/after-{:?}", sc.vanish),
                            format!("step {} {:?}: resumption record for fabric index {} peer {:#x} designates no fabric", l.index, l.step, rec.0, rec.1),
                            replay.clone(),
                        );
                    }
                }
                Some(born) => {
                    rep.count("I2-checked");
                    if now_ident != Some(*born) {
                        rep.violation(
                            "I2-resumption-record-fabric-incarnation",
                            &format!(
                                "C07/I2/record-outlives-fabric/{}/after-{:?}",
                                if now_ident.is_some() { "index-reused-by-another-fabric" } else { "fabric-gone" },
                                sc.vanish
                            ),
                            format!(
                                "step {} {:?}: resumption record (fabric index {}, peer {:#x}) was created under fabric {:?}; the index now holds {:?}; scenario {:?}",
                                l.index, l.step, rec.0, rec.1, born, now_ident, sc
                            ),
                            replay.clone(),
                        );
                    }
                }
            }
        }
    }

    // ---- P1: stale session probes ----
    for i in &b.stale_probes {
        let l = &r.log[*i];
        rep.count("P1-checked");
        if l.success {
            rep.violation(
                "P1-old-session-unusable",
                &format!("C07/P1/request-over-old-session-answered/after-{:?}", sc.vanish),
                format!("step {} {:?}: a read over a session of the vanished fabric was answered with data; device fabrics {:?}; scenario {:?}", l.index, l.step, l.dev.fabric_ids, sc),
                replay.clone(),
            );
        } else {
            rep.count(&format!("P1-refused:{}", l.out));
        }
    }
    // ---- P2: CASE with the vanished fabric's credentials ----
    // "Succeeds" = the device ends up with a new CASE session for it, or a request over the
    // session the initiator believes it has is answered with data. (An initiator that merely
    // *believes* it resumed - it got a Sigma2Resume, but the device then dropped the attempt -
    // is noted.)
    for i in &b.stale_cases {
        let l = &r.log[*i];
        let probe = &r.log[*i + 1];
        rep.count("P2-checked");
        let prev_ids: Vec<u32> = r.log[*i - 1].dev.sessions.iter().map(|s| s.id).collect();
        let new_case_at_device = l.incarnation == r.log[*i - 1].incarnation
            && l.dev.sessions.iter().any(|s| {
                matches!(s.mode, SessionMode::Case { .. }) && !s.reserved && !prev_ids.contains(&s.id)
            });
        if new_case_at_device || probe.success {
            rep.violation(
                "P2-old-credentials-unusable",
                &format!(
                    "C07/P2/case-with-old-credentials-{}/after-{:?}",
                    if probe.success { "answered-with-data" } else { "created-session-at-device" },
                    sc.vanish
                ),
                format!("step {} {:?} -> {} then {:?} -> {}: CASE (resumption offered) with the credentials of the vanished fabric; device fabrics {:?} sessions {:?}; scenario {:?}",
                    l.index, l.step, l.out, probe.step, probe.out, l.dev.fabric_ids,
                    l.dev.sessions.iter().map(|s| (s.id, format!("{:?}", s.mode), s.peer_nodeid)).collect::<Vec<_>>(), sc),
                replay.clone(),
            );
        } else if l.success {
            rep.note("initiator-believes-case-resumed-but-device-dropped-the-attempt");
            rep.count("P2-refused:device-dropped-after-sigma2resume");
        } else {
            rep.count(&format!("P2-refused:{}", l.out));
        }
    }
    // ---- K: control ----
    for i in &b.controls {
        let l = &r.log[*i];
        rep.count("K-checked");
        if !l.success && clean {
            rep.violation(
                "K-other-fabric-unaffected",
                &format!("C07/K/survivor-fabric-unusable/after-{:?}", sc.vanish),
                format!("step {} {:?}: a read over a fresh session of the untouched fabric failed ({}); log tail {:?}", l.index, l.step, l.out,
                    r.log.iter().skip(b.vanish_at).map(|x| (format!("{:?}", x.step), x.out.clone())).collect::<Vec<_>>()),
                replay.clone(),
            );
        }
    }

    for v in &r.tap_violations {
        rep.violation(
            "C15-tap",
            &format!("C15/tap/{}", v.split(':').next().unwrap_or("x")),
            format!("passive nonce monitor: {} scenario {:?}", v, sc),
            replay.clone(),
        );
    }
}

pub fn run(ctx: &Ctx) -> Report {
    let mut rep = Report::new(
        "C07",
        "Histories in which a fabric vanishes (rollback by expiry / ArmFailSafe(0) / restart, RemoveFabric by own or other admin) after \
         CASE sessions and resumption records were created on it, optionally followed by another fabric taking its index; all scenarios \
         are non-trivial. distinct = (vanish kind, recommission, flush, restart-between, extra CASE rounds, outcome of every step).",
    );
    crate::util::quiet_panics();
    crate::util::init_log_from_env();
    rep.assumptions.push("fabric incarnation identity = (fabric id, node id, hash of root certificate); both fabrics deliberately use the same administrator and device node ids".into());
    rep.floor("P1-checked", 40);
    rep.floor("P2-checked", 40);
    rep.floor("I1-checked", 200);
    rep.floor("I2-checked", 200);
    rep.floor("K-checked", 10);

    if let Some(r) = &ctx.replay {
        let seed: u64 = r["shard_seed"].as_str().and_then(|s| s.parse().ok()).unwrap_or(0);
        let idx = r["index"].as_u64().unwrap_or(0);
        let mut rng = Rng::new(subseed(seed, &[idx]));
        let sc = gen_scenario(&mut rng);
        let b = build(&sc);
        let res = commis::run_world(&WorldParams { seed: sc.seed, steps: b.steps.clone(), shuffle: true, kv_fail_at: None, chaos: sc.chaos });
        rep.evaluations += 1;
        judge(&mut rep, &sc, &b, &res, r.clone());
        rep.max_samples = 80;
        rep.sample(json!({"scenario": format!("{:?}", sc)}));
        for l in &res.log {
            rep.sample(json!({"i": l.index, "step": format!("{:?}", l.step), "out": l.out, "inc": l.incarnation,
                "fabrics": format!("{:?}", l.dev.fabric_ids.iter().map(|(k,v)| (*k, v.0)).collect::<Vec<_>>()),
                "sessions": l.dev.sessions.iter().map(|s| format!("{}:{:?}:exp={}", s.id, s.mode, s.expired)).collect::<Vec<_>>(),
                "resumption": format!("{:?}", l.dev.resumption.iter().map(|r| (r.0, r.1)).collect::<Vec<_>>())}));
        }
        return rep;
    }

    let n = ctx.share(320, 16_000);
    let shard_seed = ctx.shard_seed();
    for k in 0..n {
        let idx = k * ctx.nshards + ctx.shard;
        let mut rng = Rng::new(subseed(shard_seed, &[idx]));
        let sc = gen_scenario(&mut rng);
        let b = build(&sc);
        let res = commis::run_world(&WorldParams { seed: sc.seed, steps: b.steps.clone(), shuffle: true, kv_fail_at: None, chaos: sc.chaos });
        rep.evaluations += 1;
        rep.interleavings.insert(res.sched);
        rep.count_n("datagrams_observed", res.datagrams);
        let rj = json!({"check":"C07","scenario": format!("{:?}", sc), "shard_seed": shard_seed.to_string(), "index": idx});
        judge(&mut rep, &sc, &b, &res, rj);
        let mut f = Fnv::new();
        f.add(format!("{:?}|{}|{}|{}|{}", sc.vanish, sc.recommission, sc.flush_before, sc.restart_between, sc.extra_case).as_bytes());
        for l in &res.log {
            f.add(l.out.as_bytes());
        }
        rep.distinct.insert(f.0);
        if k < 2 {
            rep.sample(json!({"scenario": format!("{:?}", sc), "steps": res.log.iter().map(|l| format!("{:?} -> {}", l.step, l.out)).collect::<Vec<_>>()}));
        }
    }
    rep
}
