//! C12 — durable counters never hand out the same value twice, across restarts too.
//!
//! Three counters, four drivers:
//!   * `group`   (hook)  : `Sessions::verif_reserve_group_data_ctr` + the harness playing the caller
//!                         (`Exchange::initiate_group`): store the boundary, then "use" the value.
//!   * `group`   (wire)  : real `Exchange::initiate_group` + `exchange.send` over `sim::net`; the value is read
//!                         from the plain header of the group datagram on the tap.
//!   * `events`          : real `InteractionModel` + `EventEmitter::emit_event`, restart = new state + `startup`.
//!   * `checkin`         : public `Icd` API, the harness playing an application that follows the documented
//!                         store obligations (plus two sloppy applications that are observed, not judged).
//!
//! A *history* is (stored boundary to start from, op script, optional crash point). Ops:
//! `use:n` (reserve / send / emit / check-in n times), `restart`, `fail-next-store` (the next mutating KV
//! operation fails), `invalidate:d` (check-in only). A crash point `(k, before|after)` kills the incarnation
//! at the k-th mutating KV operation of the history: *before* = the store did not happen (realised as a failed
//! store whose result nobody gets to see: the incarnation is dropped right there), *after* = the store
//! happened and the incarnation is dropped before anything else runs. Whatever the interrupted call would have
//! returned is never used.
//!
//! Oracle (from the statement, DESIGN §3 C12):
//!  (1) uniqueness   : over all incarnations of one store, no value is yielded twice;
//!  (2) coverage     : when a value is yielded (used on the wire / returned to the emitter / put into a
//!                     Check-In), the boundary that is durable *at that moment* covers it, i.e. a restart from
//!                     it resumes past the value (modular order, tolerance = half the counter range, so the
//!                     stride chosen by the implementation is not part of the oracle).

use std::collections::{BTreeSet, HashMap};
use std::panic::{catch_unwind, AssertUnwindSafe};

use serde_json::{json, Value};

use crate::report::{Ctx, Report};
use crate::sim::kv::{KvOp, KvOpKind};
use crate::sim::rng::{subseed, Fnv, Rng};

use super::{c12_checkin, c12_events, c12_group};

pub const GROUP_TOP: u64 = 0x0fff_ffff;
pub const GROUP_STRIDE: u32 = 1000;
pub const EVENT_STRIDE: u32 = 10_000;
/// Largest multiple of the event stride that fits in u64.
pub const EVENT_TOP_ALIGNED: u64 = 18_446_744_073_709_550_000;

#[derive(Clone, Copy, Debug, PartialEq, Eq, Hash)]
pub enum Kind {
    GroupHook,
    GroupWire,
    Events,
    CheckIn,
}

impl Kind {
    pub fn name(self) -> &'static str {
        match self {
            Kind::GroupHook => "group-hook",
            Kind::GroupWire => "group-wire",
            Kind::Events => "events",
            Kind::CheckIn => "checkin",
        }
    }
    pub fn counter(self) -> &'static str {
        match self {
            Kind::GroupHook | Kind::GroupWire => "group",
            Kind::Events => "events",
            Kind::CheckIn => "checkin",
        }
    }
    pub fn from_name(s: &str) -> Option<Kind> {
        Some(match s {
            "group-hook" => Kind::GroupHook,
            "group-wire" => Kind::GroupWire,
            "events" => Kind::Events,
            "checkin" => Kind::CheckIn,
            _ => return None,
        })
    }
    fn sig_suffix(self) -> &'static str {
        if self == Kind::GroupWire {
            "/on-wire"
        } else {
            ""
        }
    }
}

#[derive(Clone, Debug, PartialEq, Eq)]
pub enum Op {
    Use(u32),
    Restart,
    FailNextStore,
    Invalidate(u32),
}

#[derive(Clone, Copy, Debug, PartialEq, Eq)]
pub struct Crash {
    pub at_store: usize,
    pub after: bool,
}

#[derive(Clone, Debug)]
pub struct Hist {
    pub kind: Kind,
    /// Stored boundary the history starts from (`None` = key absent).
    pub start: Option<u64>,
    pub start_class: String,
    pub near_wrap: bool,
    /// events: write the initial blob as an 8-byte TLV integer instead of the minimal width.
    pub wide_tlv: bool,
    pub ops: Vec<Op>,
    pub crash: Option<Crash>,
    pub seed: u64,
    /// check-in: epoch the application uses.
    pub epoch: u32,
    /// check-in: the application's initial (random) counter on first boot.
    pub init: u32,
    /// check-in: 0 = application follows the documented obligations; 1 = ignores a failed
    /// `advance_counter`; 2 = does not persist right after `load_counter`. 1 and 2 are observed only.
    pub app: u8,
}

#[derive(Clone, Debug)]
pub struct Yield {
    pub value: u64,
    pub inc: u32,
    pub op: usize,
    /// Boundary held by the KV store at the moment the value was used.
    pub durable: Option<u64>,
    /// Number of mutating KV ops performed so far (index into the op log).
    pub mut_idx: usize,
    /// A store of a boundary failed earlier in this incarnation and none succeeded since.
    pub failed_pending: bool,
    /// The incarnation started without a stored key (counter seeded at random).
    pub reseeded: bool,
}

#[derive(Default, Debug)]
pub struct RunOut {
    pub yields: Vec<Yield>,
    pub stores: usize,
    pub failed_stores: usize,
    pub restarts: u32,
    pub crashed: bool,
    pub unused: u32,
    pub errors: u32,
    pub kvlog: Vec<KvOp>,
    pub panic: Option<String>,
    pub notes: Vec<String>,
    pub inconclusive: Option<String>,
    /// The driver's model stopped being faithful: observed, not judged (a note, not an inconclusive run).
    pub not_judged: Option<String>,
    pub trace: Vec<String>,
}

impl RunOut {
    pub fn t(&mut self, s: String) {
        if self.trace.len() < 60 {
            self.trace.push(s);
        } else if self.trace.len() == 60 {
            self.trace.push("…".into());
        }
    }
}

/// `covers(b, v)`: a restart that resumes from the stored boundary `b` is past `v`.
pub fn covers(kind: Kind, b: u64, v: u64) -> bool {
    match kind {
        Kind::GroupHook | Kind::GroupWire => {
            let d = (b as u32).wrapping_sub(v as u32) & (GROUP_TOP as u32);
            d >= 1 && d <= (1 << 27)
        }
        Kind::Events => {
            let d = b.wrapping_sub(v);
            d >= 1 && d <= (1 << 63)
        }
        Kind::CheckIn => {
            // A restart from `b` hands out `b + 1` first: `b` itself is covered.
            let d = (b as u32).wrapping_sub(v as u32);
            d <= (1 << 31)
        }
    }
}

pub fn ops_json(ops: &[Op]) -> Value {
    Value::Array(
        ops.iter()
            .map(|o| {
                Value::String(match o {
                    Op::Use(n) => format!("use:{}", n),
                    Op::Restart => "restart".into(),
                    Op::FailNextStore => "fail-next-store".into(),
                    Op::Invalidate(d) => format!("invalidate:{}", d),
                })
            })
            .collect(),
    )
}

fn ops_from_json(v: &Value) -> Vec<Op> {
    v.as_array()
        .map(|a| {
            a.iter()
                .filter_map(|e| {
                    let s = e.as_str()?;
                    Some(if let Some(n) = s.strip_prefix("use:") {
                        Op::Use(n.parse().ok()?)
                    } else if let Some(n) = s.strip_prefix("invalidate:") {
                        Op::Invalidate(n.parse().ok()?)
                    } else if s == "restart" {
                        Op::Restart
                    } else if s == "fail-next-store" {
                        Op::FailNextStore
                    } else {
                        return None;
                    })
                })
                .collect()
        })
        .unwrap_or_default()
}

pub fn hist_json(h: &Hist) -> Value {
    json!({
        "check": "C12",
        "kind": h.kind.name(),
        "start": h.start.map(|v| v.to_string()),
        "start_class": h.start_class,
        "near_wrap": h.near_wrap,
        "wide_tlv": h.wide_tlv,
        "ops": ops_json(&h.ops),
        "crash": h.crash.map(|c| json!({"at_store": c.at_store, "after": c.after})),
        "seed": h.seed.to_string(),
        "epoch": h.epoch,
        "init": h.init,
        "app": h.app,
    })
}

fn hist_from_json(r: &Value) -> Option<Hist> {
    Some(Hist {
        kind: Kind::from_name(r["kind"].as_str()?)?,
        start: r["start"].as_str().and_then(|s| s.parse().ok()),
        start_class: r["start_class"].as_str().unwrap_or("replay").to_string(),
        near_wrap: r["near_wrap"].as_bool().unwrap_or(false),
        wide_tlv: r["wide_tlv"].as_bool().unwrap_or(false),
        ops: ops_from_json(&r["ops"]),
        crash: r["crash"].as_object().map(|c| Crash {
            at_store: c["at_store"].as_u64().unwrap_or(0) as usize,
            after: c["after"].as_bool().unwrap_or(false),
        }),
        seed: r["seed"].as_str().and_then(|s| s.parse().ok()).unwrap_or(1),
        epoch: r["epoch"].as_u64().unwrap_or(10) as u32,
        init: r["init"].as_u64().unwrap_or(0) as u32,
        app: r["app"].as_u64().unwrap_or(0) as u8,
    })
}

pub fn run_hist(h: &Hist) -> RunOut {
    let r = catch_unwind(AssertUnwindSafe(|| match h.kind {
        Kind::GroupHook => c12_group::run_hook(h),
        Kind::GroupWire => c12_group::run_wire(h),
        Kind::Events => c12_events::run(h),
        Kind::CheckIn => c12_checkin::run(h),
    }));
    match r {
        Ok(o) => o,
        Err(e) => RunOut {
            panic: Some(crate::util::panic_msg(&e)),
            ..Default::default()
        },
    }
}

fn stride_of(h: &Hist) -> u32 {
    match h.kind {
        Kind::GroupHook | Kind::GroupWire => GROUP_STRIDE,
        Kind::Events => EVENT_STRIDE,
        Kind::CheckIn => h.epoch.max(1),
    }
}

/// Why a value went out uncovered (class for the signature, no raw values).
fn uncovered_class(h: &Hist, o: &RunOut, y: &Yield) -> String {
    if y.failed_pending {
        return "after-failed-store".into();
    }
    match y.durable {
        None => "key-absent".into(),
        Some(b) => {
            // was the durable value written by the device during this history (vs. the initial blob)?
            let by_device = o
                .kvlog
                .iter()
                .any(|op| op.kind == KvOpKind::Store && !op.failed && op.mut_index <= y.mut_idx);
            if h.kind == Kind::Events && b % (EVENT_STRIDE as u64) != 0 {
                if by_device {
                    "stored-epoch-unaligned/written-by-device-at-wrap".into()
                } else {
                    "stored-epoch-unaligned/initial-blob".into()
                }
            } else {
                "no-store-demanded".into()
            }
        }
    }
}

fn witness(h: &Hist, o: &RunOut) -> String {
    let mut s = String::new();
    s.push_str(&format!(
        "history: counter={} start={:?} ({}) ops={} crash={:?} epoch={} app={}\n",
        h.kind.name(),
        h.start,
        h.start_class,
        ops_json(&h.ops),
        h.crash,
        h.epoch,
        h.app
    ));
    for l in &o.trace {
        s.push_str("  ");
        s.push_str(l);
        s.push('\n');
    }
    s.push_str("KV log (mutating ops): ");
    let mut n = 0;
    for op in &o.kvlog {
        if op.kind == KvOpKind::Load {
            continue;
        }
        n += 1;
        if n > 24 {
            s.push_str("…");
            break;
        }
        s.push_str(&format!(
            "[#{} {:?} key={} val={}{}] ",
            op.mut_index,
            op.kind,
            op.key,
            op.value.as_ref().map(|v| crate::util::hex(v)).unwrap_or_default(),
            if op.failed { " FAILED" } else { "" }
        ));
    }
    s
}

#[allow(dead_code)]
pub struct Verdict {
    pub violated: bool,
}

pub fn judge(rep: &mut Report, h: &Hist, o: &RunOut, replay: &Value) -> Verdict {
    let judged = !(h.kind == Kind::CheckIn && h.app != 0);
    let ctr = if judged { h.kind.counter() } else { "checkin(sloppy-app,observed-only)" };
    let sfx = h.kind.sig_suffix();
    let mut violated = false;
    let mut emitted: BTreeSet<String> = BTreeSet::new();

    if let Some(p) = &o.panic {
        let sig = format!("C12/{}/panic/{}{}", ctr, crate::util::panic_class(p), sfx);
        rep.violation(
            "no-panic",
            &sig,
            format!("panic while driving the {} counter: {}\n{}", ctr, p, witness(h, o)),
            replay.clone(),
        );
        return Verdict { violated: true };
    }
    if let Some(w) = &o.inconclusive {
        rep.inconclusive(&format!("{}:{}", h.kind.name(), w));
        return Verdict { violated: false };
    }
    for n in &o.notes {
        rep.note(&format!("{}:{}", h.kind.name(), n));
    }
    if let Some(w) = &o.not_judged {
        rep.note(&format!("{}:not-judged:{}", h.kind.name(), w));
        rep.count(&format!("runs_not_judged:{}", h.kind.name()));
        return Verdict { violated: false };
    }

    let mut seen: HashMap<u64, usize> = HashMap::new();
    for (i, y) in o.yields.iter().enumerate() {
        // (2) coverage before use
        let cov = y.durable.map_or(false, |b| covers(h.kind, b, y.value));
        if cov {
            rep.count(&format!("rule:{}/covered", ctr));
        } else {
            let class = uncovered_class(h, o, y);
            rep.count(&format!("rule:{}/uncovered/{}", ctr, class));
            let sig = format!("C12/{}/uncovered-value/{}{}", ctr, class, sfx);
            if !judged {
                rep.note(&format!("checkin-sloppy-app{}/uncovered-value/{}", h.app, class));
            } else if emitted.insert(sig.clone()) {
                violated = true;
                rep.violation(
                    "coverage-before-use",
                    &sig,
                    format!(
                        "value {} was used (incarnation {}, op #{}) while the durable boundary was {:?}: no stored boundary covers it, \
                         so a restart at this point resumes at or before it. The statement requires a covering boundary to be stored durably before use.\n{}",
                        y.value, y.inc, y.op, y.durable, witness(h, o)
                    ),
                    replay.clone(),
                );
            }
        }

        // (1) uniqueness
        match seen.get(&y.value) {
            None => {
                seen.insert(y.value, i);
            }
            Some(&j) => {
                let first = &o.yields[j];
                if y.reseeded && first.inc < y.inc {
                    // Random re-seed because the key never became durable: a collision is chance, and the
                    // values it collides with were already reported as uncovered.
                    rep.note(&format!("{}:duplicate-after-random-reseed", h.kind.name()));
                    continue;
                }
                let first_cov = first.durable.map_or(false, |b| covers(h.kind, b, first.value));
                let rule = if first.inc == y.inc {
                    "duplicate-within-one-run".to_string()
                } else if !first_cov && first.failed_pending {
                    "duplicate-after-failed-store".to_string()
                } else if !first_cov {
                    format!("duplicate-after-restart/{}", uncovered_class(h, o, first))
                } else {
                    "duplicate-after-restart/first-use-was-covered".to_string()
                };
                rep.count(&format!("rule:{}/{}", ctr, rule));
                let sig = format!("C12/{}/{}{}", ctr, rule, sfx);
                if !judged {
                    rep.note(&format!("checkin-sloppy-app{}/{}", h.app, rule));
                } else if emitted.insert(sig.clone()) {
                    violated = true;
                    rep.violation(
                        "uniqueness",
                        &sig,
                        format!(
                            "value {} was yielded twice: incarnation {} (op #{}, durable boundary then {:?}) and again incarnation {} (op #{}). \
                             The history yields {} values in total, far fewer than the counter's range.\n{}",
                            y.value, first.inc, first.op, first.durable, y.inc, y.op, o.yields.len(), witness(h, o)
                        ),
                        replay.clone(),
                    );
                }
            }
        }
    }
    Verdict { violated }
}

// ---------------------------------------------------------------------------------------------
// generation

fn gen_start(kind: Kind, rng: &mut Rng) -> (Option<u64>, String, bool) {
    match kind {
        Kind::GroupHook | Kind::GroupWire => match rng.below(20) {
            0 | 1 => (None, "absent".into(), false),
            2 => (Some(0), "zero".into(), false),
            3 => (Some(1), "one".into(), false),
            4 | 5 | 6 => (Some(rng.range(2000, GROUP_TOP - 5000)), "mid".into(), false),
            7..=11 => (Some(GROUP_TOP - rng.below(1501)), "near-top".into(), true),
            12 => (Some(GROUP_TOP), "top".into(), true),
            13 | 14 => (
                Some(GROUP_TOP + 1 - GROUP_STRIDE as u64 + rng.below(5) - 2),
                "one-stride-below-top".into(),
                true,
            ),
            15 | 16 => (Some(rng.range(2, 1500)), "small".into(), false),
            17 => (Some(GROUP_TOP - 2 * GROUP_STRIDE as u64 + rng.below(5) - 2), "two-strides-below-top".into(), true),
            _ => {
                let v = match rng.below(3) {
                    0 => GROUP_TOP + 1,
                    1 => u32::MAX as u64 - rng.below(1501),
                    _ => rng.range(GROUP_TOP + 1, u32::MAX as u64),
                };
                (Some(v), "beyond-28-bit".into(), false)
            }
        },
        Kind::Events => match rng.below(20) {
            0 | 1 => (None, "absent".into(), false),
            2 => (Some(0), "zero".into(), false),
            3 => (Some(1), "one".into(), false),
            4..=7 => (
                Some(rng.range(1, 1_000_000_000) * EVENT_STRIDE as u64),
                "mid-aligned".into(),
                false,
            ),
            8 | 9 => (
                Some(rng.range(1, 1_000_000) * EVENT_STRIDE as u64 + rng.range(1, 9999)),
                "mid-unaligned".into(),
                false,
            ),
            10 => (Some(rng.range(2, 9999)), "small-unaligned".into(), false),
            11 | 12 | 13 => (Some(u64::MAX - rng.below(1501)), "near-top-unaligned".into(), true),
            14 | 15 | 16 => (Some(EVENT_TOP_ALIGNED), "top-aligned".into(), true),
            17 => (Some(u64::MAX), "top".into(), true),
            18 => (
                Some(EVENT_TOP_ALIGNED - EVENT_STRIDE as u64),
                "one-stride-below-top-aligned".into(),
                true,
            ),
            _ => (Some(EVENT_TOP_ALIGNED - 5 * EVENT_STRIDE as u64), "near-top-aligned".into(), true),
        },
        Kind::CheckIn => match rng.below(16) {
            0 | 1 | 2 => (None, "absent".into(), false),
            3 => (Some(0), "zero".into(), false),
            4 => (Some(1), "one".into(), false),
            5..=8 => (Some(rng.range(2, u32::MAX as u64 - 5000)), "mid".into(), false),
            9..=13 => (Some(u32::MAX as u64 - rng.below(1501)), "near-top".into(), true),
            _ => (Some(u32::MAX as u64), "top".into(), true),
        },
    }
}

fn gen_use(kind: Kind, stride: u32, rng: &mut Rng) -> u32 {
    let s = stride.max(1);
    let r = rng.below(100);
    let around = |rng: &mut Rng| (s as i64 + rng.below(7) as i64 - 3).max(1) as u32;
    match kind {
        Kind::GroupHook => match r {
            0..=54 => 1 + rng.below(5) as u32,
            55..=74 => around(rng),
            75..=89 => 6 + rng.below(s as u64) as u32,
            _ => s + rng.below(s as u64 + 10) as u32,
        },
        Kind::GroupWire => match r {
            0..=79 => 1 + rng.below(5) as u32,
            80..=93 => 6 + rng.below(30) as u32,
            _ => around(rng),
        },
        Kind::Events => match r {
            0..=79 => 1 + rng.below(5) as u32,
            80..=92 => 6 + rng.below(300) as u32,
            93..=96 => around(rng),
            _ => s + rng.below(s as u64 / 2) as u32,
        },
        Kind::CheckIn => {
            // keep the number of stores per history moderate: n <= 12 epochs
            let cap = s.saturating_mul(12).max(5);
            let n = match r {
                0..=49 => 1 + rng.below(5) as u32,
                50..=74 => around(rng),
                75..=89 => 1 + rng.below(s as u64 * 2 + 4) as u32,
                _ => s + rng.below(s as u64 * 3 + 10) as u32,
            };
            n.min(cap)
        }
    }
}

pub fn gen_hist(kind: Kind, rng: &mut Rng) -> Hist {
    let (start, start_class, near_wrap) = gen_start(kind, rng);
    let epoch = if kind == Kind::CheckIn {
        *rng.pick(&[1u32, 2, 3, 10, 10, 100, 1000])
    } else {
        0
    };
    let app = if kind == Kind::CheckIn {
        match rng.below(10) {
            0 => 1,
            1 => 2,
            _ => 0,
        }
    } else {
        0
    };
    let init = if kind == Kind::CheckIn {
        match rng.below(3) {
            0 => u32::MAX - rng.below(1501) as u32,
            _ => rng.u32(),
        }
    } else {
        0
    };
    let mut h = Hist {
        kind,
        start,
        start_class,
        near_wrap,
        wide_tlv: rng.bool(),
        ops: vec![],
        crash: None,
        seed: rng.u64(),
        epoch,
        init,
        app,
    };
    let stride = stride_of(&h);
    let len = match rng.below(10) {
        0..=6 => 2 + rng.usize(7),
        7 | 8 => 9 + rng.usize(4),
        _ => 13 + rng.usize(12),
    };
    for _ in 0..len {
        let r = rng.below(100);
        let op = if r < 50 {
            Op::Use(gen_use(kind, stride, rng))
        } else if r < 75 {
            Op::Restart
        } else if r < 90 {
            Op::FailNextStore
        } else if kind == Kind::CheckIn {
            Op::Invalidate(match rng.below(4) {
                0 => 1,
                1 => rng.below(stride as u64 + 2) as u32,
                2 => stride + rng.below(3) as u32,
                _ => rng.below(stride as u64 * 3 + 5) as u32,
            })
        } else {
            Op::Use(1)
        };
        h.ops.push(op);
    }
    // always end with a use so that the effect of the last restart / failure is observed
    h.ops.push(Op::Use(1 + rng.below(3) as u32));
    h
}

/// The fixed representative starts used by the exhaustive small-script phase.
fn exhaustive_starts(kind: Kind) -> Vec<(Option<u64>, &'static str, bool)> {
    match kind {
        Kind::GroupHook | Kind::GroupWire => vec![
            (None, "absent", false),
            (Some(0), "zero", false),
            (Some(1), "one", false),
            (Some(123_456), "mid", false),
            (Some(GROUP_TOP - 1), "near-top", true),
            (Some(GROUP_TOP), "top", true),
            (Some(GROUP_TOP + 1 - GROUP_STRIDE as u64), "one-stride-below-top", true),
            (Some(GROUP_TOP - 500), "near-top", true),
            (Some(u32::MAX as u64 - 3), "beyond-28-bit", false),
        ],
        Kind::Events => vec![
            (None, "absent", false),
            (Some(0), "zero", false),
            (Some(1), "one", false),
            (Some(70_000), "mid-aligned", false),
            (Some(12_345), "mid-unaligned", false),
            (Some(u64::MAX - 1), "near-top-unaligned", true),
            (Some(EVENT_TOP_ALIGNED), "top-aligned", true),
            (Some(u64::MAX), "top", true),
            (Some(9_998), "small-unaligned", false),
        ],
        Kind::CheckIn => vec![
            (None, "absent", false),
            (Some(0), "zero", false),
            (Some(1), "one", false),
            (Some(5_000), "mid", false),
            (Some(u32::MAX as u64 - 1), "near-top", true),
            (Some(u32::MAX as u64), "top", true),
        ],
    }
}

fn exhaustive_alphabet(kind: Kind) -> Vec<Op> {
    match kind {
        Kind::GroupHook => vec![Op::Use(1), Op::Use(2), Op::Use(GROUP_STRIDE), Op::Restart, Op::FailNextStore],
        Kind::GroupWire => vec![Op::Use(1), Op::Use(2), Op::Restart, Op::FailNextStore],
        Kind::Events => vec![Op::Use(1), Op::Use(2), Op::Use(3), Op::Restart, Op::FailNextStore],
        Kind::CheckIn => vec![Op::Use(1), Op::Use(2), Op::Use(3), Op::Restart, Op::FailNextStore],
    }
}

fn shape_hash(h: &Hist) -> (u64, bool) {
    let stride = stride_of(h) as u64;
    let mut f = Fnv::new();
    f.add(h.kind.name().as_bytes());
    f.add(h.start_class.as_bytes());
    f.add(&[h.app, (h.epoch.min(255)) as u8]);
    let mut nontrivial = h.crash.is_some();
    for o in &h.ops {
        match o {
            Op::Use(n) => {
                let n = *n as u64;
                let b: u8 = if n == 1 {
                    1
                } else if n <= 5 {
                    2
                } else if n + 3 < stride {
                    3
                } else if n <= stride + 3 {
                    4
                } else {
                    5
                };
                f.add(&[b'u', b]);
            }
            Op::Restart => {
                nontrivial = true;
                f.add(b"r");
            }
            Op::FailNextStore => {
                nontrivial = true;
                f.add(b"f");
            }
            Op::Invalidate(d) => {
                f.add(&[b'i', if (*d as u64) < stride { 0 } else { 1 }]);
            }
        }
    }
    if let Some(c) = h.crash {
        f.add(&[b'c', c.after as u8]);
        f.add_u64(c.at_store as u64);
    }
    (f.0, nontrivial)
}

struct Tally {
    samples: u32,
}

/// Run one base history and (if short enough) every crash point of it.
fn run_base(rep: &mut Report, h: &Hist, origin: &str, shard_seed: u64, index: u64, rng: &mut Rng, tally: &mut Tally) {
    let mk_replay = |h: &Hist| {
        let mut j = hist_json(h);
        j["origin"] = json!(origin);
        j["shard_seed"] = json!(shard_seed.to_string());
        j["index"] = json!(index);
        j
    };

    let base = run_hist(h);
    account(rep, h, &base);
    let rj = mk_replay(h);
    judge(rep, h, &base, &rj);
    if tally.samples < 4 && !base.yields.is_empty() && base.restarts > 0 {
        tally.samples += 1;
        rep.sample(json!({
            "history": rj,
            "values_yielded": base.yields.len(),
            "first_values": base.yields.iter().take(6).map(|y| y.value.to_string()).collect::<Vec<_>>(),
            "kv_stores": base.stores, "failed_stores": base.failed_stores, "restarts": base.restarts,
            "trace": base.trace.iter().take(12).collect::<Vec<_>>(),
        }));
    }

    let k = base.stores;
    if k == 0 || base.panic.is_some() {
        return;
    }
    let exhaustive = h.ops.len() <= 12 && k <= 4000;
    let points: Vec<(usize, bool)> = if exhaustive {
        (1..=k).flat_map(|i| [(i, false), (i, true)]).collect()
    } else {
        rep.count("histories_crash_points_sampled_not_exhaustive");
        (0..6).map(|_| (1 + rng.usize(k), rng.bool())).collect()
    };
    if exhaustive {
        rep.count("histories_crash_points_exhaustive");
    }
    for (at, after) in points {
        let mut hc = h.clone();
        hc.crash = Some(Crash { at_store: at, after });
        let o = run_hist(&hc);
        account(rep, &hc, &o);
        if o.crashed {
            rep.count(if exhaustive {
                "crash_points_enumerated"
            } else {
                "crash_points_sampled"
            });
            rep.count(if after {
                "histories_with_crash_after_store"
            } else {
                "histories_with_crash_before_store"
            });
        } else {
            rep.count("crash_point_not_reached");
        }
        let rj = mk_replay(&hc);
        judge(rep, &hc, &o, &rj);
    }
}

fn account(rep: &mut Report, h: &Hist, o: &RunOut) {
    rep.evaluations += 1;
    let (sh, nt) = shape_hash(h);
    if nt {
        rep.distinct.insert(sh);
    }
    rep.count(&format!("runs:{}", h.kind.name()));
    rep.count_n(&format!("values_yielded:{}", h.kind.name()), o.yields.len() as u64);
    rep.count_n(&format!("kv_stores:{}", h.kind.name()), o.stores as u64);
    rep.count_n("values_reserved_but_unused", o.unused as u64);
    if o.restarts > 0 || o.crashed {
        rep.count("histories_with_restart");
    }
    let crash_fail = if o.crashed && matches!(h.crash, Some(c) if !c.after) { 1 } else { 0 };
    if o.failed_stores > crash_fail {
        rep.count("histories_with_failed_store");
        rep.count_n("injected_store_failures", (o.failed_stores - crash_fail) as u64);
    }
    if h.near_wrap {
        rep.count("histories_starting_next_to_wrap");
        rep.count(&format!("near_wrap:{}", h.kind.name()));
    }
    if o.yields.iter().any(|y| y.value < 3) && h.near_wrap {
        rep.count("histories_that_crossed_the_wrap");
    }
    rep.count(&format!("start:{}/{}", h.kind.counter(), h.start_class));
    if h.kind == Kind::CheckIn {
        rep.count(&format!("checkin_app_variant:{}", h.app));
    }
}

pub fn run(ctx: &Ctx) -> Report {
    let mut rep = Report::new(
        "C12",
        "History = (stored boundary to start from, op script over {use×n, restart, fail-next-store, invalidate}, crash point (k-th KV store, before|after)). \
         Non-trivial = contains a restart, a crash point or a failed store. distinct = hash(counter driver, start-boundary class, op-script shape \
         (use sizes bucketed 1 / 2-5 / <stride / ≈stride / >stride), crash point).",
    );
    crate::util::quiet_panics();
    rep.assumptions.push("KvBlobStore contract: each store/remove is atomic and durable when it returns; a crash 'before store k' is realised as store k not happening and the incarnation being dropped on the spot, 'after store k' as the incarnation being dropped right after the store returned".into());
    rep.assumptions.push("covers(b, v): v precedes b in modular order by at most half the counter range (group: 28-bit ring, 0 skipped; events: u64; check-in: u32 with b itself covered because a restart hands out b+1 first) - the stride is not part of the oracle".into());
    rep.assumptions.push("group counter, hook level: the harness plays Exchange::initiate_group (store the returned boundary; on failure the reserved value is not used and the reservation stays in place - probed against the real initiate_group at start; if the real caller behaves differently, hook-level histories with an injected store failure are recorded as not judged (note) and the wire level is authoritative); wire level: real initiate_group + send, value read from the datagram's plain header".into());
    rep.assumptions.push("check-in: judged only for an application that persists right after load_counter (as CheckInCounter::new / Icd::new document), re-persists via persist_counter before any further Check-In when advance_counter failed, and persists right after invalidate_counter returned true; sloppy applications are recorded as notes".into());
    rep.assumptions.push("uniqueness after a random re-seed (key never became durable) is not asserted: recorded as a note".into());
    rep.assumptions.push("histories yield at most a few ten thousand values: never a full lap of any counter".into());

    if let Some(r) = &ctx.replay {
        match hist_from_json(r) {
            Some(h) => {
                let o = run_hist(&h);
                account(&mut rep, &h, &o);
                judge(&mut rep, &h, &o, r);
                rep.sample(json!({
                    "history": hist_json(&h),
                    "values": o.yields.iter().take(40).map(|y| json!({"v": y.value.to_string(), "inc": y.inc, "op": y.op, "durable": y.durable.map(|d| d.to_string()), "after_failed_store": y.failed_pending})).collect::<Vec<_>>(),
                    "trace": o.trace, "stores": o.stores, "failed_stores": o.failed_stores, "crashed": o.crashed,
                    "kvlog": o.kvlog.iter().filter(|k| k.kind != KvOpKind::Load).take(40).map(|k| json!({"i": k.mut_index, "kind": format!("{:?}", k.kind), "key": k.key, "val": k.value.as_ref().map(|v| crate::util::hex(v)), "failed": k.failed})).collect::<Vec<_>>(),
                }));
            }
            None => rep.inconclusive("replay-json-not-understood"),
        }
        return rep;
    }

    let thorough = ctx.thorough;
    let q = |quick: u64, thorough_v: u64| if thorough { thorough_v } else { quick };
    for (k, min) in [
        ("histories_with_restart", q(15_000, 300_000)),
        ("histories_with_crash_before_store", q(6_000, 120_000)),
        ("histories_with_crash_after_store", q(6_000, 120_000)),
        ("histories_with_failed_store", q(4_000, 80_000)),
        ("histories_starting_next_to_wrap", q(6_000, 120_000)),
        ("histories_that_crossed_the_wrap", q(1_000, 20_000)),
        ("crash_points_enumerated", q(12_000, 240_000)),
        ("values_yielded:group-hook", q(4_000_000, 80_000_000)),
        ("values_yielded:group-wire", q(100_000, 2_000_000)),
        ("values_yielded:events", q(4_000_000, 80_000_000)),
        ("values_yielded:checkin", q(600_000, 12_000_000)),
        ("rule:group/covered", q(3_000_000, 60_000_000)),
        ("rule:events/covered", q(3_000_000, 60_000_000)),
        ("rule:checkin/covered", q(500_000, 10_000_000)),
    ] {
        rep.floor(k, ((min as f64) * ctx.scale.min(1.0)).ceil() as u64);
    }

    match c12_group::caller_keeps_reservation_after_failed_store() {
        Some(true) => rep.count("probe:real-initiate_group-keeps-reservation-after-failed-store=yes(hook-level-caller-model-faithful)"),
        Some(false) => rep.count("probe:real-initiate_group-keeps-reservation-after-failed-store=no(hook-level-histories-with-failed-store-not-judged)"),
        None => rep.count("probe:real-initiate_group-after-failed-store=unknown(hook-level-histories-with-failed-store-not-judged)"),
    }

    let shard_seed = ctx.shard_seed();
    let mut tally = Tally { samples: 0 };
    let mut aux = Rng::new(subseed(shard_seed, &[0xC12]));

    // Phase A: every op script of length <= L over a small alphabet, from every representative start,
    // with every crash point. Sharded by running index. Runs first so that the shortest witnesses are kept.
    let max_len = if thorough { 4 } else { 3 };
    let max_len = if ctx.scale < 1.0 { 2 } else { max_len };
    let mut running: u64 = 0;
    for kind in [Kind::GroupHook, Kind::Events, Kind::CheckIn, Kind::GroupWire] {
        let alpha = exhaustive_alphabet(kind);
        let starts = exhaustive_starts(kind);
        let max_len = if kind == Kind::GroupWire { max_len.min(3) } else { max_len };
        for len in 1..=max_len {
            let total = (alpha.len() as u64).pow(len as u32);
            for code in 0..total {
                // scripts that contain no `use` yield nothing: skip
                let mut c = code;
                let mut ops = Vec::with_capacity(len + 1);
                for _ in 0..len {
                    ops.push(alpha[(c % alpha.len() as u64) as usize].clone());
                    c /= alpha.len() as u64;
                }
                if !ops.iter().any(|o| matches!(o, Op::Use(_))) {
                    continue;
                }
                // observe the effect of a trailing restart / failure
                if !matches!(ops.last(), Some(Op::Use(_))) {
                    ops.push(Op::Use(2));
                }
                for (si, (start, class, near)) in starts.iter().enumerate() {
                    running += 1;
                    if running % ctx.nshards != ctx.shard {
                        continue;
                    }
                    let h = Hist {
                        kind,
                        start: *start,
                        start_class: class.to_string(),
                        near_wrap: *near,
                        wide_tlv: (code + si as u64) % 2 == 0,
                        ops: ops.clone(),
                        crash: None,
                        seed: subseed(ctx.seed, &[running]),
                        epoch: if kind == Kind::CheckIn { 3 } else { 0 },
                        init: if si % 2 == 0 { u32::MAX - 1 } else { 1000 },
                        app: 0,
                    };
                    rep.count("histories:exhaustive-small-scripts");
                    rep.count(&format!("histories:{}", kind.name()));
                    run_base(&mut rep, &h, "exhaustive", shard_seed, running, &mut aux, &mut tally);
                }
            }
        }
    }

    // Phase B: random histories, replayable by (shard_seed, index).
    let n = ctx.share(5_000, 500_000);
    for i in 0..n {
        let idx = i * ctx.nshards + ctx.shard;
        let mut rng = Rng::new(subseed(shard_seed, &[idx]));
        let kind = match rng.below(100) {
            0..=29 => Kind::GroupHook,
            30..=49 => Kind::GroupWire,
            50..=74 => Kind::Events,
            _ => Kind::CheckIn,
        };
        let h = gen_hist(kind, &mut rng);
        rep.count("histories:random");
        rep.count(&format!("histories:{}", kind.name()));
        run_base(&mut rep, &h, "random", shard_seed, idx, &mut rng, &mut tally);
    }

    rep
}
