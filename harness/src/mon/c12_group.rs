//! C12 drivers for the global group data message counter (hook level and wire level).

use core::num::NonZeroU8;
use std::cell::RefCell;
use std::rc::Rc;

use rs_matter::crypto::{CanonAeadKey, Crypto};
use rs_matter::error::Error;
use rs_matter::fabric::{FabricPersist, GroupKeyMapping};
use rs_matter::group_keys::{GroupEpochKeyEntry, GroupKeySet};
use rs_matter::persist::{KvBlobStoreAccess, GROUP_DATA_COUNTER_KEY};
use rs_matter::transport::exchange::{Exchange, MessageMeta};
use rs_matter::utils::storage::Vec as MVec;

use crate::sim::exec::{self, BoxFut, Limits, RunStatus};
use crate::sim::kv::{KvMap, KvOpKind, SimKv};
use crate::sim::net::NetHub;
use crate::sim::node::{self, FabricCa};
use crate::sim::rng::{subseed, Rng};
use crate::sim::{clock, wire};

use super::c12::{Hist, Op, RunOut, Yield};

pub const GROUP_ID: u16 = 0x0101;
const KEY_SET_ID: u16 = 42;

fn initial_map(base: &KvMap, start: Option<u64>) -> KvMap {
    let mut m = base.clone();
    if let Some(b) = start {
        // Encoding read from `Sessions::load_persist`: 4 bytes little endian.
        m.insert(GROUP_DATA_COUNTER_KEY, (b as u32).to_le_bytes().to_vec());
    }
    m
}

fn durable(kv: &SimKv) -> Option<u64> {
    kv.get(GROUP_DATA_COUNTER_KEY)
        .and_then(|v| <[u8; 4]>::try_from(v.as_slice()).ok())
        .map(|b| u32::from_le_bytes(b) as u64)
}

fn finish(out: &mut RunOut, kv: &SimKv) {
    out.kvlog = kv.log();
    out.stores = kv.mut_count();
    out.failed_stores = out
        .kvlog
        .iter()
        .filter(|o| o.kind != KvOpKind::Load && o.failed)
        .count();
}

fn summarize(out: &mut RunOut, inc: u32, op_i: usize, op: &Op, from: usize) {
    let ys = &out.yields[from..];
    let line = if ys.is_empty() {
        format!("inc {} op#{} {:?}: no value used", inc, op_i, op)
    } else {
        format!(
            "inc {} op#{} {:?}: used {} value(s) {}..={} (durable boundary at first use {:?}, at last use {:?})",
            inc,
            op_i,
            op,
            ys.len(),
            ys[0].value,
            ys[ys.len() - 1].value,
            ys[0].durable,
            ys[ys.len() - 1].durable
        )
    };
    out.t(line);
}

/// Hook level: the harness is `Exchange::initiate_group`.
pub fn run_hook(h: &Hist) -> RunOut {
    let mut out = RunOut::default();
    let kv = SimKv::from_map(initial_map(&KvMap::new(), h.start), true);
    let crypto = node::crypto(Rng::new(h.seed));
    let mut op_i = 0usize;
    let mut inc = 0u32;

    'life: loop {
        let matter = node::new_matter();
        let reseeded = kv.get(GROUP_DATA_COUNTER_KEY).is_none();
        if let Err(e) = matter.startup(matter.kv(kv.clone())) {
            out.inconclusive = Some(format!("startup-error-{:?}", e.code()));
            break;
        }
        let (next, bnd) = matter.with_state(|s| s.verif_sessions().verif_group_data_ctr());
        out.t(format!(
            "inc {} startup: stored boundary {:?} -> counter next={} boundary={}",
            inc,
            durable(&kv),
            next,
            bnd
        ));
        let mut failed_pending = false;
        while op_i < h.ops.len() {
            let op = h.ops[op_i].clone();
            let this_op = op_i;
            op_i += 1;
            match op {
                Op::Restart => {
                    out.restarts += 1;
                    inc += 1;
                    out.t(format!("inc {} op#{} restart", inc - 1, this_op));
                    continue 'life;
                }
                Op::FailNextStore => {
                    kv.fail_at(Some(kv.mut_count() + 1));
                }
                Op::Invalidate(_) => {}
                Op::Use(n) => {
                    let from = out.yields.len();
                    for _ in 0..n {
                        let r = matter.with_state(|s| {
                            s.verif_sessions_mut().verif_reserve_group_data_ctr(&crypto)
                        });
                        let (v, b) = match r {
                            Ok(x) => x,
                            Err(_) => {
                                out.errors += 1;
                                break;
                            }
                        };
                        if let Some(b) = b {
                            let k = kv.mut_count() + 1;
                            let crash = h.crash.filter(|c| c.at_store == k);
                            if matches!(crash, Some(c) if !c.after) {
                                kv.fail_at(Some(k));
                            }
                            let res: Result<(), Error> = matter.kv(kv.clone()).access(|s, buf| {
                                s.store(GROUP_DATA_COUNTER_KEY, &b.to_le_bytes(), buf)
                            });
                            if let Some(c) = crash {
                                summarize(&mut out, inc, this_op, &op, from);
                                out.t(format!(
                                    "inc {} CRASH {} store #{} (boundary {}, reserved value {} never used)",
                                    inc,
                                    if c.after { "after" } else { "before" },
                                    k,
                                    b,
                                    v
                                ));
                                out.crashed = true;
                                out.unused += 1;
                                inc += 1;
                                continue 'life;
                            }
                            if res.is_err() {
                                // `initiate_group` returns the error: the value never reaches the wire.
                                // The hook driver re-implements the caller; it is only faithful while the
                                // real caller leaves the reservation in place after a failed store (probed).
                                if caller_keeps_reservation_after_failed_store() != Some(true) {
                                    out.not_judged = Some(
                                        "hook-level-caller-model-differs-from-real-initiate_group-after-failed-store(wire-level-is-authoritative)".into(),
                                    );
                                    break 'life;
                                }
                                out.t(format!(
                                    "inc {} op#{}: reserve -> ({}, Some({})); store #{} FAILED -> value not used (initiate_group returns the error)",
                                    inc, this_op, v, b, k
                                ));
                                failed_pending = true;
                                out.unused += 1;
                                continue;
                            }
                            failed_pending = false;
                        }
                        out.yields.push(Yield {
                            value: v as u64,
                            inc,
                            op: this_op,
                            durable: durable(&kv),
                            mut_idx: kv.mut_count(),
                            failed_pending,
                            reseeded,
                        });
                    }
                    summarize(&mut out, inc, this_op, &op, from);
                }
            }
        }
        break;
    }
    finish(&mut out, &kv);
    out
}

// ---------------------------------------------------------------------------------------------

pub struct WireBase {
    pub map: KvMap,
    pub fab_idx: NonZeroU8,
}

thread_local! {
    static BASE: RefCell<Option<Rc<WireBase>>> = const { RefCell::new(None) };
}

/// A KV image holding one persisted fabric with a group key set and a key map entry for
/// `GROUP_ID` (provisioned the way `tests/mcsp.rs` does, then stored with `FabricPersist`).
pub fn wire_base() -> Result<Rc<WireBase>, Error> {
    if let Some(b) = BASE.with(|b| b.borrow().clone()) {
        return Ok(b);
    }
    let mut rng = Rng::new(0xC12_BA5E);
    let crypto = node::crypto(rng.fork());
    let m = node::new_matter();
    let ca = FabricCa::new(&crypto, &mut rng, 0x77, false)?;
    let creds = ca.mint(&crypto, 0x2002, &[])?;
    let fab_idx = ca.install(&m, &crypto, &creds, 0x1001)?;
    m.with_state(|s| {
        let f = s.fabrics.fabric_mut(fab_idx)?;
        let mut epoch_key = CanonAeadKey::new();
        epoch_key.load_from_array(&[
            0xa0, 0xa1, 0xa2, 0xa3, 0xa4, 0xa5, 0xa6, 0xa7, 0xa8, 0xa9, 0xaa, 0xab, 0xac, 0xad, 0xae, 0xaf,
        ]);
        let mut epoch_keys = MVec::new();
        let _ = epoch_keys.push(GroupEpochKeyEntry {
            epoch_key,
            epoch_start_time: 0,
        });
        f.groups_mut().key_set_add(GroupKeySet {
            group_key_set_id: KEY_SET_ID,
            group_key_security_policy: 0,
            epoch_keys,
        })?;
        f.groups_mut().key_map_add(GroupKeyMapping {
            group_id: GROUP_ID,
            group_key_set_id: KEY_SET_ID,
        })?;
        Ok::<_, Error>(())
    })?;
    let kv = SimKv::new();
    m.with_state(|s| {
        let f = s.fabrics.fabric(fab_idx)?;
        FabricPersist::new(m.kv(kv.clone())).store(f)
    })?;
    let b = Rc::new(WireBase {
        map: kv.map(),
        fab_idx,
    });
    BASE.with(|c| *c.borrow_mut() = Some(b.clone()));
    Ok(b)
}

thread_local! {
    static PROBE: RefCell<Option<Option<bool>>> = const { RefCell::new(None) };
}

/// Probe of the real caller: after `Exchange::initiate_group` failed because the boundary store
/// failed, is the in-memory counter still in the state `reserve` left it in (value consumed, boundary
/// moved)? That is what the hook-level driver assumes when it plays the caller.
pub fn caller_keeps_reservation_after_failed_store() -> Option<bool> {
    if let Some(p) = PROBE.with(|p| *p.borrow()) {
        return p;
    }
    let r = (|| {
        let base = wire_base().ok()?;
        let kv = SimKv::from_map(initial_map(&base.map, Some(5000)), false);
        let crypto = node::crypto(Rng::new(0xC12));
        let matter = node::new_matter();
        matter.startup(matter.kv(kv.clone())).ok()?;
        kv.fail_at(Some(1));
        let r = Exchange::initiate_group(&*matter, &crypto, matter.kv(kv.clone()), base.fab_idx, GROUP_ID);
        if r.is_ok() || kv.mut_count() != 1 {
            return None;
        }
        drop(r);
        let (next, bnd) = matter.with_state(|s| s.verif_sessions().verif_group_data_ctr());
        Some(next == 5001 && bnd == 6000)
    })();
    PROBE.with(|p| *p.borrow_mut() = Some(r));
    r
}

enum End {
    Restart,
    Crash,
    Done,
}

struct WireCtx<'a> {
    h: &'a Hist,
    kv: SimKv,
    hub: NetHub,
    out: RefCell<RunOut>,
    op_i: RefCell<usize>,
    inc: RefCell<u32>,
}

/// Wire level: real `Exchange::initiate_group` + `send`, values read from the tap.
pub fn run_wire(h: &Hist) -> RunOut {
    let base = match wire_base() {
        Ok(b) => b,
        Err(e) => {
            return RunOut {
                inconclusive: Some(format!("wire-base-setup-{:?}", e.code())),
                ..Default::default()
            }
        }
    };
    clock::reset(1_000_000);
    let kv = SimKv::from_map(initial_map(&base.map, h.start), true);
    let hub = NetHub::new(h.seed ^ 0x9e37, 1);
    let crypto = node::crypto(Rng::new(h.seed));
    let cx = WireCtx {
        h,
        kv: kv.clone(),
        hub: hub.clone(),
        out: RefCell::new(RunOut::default()),
        op_i: RefCell::new(0),
        inc: RefCell::new(0),
    };
    let mut exec_rng = Rng::new(subseed(h.seed, &[7]));

    loop {
        let matter = node::new_matter();
        let reseeded = kv.get(GROUP_DATA_COUNTER_KEY).is_none();
        if let Err(e) = matter.startup(matter.kv(kv.clone())) {
            cx.out.borrow_mut().inconclusive = Some(format!("startup-error-{:?}", e.code()));
            break;
        }
        {
            let (next, bnd) = matter.with_state(|s| s.verif_sessions().verif_group_data_ctr());
            let inc = *cx.inc.borrow();
            cx.out.borrow_mut().t(format!(
                "inc {} startup: stored boundary {:?} -> counter next={} boundary={}",
                inc,
                durable(&kv),
                next,
                bnd
            ));
        }
        let end: Rc<RefCell<Option<End>>> = Rc::new(RefCell::new(None));
        let limits = Limits {
            max_polls: 4_000_000,
            horizon: clock::now() + 3600 * clock::TICKS_PER_SEC,
            shuffle: true,
        };
        let status = {
            let matter = &*matter;
            let crypto = &crypto;
            let cx = &cx;
            let end2 = end.clone();
            let fab_idx = base.fab_idx;
            let seed = h.seed;
            let script: BoxFut = Box::pin(async move {
                let e = incarnation_script(cx, matter, crypto, fab_idx, reseeded).await;
                *end2.borrow_mut() = Some(e);
            });
            let node: BoxFut = {
                let ep = cx.hub.endpoint(0);
                Box::pin(async move {
                    let t: BoxFut = Box::pin(async {
                        let _ = matter.run(crypto, ep.clone(), ep.clone(), ep.clone()).await;
                    });
                    exec::ShuffleSelect::new(subseed(seed, &[11]), true, vec![script, t]).await
                })
            };
            exec::run(&mut exec_rng, limits, vec![node]).status
        };
        if status != RunStatus::Done {
            cx.out.borrow_mut().inconclusive = Some(format!("run-status-{:?}", status));
            break;
        }
        let e = end.borrow_mut().take();
        match e {
            Some(End::Restart) => {
                cx.out.borrow_mut().restarts += 1;
                *cx.inc.borrow_mut() += 1;
            }
            Some(End::Crash) => {
                cx.out.borrow_mut().crashed = true;
                *cx.inc.borrow_mut() += 1;
            }
            Some(End::Done) | None => break,
        }
    }
    let mut out = cx.out.into_inner();
    finish(&mut out, &kv);
    // only the counter key may have been written
    out
}

async fn incarnation_script<C: Crypto>(
    cx: &WireCtx<'_>,
    matter: &rs_matter::Matter<'_>,
    crypto: &C,
    fab_idx: NonZeroU8,
    reseeded: bool,
) -> End {
    let h = cx.h;
    let kv = &cx.kv;
    let inc = *cx.inc.borrow();
    let mut failed_pending = false;
    loop {
        let this_op = *cx.op_i.borrow();
        if this_op >= h.ops.len() {
            return End::Done;
        }
        let op = h.ops[this_op].clone();
        *cx.op_i.borrow_mut() += 1;
        match op {
            Op::Restart => {
                cx.out.borrow_mut().t(format!("inc {} op#{} restart", inc, this_op));
                return End::Restart;
            }
            Op::FailNextStore => kv.fail_at(Some(kv.mut_count() + 1)),
            Op::Invalidate(_) => {}
            Op::Use(n) => {
                let from = cx.out.borrow().yields.len();
                for _ in 0..n {
                    let k = kv.mut_count() + 1;
                    let crash = h.crash.filter(|c| c.at_store == k);
                    if matches!(crash, Some(c) if !c.after) {
                        kv.fail_at(Some(k));
                    }
                    cx.hub.clear_tap();
                    let r = Exchange::initiate_group(matter, crypto, matter.kv(kv.clone()), fab_idx, GROUP_ID);
                    let stored = kv.mut_count() >= k;
                    if stored {
                        if let Some(c) = crash {
                            let mut out = cx.out.borrow_mut();
                            super::c12_group::summarize(&mut out, inc, this_op, &op, from);
                            out.t(format!(
                                "inc {} CRASH {} store #{} inside initiate_group (nothing sent)",
                                inc,
                                if c.after { "after" } else { "before" },
                                k
                            ));
                            out.unused += 1;
                            return End::Crash;
                        }
                    }
                    let mut ex = match r {
                        Ok(ex) => ex,
                        Err(e) => {
                            let mut out = cx.out.borrow_mut();
                            if stored {
                                failed_pending = true;
                                out.unused += 1;
                                out.t(format!(
                                    "inc {} op#{}: initiate_group -> Err({:?}) because store #{} FAILED; nothing sent",
                                    inc,
                                    this_op,
                                    e.code(),
                                    k
                                ));
                            } else {
                                out.errors += 1;
                                out.notes.push(format!("initiate_group-error-{:?}", e.code()));
                            }
                            continue;
                        }
                    };
                    if stored {
                        failed_pending = false;
                    }
                    let sent = ex
                        .send(MessageMeta::new(0x0001, 0x08, false), &[0x15, 0x28, 0x00, 0x18])
                        .await;
                    drop(ex);
                    // let the transport put the datagram on the wire
                    exec::sleep_ms(2).await;
                    if let Err(e) = sent {
                        let mut out = cx.out.borrow_mut();
                        out.errors += 1;
                        out.notes.push(format!("group-send-error-{:?}", e.code()));
                    }
                    let ctrs: Vec<u32> = cx.hub.with_tap(|t| {
                        t.iter()
                            .filter(|ev| !ev.injected && ev.dgram.src == 0)
                            .filter_map(|ev| wire::peek(&ev.dgram.bytes))
                            .filter(|i| i.dst_group == Some(GROUP_ID))
                            .map(|i| i.ctr)
                            .collect()
                    });
                    let mut out = cx.out.borrow_mut();
                    if ctrs.len() != 1 {
                        out.notes.push(format!("group-send-produced-{}-datagrams", ctrs.len().min(9)));
                    }
                    for c in ctrs {
                        out.yields.push(Yield {
                            value: c as u64,
                            inc,
                            op: this_op,
                            durable: durable(kv),
                            mut_idx: kv.mut_count(),
                            failed_pending,
                            reseeded,
                        });
                    }
                }
                let mut out = cx.out.borrow_mut();
                summarize(&mut out, inc, this_op, &op, from);
            }
        }
    }
}
