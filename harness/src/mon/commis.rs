//! Commissioning world shared by C07 / C08 / C11: one controller (administrator of up to
//! two fabrics) and one full device (real system clusters) that can be restarted from its
//! recording KV store. A scenario is a list of `Step`s interpreted by the controller task.

use core::cell::RefCell;
use core::num::NonZeroU8;
use std::collections::BTreeMap;
use std::panic::{catch_unwind, AssertUnwindSafe};
use std::rc::Rc;

use rs_matter::crypto::Crypto;
use rs_matter::dm::clusters::net_comm::NetworksAccess;
use rs_matter::tlv::{TLVTag, ToTLV};
use rs_matter::transport::session::verif::VerifSession;
use rs_matter::transport::session::SessionMode;
use rs_matter::utils::storage::WriteBuf;
use rs_matter::Matter;

use crate::sim::ctl::{Ctl, Out, Via};
use crate::sim::device::{self, Boot, DeviceState};
use crate::sim::exec::{self, BoxFut, Limits, RunStatus};
use crate::sim::kv::{KvMap, SimKv};
use crate::sim::net::NetHub;
use crate::sim::node::{self, FabricCa, NodeCreds};
use crate::sim::rng::{subseed, Fnv, Rng};
use crate::sim::{clock, tapmon};

pub const ADMIN_A: u64 = 0xA11CE;
/// Same node ids in both fabrics on purpose: a session / resumption record of one fabric
/// must not be mistaken for one of the other just because the ids agree.
pub const ADMIN_B: u64 = ADMIN_A;
pub const DEV_NODE_A: u64 = 0xD0A;
pub const DEV_NODE_B: u64 = DEV_NODE_A;

/// Which session context a command is issued from.
#[derive(Clone, Copy, Debug, PartialEq, Eq)]
pub enum Ctx {
    /// The PASE session (established on demand; needs an open window).
    Pase,
    /// The most recent CASE session of admin A / B with the device.
    CaseA,
    CaseB,
    /// A previously saved (possibly stale) session, by save slot.
    Saved(u8),
}

#[derive(Clone, Debug, PartialEq, Eq)]
pub enum Step {
    Arm { ctx: Ctx, secs: u16 },
    Csr { ctx: Ctx, update: bool },
    AddRoot { ctx: Ctx, fab_b: bool },
    AddNoc { ctx: Ctx, fab_b: bool },
    UpdateNoc { ctx: Ctx, fab_b: bool },
    Complete { ctx: Ctx },
    AddWifi { ctx: Ctx, n: u8 },
    WriteLabel { ctx: Ctx, n: u8 },
    /// Write the whole ACL of the writer's fabric: the administrator entry plus `n` extra
    /// View entries for other node ids.
    WriteAcl { ctx: Ctx, n: u8 },
    RemoveFabric { ctx: Ctx, idx: u8 },
    /// OperationalCredentials::SetVIDVerificationStatement(vendor id 0xFFF2 + n) on the accessing fabric.
    SetVid { ctx: Ctx, n: u8 },
    /// Write GroupKeyManagement::GroupKeyMap of the writer's fabric: group `0x0100 + g` -> key set 0x01A3.
    GroupKeyMap { ctx: Ctx, g: u8 },
    /// Groups::AddGroup(endpoint 1, group `0x0100 + g`, name "grp-<name>"): adds the endpoint
    /// to the group, or renames the group if it is a member already.
    AddGroup { ctx: Ctx, g: u8, name: u8 },
    /// Establish (or resume) a CASE session as admin A / B.
    Case { fab_b: bool },
    /// Remember the current CASE session of A / B in a slot (to use it later when stale).
    Save { fab_b: bool, slot: u8 },
    /// Read BasicInformation::NodeLabel over the given context (a probe that the session works).
    Probe { ctx: Ctx },
    OpenWindow { ctx: Ctx },
    Revoke { ctx: Ctx },
    Sleep { ms: u32 },
    /// Device power-cycle: rebuild everything from the KV store.
    Restart,
    /// Drop the controller's own sessions to the device (it "forgets" them) but keep its
    /// resumption records.
    CtlForgetSessions,
}

/// What the device looked like at one instant (taken under the state lock).
#[derive(Clone, Debug, Default, PartialEq, Eq)]
pub struct DevDump {
    /// fabric index -> canonical TLV serialisation of the fabric (what gets persisted)
    pub fabrics: BTreeMap<u8, Vec<u8>>,
    /// fabric index -> (fabric id, node id, root cert hash) = identity of the incarnation
    pub fabric_ids: BTreeMap<u8, (u64, u64, u64)>,
    pub networks: Vec<Vec<u8>>,
    pub failsafe: Option<(u8, u8, u16)>,
    pub breadcrumb: u64,
    pub sessions: Vec<VerifSession>,
    /// (fabric index, peer node id, hash of resumption id)
    pub resumption: Vec<(u8, u64, u64)>,
    pub window_open: bool,
    /// BasicInformation::NodeLabel as held in RAM
    pub label: String,
}

pub fn dump(matter: &Matter<'_>, state: &DeviceState) -> DevDump {
    let mut d = DevDump::default();
    matter.with_state(|s| {
        for f in s.fabrics.iter() {
            let mut buf = vec![0u8; 8192];
            let mut wb = WriteBuf::new(&mut buf);
            if f.to_tlv(&TLVTag::Anonymous, &mut wb).is_ok() {
                d.fabrics.insert(f.fab_idx().get(), wb.as_slice().to_vec());
            }
            d.fabric_ids.insert(
                f.fab_idx().get(),
                (f.fabric_id(), f.node_id(), Fnv::of(f.root_ca())),
            );
        }
        d.failsafe = s.verif_failsafe().verif_state();
        d.breadcrumb = s.verif_failsafe().breadcrumb();
        d.sessions = s.verif_sessions().verif_snapshot();
        for r in s.resumption.iter() {
            d.resumption.push((
                r.fab_idx.get(),
                r.peer_nodeid,
                Fnv::of(r.resumption_id.reference().access()),
            ));
        }
        d.window_open = s.verif_pase().verif_state().0.is_some();
        d.label = s.verif_basic_info_settings().node_label.as_str().to_string();
    });
    state.networks().access(|n| {
        let _ = n.networks(&mut |id| {
            d.networks.push(id.to_vec());
            Ok(())
        });
    });
    d
}

#[derive(Clone, Debug)]
pub struct StepLog {
    pub index: usize,
    pub step: Step,
    pub out: String,
    pub success: bool,
    pub t: u64,
    /// KV mutating-op count when the step finished (changes acknowledged by this step are
    /// covered by operations <= this index).
    pub kv_ops: usize,
    pub dev: DevDump,
    pub incarnation: u32,
}

#[derive(Clone, Debug, Default)]
pub struct WorldResult {
    pub log: Vec<StepLog>,
    pub status: Option<RunStatus>,
    pub panic: Option<String>,
    pub boots: Vec<Boot>,
    pub tap_violations: Vec<String>,
    pub kv_final: KvMap,
    pub kv_log_len: usize,
    pub datagrams: u64,
    pub sched: u64,
    /// Dump of a fresh device restarted from the final KV map.
    pub final_restart: Option<DevDump>,
    pub setup_failed: bool,
    pub tap_stats: (u64, u64),
    /// controller-side session snapshots after each step (for the snapshot monitor)
    pub ctl_snaps: Vec<Vec<VerifSession>>,
}

#[derive(Clone, Debug)]
pub struct WorldParams {
    pub seed: u64,
    pub steps: Vec<Step>,
    pub shuffle: bool,
    /// Fail the mutating KV operation with this 1-based global index.
    pub kv_fail_at: Option<usize>,
    /// Per-datagram loss percentage.
    pub chaos: u8,
}

struct CtlState {
    case_a: Option<u32>,
    case_b: Option<u32>,
    saved: BTreeMap<u8, u32>,
    last_csr: Option<Vec<u8>>,
    dev_fab_a: Option<u8>,
    dev_fab_b: Option<u8>,
    label_n: u8,
}

fn via_of(c: &CtlState, ctx: Ctx) -> Option<Via> {
    match ctx {
        Ctx::Pase => Some(Via::Pase),
        Ctx::CaseA => c.case_a.map(Via::Session),
        Ctx::CaseB => c.case_b.map(Via::Session),
        Ctx::Saved(s) => c.saved.get(&s).copied().map(Via::Session),
    }
}

/// Run a scenario. The device is (re)built for every incarnation; the controller's Matter
/// object lives for the whole scenario.
pub fn run_world(p: &WorldParams) -> WorldResult {
    run_world_kv(p).0
}

/// Like `run_world`, also handing back the recording KV store (operation log + snapshots).
pub fn run_world_kv(p: &WorldParams) -> (WorldResult, SimKv) {
    let simkv = SimKv::new();
    let r = run_world_inner(p, simkv.clone());
    (r, simkv)
}

fn run_world_inner(p: &WorldParams, simkv: SimKv) -> WorldResult {
    clock::reset(1_000_000);
    let mut rng = Rng::new(p.seed);
    let crypto_c = node::crypto(rng.fork());
    let crypto_g = node::crypto(rng.fork());
    let mut res = WorldResult::default();

    let mc = node::new_matter();
    let icac_a = rng_bool(&mut rng);
    let icac_b = rng_bool(&mut rng);
    let Ok(ca_a) = FabricCa::new(&crypto_g, &mut rng, 0xFA, icac_a) else {
        res.setup_failed = true;
        return res;
    };
    let Ok(ca_b) = FabricCa::new(&crypto_g, &mut rng, 0xFB, icac_b) else {
        res.setup_failed = true;
        return res;
    };
    let (Ok(admin_a), Ok(admin_b)) = (
        ca_a.mint(&crypto_g, ADMIN_A, &[]),
        ca_b.mint(&crypto_g, ADMIN_B, &[]),
    ) else {
        res.setup_failed = true;
        return res;
    };
    let (Ok(fab_a), Ok(fab_b)) = (
        ca_a.install(&mc, &crypto_c, &admin_a, ADMIN_A),
        ca_b.install(&mc, &crypto_c, &admin_b, ADMIN_B),
    ) else {
        res.setup_failed = true;
        return res;
    };

    let hub = NetHub::new(rng.u64(), 2);
    if p.chaos > 0 {
        let chaos = p.chaos as u32;
        hub.set_adversary(Some(Box::new(move |_d, rng| {
            if rng.chance(chaos, 100) {
                vec![]
            } else {
                vec![crate::sim::net::Delivery::normal()]
            }
        })));
    }
    simkv.fail_at(p.kv_fail_at);
    let dev_addr = hub.addr(1);

    let cst = Rc::new(RefCell::new(CtlState {
        case_a: None,
        case_b: None,
        saved: BTreeMap::new(),
        last_csr: None,
        dev_fab_a: None,
        dev_fab_b: None,
        label_n: 0,
    }));
    let log: Rc<RefCell<Vec<StepLog>>> = Rc::new(RefCell::new(Vec::new()));
    let tap = tapmon::TapMonitor::new();

    let mut next_step = 0usize;
    let mut incarnation = 0u32;
    let mut exec_rng = Rng::new(subseed(p.seed, &[99]));

    // One iteration per device incarnation.
    while next_step < p.steps.len() {
        let crypto_d = node::crypto(Rng::new(subseed(p.seed, &[1000 + incarnation as u64])));
        let md = node::new_matter();
        let dstate = device::new_device_state();
        let dbuffers = device::new_buffers();
        let boot: RefCell<Option<Boot>> = RefCell::new(None);
        hub.set_up(1, true);

        let start = next_step;
        let reached = Rc::new(RefCell::new(start));
        let restart_requested = Rc::new(RefCell::new(false));

        let limits = Limits {
            max_polls: 6_000_000,
            horizon: clock::now() + 4 * 3600 * clock::TICKS_PER_SEC,
            shuffle: p.shuffle,
        };

        let run = {
            let mc = &*mc;
            let md = &*md;
            let dstate = &*dstate;
            let dbuffers = &*dbuffers;
            let crypto_c = &crypto_c;
            let crypto_d = &crypto_d;
            let crypto_g = &crypto_g;
            let boot = &boot;
            let hub2 = hub.clone();
            let hub_busy = hub.clone();
            let simkv2 = simkv.clone();
            let simkv3 = simkv.clone();
            let steps = &p.steps;
            let cst = cst.clone();
            let log = log.clone();
            let reached = reached.clone();
            let restart_requested = restart_requested.clone();
            let ca_a = &ca_a;
            let ca_b = &ca_b;
            let seed = p.seed;
            let shuffle = p.shuffle;
            let exec_rng = &mut exec_rng;
            catch_unwind(AssertUnwindSafe(move || {
                let script: BoxFut = Box::pin(async move {
                    // wait for the device to boot
                    for _ in 0..200 {
                        if boot.borrow().is_some() {
                            break;
                        }
                        exec::sleep_ms(5).await;
                    }
                    if *boot.borrow() != Some(Boot::Ok) {
                        return;
                    }
                    let ctl = Ctl {
                        matter: mc,
                        crypto: crypto_c,
                        dev_addr,
                        passcode: device::PASSCODE,
                        busy_probe: Some(Box::new(move || {
                            // unsecured status reports (opcode 0x40) sent by the device with
                            // general code Busy (8)
                            hub_busy.with_tap(|t| {
                                t.iter()
                                    .filter(|ev| ev.dgram.src == 1)
                                    .filter(|ev| {
                                        crate::sim::wire::peek(&ev.dgram.bytes)
                                            .and_then(|i| {
                                                let off = i.payload_off?;
                                                (i.opcode == Some(0x40)
                                                    && ev.dgram.bytes.len() >= off + 2
                                                    && ev.dgram.bytes[off] == 8)
                                                    .then_some(())
                                            })
                                            .is_some()
                                    })
                                    .count() as u64
                            })
                        })),
                        last_case_was_busy: core::cell::Cell::new(false),
                    };
                    let mut i = start;
                    while i < steps.len() {
                        let step = steps[i].clone();
                        simkv2.set_step(i as u32);
                        if step == Step::Restart {
                            *restart_requested.borrow_mut() = true;
                            *reached.borrow_mut() = i + 1;
                            let d = dump(md, dstate);
                            log.borrow_mut().push(StepLog {
                                index: i,
                                step,
                                out: "restart".into(),
                                success: true,
                                t: clock::now(),
                                kv_ops: simkv2.mut_count(),
                                dev: d,
                                incarnation,
                            });
                            return;
                        }
                        let out = do_step(&ctl, &cst, &step, ca_a, ca_b, crypto_g, fab_a, fab_b).await;
                        // Let in-flight acks / dropped-exchange processing settle a little.
                        exec::sleep_ms(20).await;
                        let d = dump(md, dstate);
                        log.borrow_mut().push(StepLog {
                            index: i,
                            step,
                            out: out.class(),
                            success: out.success(),
                            t: clock::now(),
                            kv_ops: simkv2.mut_count(),
                            dev: d,
                            incarnation,
                        });
                        i += 1;
                        *reached.borrow_mut() = i;
                    }
                    // Quiescence tail: let timers (resumption flush, acks) play out.
                    exec::sleep_ms(1500).await;
                });
                let ctl_task: BoxFut = {
                    let ep = hub2.endpoint(0);
                    Box::pin(async move {
                        let t: BoxFut = Box::pin(async move {
                            let _ = mc.run(crypto_c, ep.clone(), ep.clone(), ep.clone()).await;
                        });
                        exec::ShuffleSelect::new(subseed(seed, &[21]), shuffle, vec![script, t]).await
                    })
                };
                let dev_task: BoxFut = {
                    let ep = hub2.endpoint(1);
                    Box::pin(async move {
                        device::run_device(md, crypto_d, simkv3, ep, dstate, dbuffers, boot, true).await;
                        // A device whose start-up failed stays down.
                        core::future::pending::<()>().await;
                    })
                };
                exec::run(exec_rng, limits, vec![ctl_task, dev_task])
            }))
        };

        match run {
            Ok(o) => {
                res.status = Some(o.status);
                res.sched ^= o.sched_hash;
                if o.status != RunStatus::Done {
                    break;
                }
            }
            Err(e) => {
                res.panic = Some(crate::util::panic_msg(&e));
                break;
            }
        }
        res.boots.push(boot.borrow().clone().unwrap_or(Boot::Ok));
        if *boot.borrow() != Some(Boot::Ok) {
            break;
        }
        let new_next = *reached.borrow();
        if new_next == next_step && !*restart_requested.borrow() {
            // no progress (should not happen)
            break;
        }
        next_step = new_next;
        incarnation += 1;
        // The device is gone: everything in flight to it is lost.
        hub.set_up(1, false);
        drop(md);
    }

    hub.set_adversary(None);
    hub.with_tap(|t| {
        for ev in t {
            if !ev.injected {
                tap.observe(ev.dgram.src, &ev.dgram.bytes);
            }
        }
        res.datagrams = t.len() as u64;
    });
    res.tap_violations = tap.violations();
    res.tap_stats = tap.stats();
    res.log = log.borrow().clone();
    res.kv_final = simkv.map();
    res.kv_log_len = simkv.mut_count();

    // What a fresh device restarted from the final store looks like.
    if res.panic.is_none() {
        res.final_restart = restart_dump(&res.kv_final, p.seed);
    }
    res
}

fn rng_bool(r: &mut Rng) -> bool {
    r.bool()
}

/// Build a fresh device from a KV map (Matter::startup + IM startup) and dump it.
pub fn restart_dump(map: &KvMap, seed: u64) -> Option<DevDump> {
    let out: Rc<RefCell<Option<DevDump>>> = Rc::new(RefCell::new(None));
    let out2 = out.clone();
    let map = map.clone();
    let r = catch_unwind(AssertUnwindSafe(move || {
        let saved_now = clock::now();
        let crypto_d = node::crypto(Rng::new(subseed(seed, &[777])));
        let md = node::new_matter();
        let dstate = device::new_device_state();
        let dbuffers = device::new_buffers();
        let boot: RefCell<Option<Boot>> = RefCell::new(None);
        let hub = NetHub::new(1, 2);
        let simkv = SimKv::from_map(map, false);
        let mut rng = Rng::new(5);
        {
            let md = &*md;
            let dstate = &*dstate;
            let dbuffers = &*dbuffers;
            let boot = &boot;
            let crypto_d = &crypto_d;
            let ep = hub.endpoint(1);
            let script: BoxFut = Box::pin(async move {
                for _ in 0..200 {
                    if boot.borrow().is_some() {
                        break;
                    }
                    exec::sleep_ms(5).await;
                }
            });
            let dev: BoxFut = Box::pin(async move {
                device::run_device(md, crypto_d, simkv, ep, dstate, dbuffers, boot, false).await;
                core::future::pending::<()>().await;
            });
            let _ = exec::run(
                &mut rng,
                Limits {
                    max_polls: 200_000,
                    horizon: saved_now + 60 * clock::TICKS_PER_SEC,
                    shuffle: false,
                },
                vec![script, dev],
            );
        }
        if *boot.borrow() == Some(Boot::Ok) {
            *out2.borrow_mut() = Some(dump(&md, &dstate));
        }
    }));
    if r.is_err() {
        return None;
    }
    let v = out.borrow().clone();
    v
}

/// Restart from `map` and report the boot outcome (None = panic).
pub fn restart_boot(map: &KvMap, seed: u64) -> Option<Boot> {
    let out: Rc<RefCell<Option<Boot>>> = Rc::new(RefCell::new(None));
    let out2 = out.clone();
    let map = map.clone();
    let r = catch_unwind(AssertUnwindSafe(move || {
        let saved_now = clock::now();
        let crypto_d = node::crypto(Rng::new(subseed(seed, &[778])));
        let md = node::new_matter();
        let dstate = device::new_device_state();
        let dbuffers = device::new_buffers();
        let boot: RefCell<Option<Boot>> = RefCell::new(None);
        let hub = NetHub::new(1, 2);
        let simkv = SimKv::from_map(map, false);
        let mut rng = Rng::new(5);
        {
            let md = &*md;
            let dstate = &*dstate;
            let dbuffers = &*dbuffers;
            let boot = &boot;
            let crypto_d = &crypto_d;
            let ep = hub.endpoint(1);
            let script: BoxFut = Box::pin(async move {
                for _ in 0..200 {
                    if boot.borrow().is_some() {
                        break;
                    }
                    exec::sleep_ms(5).await;
                }
                exec::sleep_ms(50).await;
            });
            let dev: BoxFut = Box::pin(async move {
                device::run_device(md, crypto_d, simkv, ep, dstate, dbuffers, boot, false).await;
                core::future::pending::<()>().await;
            });
            let _ = exec::run(
                &mut rng,
                Limits {
                    max_polls: 200_000,
                    horizon: saved_now + 60 * clock::TICKS_PER_SEC,
                    shuffle: false,
                },
                vec![script, dev],
            );
        }
        *out2.borrow_mut() = boot.borrow().clone();
    }));
    if r.is_err() {
        return None;
    }
    let v = out.borrow().clone();
    v.or(Some(Boot::MatterStartupFailed(rs_matter::error::ErrorCode::Invalid)))
}

/// Boot a device from `map`, factory-reset it (Matter + Interaction Model) and return the
/// keys left in the store.
pub fn factory_reset_leftovers(map: &KvMap, seed: u64) -> Option<Vec<u16>> {
    let out: Rc<RefCell<Option<Vec<u16>>>> = Rc::new(RefCell::new(None));
    let out2 = out.clone();
    let map = map.clone();
    let r = catch_unwind(AssertUnwindSafe(move || {
        let crypto_d = node::crypto(Rng::new(subseed(seed, &[779])));
        let md = node::new_matter();
        let dstate = device::new_device_state();
        let dbuffers = device::new_buffers();
        let simkv = SimKv::from_map(map, false);
        let mut rng = Rng::new(6);
        let saved_now = clock::now();
        let done: RefCell<bool> = RefCell::new(false);
        {
            let md = &*md;
            let dstate = &*dstate;
            let dbuffers = &*dbuffers;
            let crypto_d = &crypto_d;
            let simkv2 = simkv.clone();
            let done = &done;
            let script: BoxFut = Box::pin(async move {
                *done.borrow_mut() = device::factory_reset(md, crypto_d, simkv2, dstate, dbuffers).await;
            });
            let _ = exec::run(
                &mut rng,
                Limits {
                    max_polls: 200_000,
                    horizon: saved_now + 60 * clock::TICKS_PER_SEC,
                    shuffle: false,
                },
                vec![script],
            );
        }
        if *done.borrow() {
            *out2.borrow_mut() = Some(simkv.map().keys().copied().collect());
        }
    }));
    if r.is_err() {
        return None;
    }
    let v = out.borrow().clone();
    v
}

#[allow(clippy::too_many_arguments)]
async fn do_step<C: Crypto, G: Crypto>(
    ctl: &Ctl<'_, C>,
    cst: &Rc<RefCell<CtlState>>,
    step: &Step,
    ca_a: &FabricCa,
    ca_b: &FabricCa,
    crypto_g: &G,
    fab_a: NonZeroU8,
    fab_b: NonZeroU8,
) -> Out {
    use rs_matter::error::ErrorCode;
    let via = |ctx: Ctx| via_of(&cst.borrow(), ctx);
    let no_ctx = Out::Err(ErrorCode::NoSession);
    match step {
        Step::Arm { ctx, secs } => match via(*ctx) {
            Some(v) => ctl.arm_fail_safe(v, *secs, 1).await,
            None => no_ctx,
        },
        Step::Csr { ctx, update } => match via(*ctx) {
            Some(v) => match ctl.csr_request(v, *update).await {
                Ok(csr) => {
                    cst.borrow_mut().last_csr = Some(csr);
                    Out::Ok(0)
                }
                Err(o) => o,
            },
            None => no_ctx,
        },
        Step::AddRoot { ctx, fab_b: b } => match via(*ctx) {
            Some(v) => {
                let ca = if *b { ca_b } else { ca_a };
                ctl.add_trusted_root(v, &ca.rcac).await
            }
            None => no_ctx,
        },
        Step::AddNoc { ctx, fab_b: b } => match via(*ctx) {
            Some(v) => {
                let ca = if *b { ca_b } else { ca_a };
                let csr = cst.borrow().last_csr.clone();
                let Some(csr) = csr else {
                    // No CSR was obtained: send a NOC for a key the device never generated.
                    let Ok(creds) = ca.mint(crypto_g, if *b { DEV_NODE_B } else { DEV_NODE_A }, &[]) else {
                        return Out::Err(ErrorCode::Invalid);
                    };
                    let (o, _) = ctl
                        .add_noc(v, &creds.noc, &ca.icac, &ca.ipk, if *b { ADMIN_B } else { ADMIN_A }, 0xFFF1)
                        .await;
                    return o;
                };
                let node_id = if *b { DEV_NODE_B } else { DEV_NODE_A };
                let Ok(noc) = ca.sign_csr(
                    crypto_g,
                    &csr,
                    node_id,
                    &[],
                    rs_matter::cert::gen::VALID_FOREVER,
                ) else {
                    return Out::Err(ErrorCode::Invalid);
                };
                let (o, idx) = ctl
                    .add_noc(v, &noc, &ca.icac, &ca.ipk, if *b { ADMIN_B } else { ADMIN_A }, 0xFFF1)
                    .await;
                if o.success() {
                    let mut c = cst.borrow_mut();
                    if *b {
                        c.dev_fab_b = idx;
                    } else {
                        c.dev_fab_a = idx;
                    }
                    c.last_csr = None;
                }
                o
            }
            None => no_ctx,
        },
        Step::UpdateNoc { ctx, fab_b: b } => match via(*ctx) {
            Some(v) => {
                let ca = if *b { ca_b } else { ca_a };
                let csr = cst.borrow().last_csr.clone();
                let node_id = if *b { DEV_NODE_B } else { DEV_NODE_A };
                let noc = match csr {
                    Some(csr) => ca.sign_csr(crypto_g, &csr, node_id, &[], rs_matter::cert::gen::VALID_FOREVER),
                    None => ca.mint(crypto_g, node_id, &[]).map(|c| c.noc),
                };
                let Ok(noc) = noc else {
                    return Out::Err(ErrorCode::Invalid);
                };
                let o = ctl.update_noc(v, &noc, &ca.icac).await;
                if o.success() {
                    cst.borrow_mut().last_csr = None;
                }
                o
            }
            None => no_ctx,
        },
        Step::Complete { ctx } => match via(*ctx) {
            Some(v) => {
                let o = ctl.commissioning_complete(v).await;
                if o.success() {
                    // the device tore the PASE session down; so does the commissioner
                    ctl.forget_pase();
                }
                o
            }
            None => no_ctx,
        },
        Step::AddWifi { ctx, n } => match via(*ctx) {
            Some(v) => {
                let ssid = format!("net{}", n);
                ctl.add_wifi(v, ssid.as_bytes(), b"password123", 2).await
            }
            None => no_ctx,
        },
        Step::WriteLabel { ctx, n } => match via(*ctx) {
            Some(v) => {
                let label = format!("label-{}", n);
                cst.borrow_mut().label_n = *n;
                // BasicInformation (0x28) NodeLabel (5)
                ctl.write_attr(v, 0, 0x28, 5, &label.as_str()).await
            }
            None => no_ctx,
        },
        Step::WriteAcl { ctx, n } => match via(*ctx) {
            Some(v) => {
                use rs_matter::acl::{AclEntry, AuthMode};
                use rs_matter::dm::Privilege;
                let mut entries: Vec<AclEntry> = Vec::new();
                let mut admin = AclEntry::new(None, Privilege::ADMIN, AuthMode::Case);
                let _ = admin.add_subject(ADMIN_A);
                entries.push(admin);
                for k in 0..=*n {
                    let mut e = AclEntry::new(None, Privilege::VIEW, AuthMode::Case);
                    let _ = e.add_subject(0x5000 + k as u64);
                    entries.push(e);
                }
                // AccessControl (0x1F) ACL (0)
                ctl.write_attr(v, 0, 0x1F, 0, &entries.as_slice()).await
            }
            None => no_ctx,
        },
        Step::SetVid { ctx, n } => match via(*ctx) {
            Some(v) => ctl.set_vid_verification(v, 0xFFF2 + *n as u16).await,
            None => no_ctx,
        },
        Step::GroupKeyMap { ctx, g } => match via(*ctx) {
            Some(v) => {
                #[derive(rs_matter::tlv::ToTLV)]
                #[tlvargs(start = 1)]
                struct MapEntry {
                    group_id: u16,
                    group_key_set_id: u16,
                }
                let map = [MapEntry { group_id: 0x0100 + *g as u16, group_key_set_id: 0x01A3 }];
                // GroupKeyManagement (0x3F) GroupKeyMap (0)
                ctl.write_attr(v, 0, 0x3F, 0, &&map[..]).await
            }
            None => no_ctx,
        },
        Step::AddGroup { ctx, g, name } => match via(*ctx) {
            Some(v) => ctl.add_group(v, 0x0100 + *g as u16, &format!("grp-{}", name)).await,
            None => no_ctx,
        },
        Step::RemoveFabric { ctx, idx } => match via(*ctx) {
            Some(v) => ctl.remove_fabric(v, *idx).await,
            None => no_ctx,
        },
        Step::Case { fab_b: b } => {
            let (fab, peer) = if *b { (fab_b, DEV_NODE_B) } else { (fab_a, DEV_NODE_A) };
            match ctl.case_establish(fab, peer).await {
                Ok(id) => {
                    let mut c = cst.borrow_mut();
                    if *b {
                        c.case_b = Some(id);
                    } else {
                        c.case_a = Some(id);
                    }
                    Out::Ok(0)
                }
                Err(e) => Out::Err(e.code()),
            }
        }
        Step::Save { fab_b: b, slot } => {
            let mut c = cst.borrow_mut();
            let cur = if *b { c.case_b } else { c.case_a };
            match cur {
                Some(id) => {
                    c.saved.insert(*slot, id);
                    Out::Ok(0)
                }
                None => no_ctx,
            }
        }
        Step::Probe { ctx } => match via(*ctx) {
            Some(v) => match ctl.read_attr(v, 0, 0x28, 5, false).await {
                Ok(_) => Out::Ok(0),
                Err(o) => o,
            },
            None => no_ctx,
        },
        Step::OpenWindow { ctx } => match via(*ctx) {
            Some(v) => {
                // a commissioner starting over through a new window starts a new PASE session
                ctl.forget_pase();
                ctl.open_basic_window(v, 300).await
            }
            None => no_ctx,
        },
        Step::Revoke { ctx } => match via(*ctx) {
            Some(v) => ctl.revoke_commissioning(v).await,
            None => no_ctx,
        },
        Step::Sleep { ms } => {
            exec::sleep_ms(*ms as u64).await;
            Out::Ok(0)
        }
        Step::Restart => Out::Ok(0),
        Step::CtlForgetSessions => {
            // Remove the controller's secure sessions to the device (not its resumption cache)
            // ... except the ones parked in a save slot (they are the "old sessions" whose
            // later use is the point of saving them)
            let keep: Vec<u32> = cst.borrow().saved.values().copied().collect();
            let ids: Vec<u32> = node::snapshot(ctl.matter)
                .into_iter()
                .filter(|s| s.encrypted && !keep.contains(&s.id))
                .map(|s| s.id)
                .collect();
            ctl.matter.with_state(|s| {
                for id in ids {
                    s.verif_sessions_mut().remove(id);
                }
            });
            let mut c = cst.borrow_mut();
            c.case_a = None;
            c.case_b = None;
            Out::Ok(0)
        }
    }
}

pub fn case_sessions_for_fab(d: &DevDump, idx: u8) -> Vec<&VerifSession> {
    d.sessions
        .iter()
        .filter(|s| matches!(&s.mode, SessionMode::Case { fab_idx, .. } if fab_idx.get() == idx))
        .collect()
}

pub fn happy_path() -> Vec<Step> {
    vec![
        Step::Arm { ctx: Ctx::Pase, secs: 60 },
        Step::Csr { ctx: Ctx::Pase, update: false },
        Step::AddRoot { ctx: Ctx::Pase, fab_b: false },
        Step::AddNoc { ctx: Ctx::Pase, fab_b: false },
        Step::AddWifi { ctx: Ctx::Pase, n: 1 },
        Step::Case { fab_b: false },
        Step::Complete { ctx: Ctx::CaseA },
        Step::Probe { ctx: Ctx::CaseA },
    ]
}

#[allow(dead_code)]
pub fn creds_unused(_c: &NodeCreds) {}
