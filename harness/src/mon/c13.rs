//! C13 — a subscriber eventually learns every change it subscribed to (END-TO-END monitor).
//!
//! One real rs-matter device (Matter + InteractionModel + a harness cluster handler whose
//! attribute values are version numbers) and 1..4 subscriber nodes (real Matter transport,
//! the public subscribe client, and a harness report sink that answers Success / Failure /
//! nothing). The device-side script changes attributes and emits events at seeded virtual
//! times (bursts around every priming), restarts the device from the same key-value store;
//! subscribers go silent / down. An offline oracle (c13_oracle.rs) compares the two logs.

use std::cell::{Cell, RefCell};
use std::collections::BTreeMap;
use std::panic::{catch_unwind, AssertUnwindSafe};

use serde_json::json;

use rs_matter::im::PROTO_ID_INTERACTION_MODEL;
use rs_matter::respond::{ChainedExchangeHandler, Responder};
use rs_matter::sc::SecureChannel;
use rs_matter::transport::session::SessionMode;

use crate::report::{Ctx, Report};
use crate::sim::exec::{self, BoxFut, Limits, RunStatus};
use crate::sim::kv::SimKv;
use crate::sim::net::{Delivery, NetHub};
use crate::sim::node::{self, FabricCa};
use crate::sim::rng::{subseed, Fnv, Rng};
use crate::sim::{clock, tapmon};

use super::c13_dev::{
    all_paths, device_task, install_device_fabric, set_rtc, sub_node_id, DevAct, DevEnv, DevEv,
    DevStep, DevStore, Notify, Path, CLUSTERS, DEV_NODE, EPS, EVENT_IDS, N_ATTRS,
};
use super::c13_oracle;
use super::c13_sub::{
    subscriber_script, Policy, PolicyWindow, ReportSink, SubEv, SubPlan, SubState, WPath,
};

#[derive(Clone, Copy, Debug, PartialEq, Eq)]
pub enum Family {
    Prime,
    Multi,
    Coalesce,
    FailRetry,
    PermaFail,
    Restart,
    Mix,
    /// a narrow subscription while only attributes it did NOT subscribe to keep changing
    Starve,
    /// re-subscribe (keep_subs=false) while reports of the old subscription are in flight
    Resub,
}

#[derive(Clone, Debug)]
pub struct Params {
    pub seed: u64,
    pub family: Family,
    pub n_subs: usize,
    /// plans[i-1] = subscribe plans of subscriber i
    pub plans: Vec<Vec<SubPlan>>,
    pub windows: Vec<Vec<PolicyWindow>>,
    /// (node index, from_ms, to_ms): the node loses every datagram addressed to it
    pub down: Vec<(usize, u64, u64)>,
    pub dev_steps: Vec<DevStep>,
    /// Extra one-way delay (uniform 1..=slow_net_ms) of every datagram before `t_quiet_ms`.
    pub slow_net_ms: u64,
    /// (from_ms, to_ms, drop percent)
    pub chaos: Option<(u64, u64, u32)>,
    /// After this time: no changes, events, restarts, network faults, nodes down; policy Ok
    /// (except a permanently failing subscriber).
    pub t_quiet_ms: u64,
    pub end_ms: u64,
    pub shuffle: bool,
    pub permafail: Option<usize>,
}

#[derive(Default)]
pub struct Outcome {
    pub dev_log: Vec<DevEv>,
    pub sub_logs: Vec<Vec<SubEv>>,
    pub status: Option<RunStatus>,
    pub panic: Option<String>,
    pub sched_hash: u64,
    pub tap_violations: Vec<String>,
    pub datagrams: u64,
    pub final_versions: BTreeMap<Path, u32>,
    pub t0: u64,
    pub end_time: u64,
    pub reads: u64,
    pub polls: u64,
    pub setup_error: Option<String>,
    pub ca_retries: u32,
    /// device -> subscriber datagrams: (send time, dst node, length, hash of bytes, arrival times, unsecured)
    pub wire: Vec<(u64, usize, usize, u64, Vec<u64>, bool)>,
    pub ca_error: String,
}

pub const INTERVALS: &[(u16, u16)] = &[(0, 2), (1, 5), (2, 10), (0, 60), (3, 45)];

fn pick_attr_paths(rng: &mut Rng, big: bool) -> Vec<WPath> {
    let r = rng.below(100);
    if big {
        return if r < 70 {
            vec![(None, None, None)]
        } else {
            vec![(Some(*rng.pick(&EPS)), None, None)]
        };
    }
    if r < 40 {
        vec![(None, None, None)]
    } else if r < 55 {
        vec![(Some(*rng.pick(&EPS)), None, None)]
    } else if r < 70 {
        let n = 1 + rng.usize(2);
        (0..n)
            .map(|_| (Some(*rng.pick(&EPS)), Some(*rng.pick(&CLUSTERS)), None))
            .collect()
    } else if r < 80 {
        vec![(None, Some(*rng.pick(&CLUSTERS)), None)]
    } else {
        let n = 1 + rng.usize(6);
        let mut v: Vec<WPath> = Vec::new();
        for _ in 0..n {
            let p = (
                Some(*rng.pick(&EPS)),
                Some(*rng.pick(&CLUSTERS)),
                Some(rng.below(N_ATTRS as u64) as u32),
            );
            if !v.contains(&p) {
                v.push(p);
            }
        }
        v
    }
}

fn pick_event_paths(rng: &mut Rng) -> Vec<WPath> {
    let r = rng.below(100);
    if r < 45 {
        vec![]
    } else if r < 75 {
        vec![(None, None, None)]
    } else if r < 90 {
        vec![(Some(*rng.pick(&EPS)), Some(*rng.pick(&CLUSTERS)), None)]
    } else {
        vec![(
            Some(*rng.pick(&EPS)),
            Some(*rng.pick(&CLUSTERS)),
            Some(*rng.pick(&EVENT_IDS)),
        )]
    }
}

pub fn expand(paths: &[WPath]) -> Vec<Path> {
    all_paths()
        .into_iter()
        .filter(|p| {
            paths.iter().any(|w| {
                w.0.map(|e| e == p.0).unwrap_or(true)
                    && w.1.map(|c| c == p.1).unwrap_or(true)
                    && w.2.map(|a| a == p.2).unwrap_or(true)
            })
        })
        .collect()
}

pub fn event_matches(paths: &[WPath], ep: u16, cl: u32, ev: u32) -> bool {
    paths.iter().any(|w| {
        w.0.map(|e| e == ep).unwrap_or(true)
            && w.1.map(|c| c == cl).unwrap_or(true)
            && w.2.map(|a| a == ev).unwrap_or(true)
    })
}

fn rand_paths(rng: &mut Rng, from: &[Path], n: usize) -> Vec<Path> {
    let mut v: Vec<Path> = Vec::new();
    if from.is_empty() {
        return v;
    }
    for _ in 0..n {
        let p = *rng.pick(from);
        if !v.contains(&p) {
            v.push(p);
        }
    }
    v
}

fn pick_notify(rng: &mut Rng) -> Notify {
    match rng.below(100) {
        0..=79 => Notify::Attr,
        80..=89 => Notify::Cluster,
        90..=95 => Notify::Endpoint,
        _ => Notify::All,
    }
}

pub fn gen_params(rng: &mut Rng, idx: u64) -> Params {
    // idx = k * nshards + shard: every shard walks through all families
    let family = match (idx / 16 + idx) % 16 {
        0 | 7 | 13 => Family::Prime,
        1 | 8 => Family::Multi,
        14 => Family::Resub,
        2 | 9 => Family::Coalesce,
        3 | 10 => Family::FailRetry,
        4 | 11 => Family::PermaFail,
        5 | 12 => Family::Restart,
        15 => Family::Starve,
        _ => Family::Mix,
    };
    let seed = rng.u64();
    let n_subs = match family {
        Family::Prime => {
            if rng.chance(2, 3) {
                1
            } else {
                2
            }
        }
        Family::Multi => 2 + rng.usize(3),
        Family::Coalesce => 1 + rng.usize(3),
        Family::FailRetry => 1 + rng.usize(3),
        Family::PermaFail => 1 + rng.usize(2),
        Family::Restart => 1 + rng.usize(3),
        Family::Mix => 1 + rng.usize(4),
        Family::Starve => 1 + rng.usize(2),
        Family::Resub => 1 + rng.usize(2),
    };
    let slow_net_ms = match family {
        Family::Prime => *rng.pick(&[20u64, 80, 250]),
        Family::Resub => *rng.pick(&[40u64, 80, 250]),
        Family::Multi | Family::Coalesce => *rng.pick(&[0u64, 0, 0, 20, 80]),
        _ => *rng.pick(&[0u64, 0, 20, 80]),
    };
    let t_quiet_ms = match family {
        Family::Prime => 6_000 + rng.below(5_000),
        Family::Multi => 10_000 + rng.below(15_000),
        Family::Coalesce => 8_000 + rng.below(8_000),
        Family::FailRetry => 45_000 + rng.below(25_000),
        Family::PermaFail => 15_000 + rng.below(10_000),
        Family::Restart => 15_000 + rng.below(15_000),
        Family::Mix => 30_000 + rng.below(30_000),
        Family::Starve => 70_000 + rng.below(50_000),
        Family::Resub => 12_000 + rng.below(4_000),
    };

    let all = all_paths();
    let mut plans: Vec<Vec<SubPlan>> = Vec::new();
    let mut max_neg: u64 = 40;
    for _i in 0..n_subs {
        let mut v = Vec::new();
        let t_first = 50 + rng.below(2_500);
        let n_plans = if family != Family::Restart && rng.chance(3, 10) { 2 } else { 1 };
        let mut t = t_first;
        for k in 0..n_plans {
            let (min, max) = if family == Family::FailRetry && rng.chance(2, 3) {
                // the device answers max(requested, 40): only a larger maximum interval leaves
                // room for "one unanswered report (response time-out ~39 s) + one retry"
                *rng.pick(&[(0u16, 60u16), (1, 90), (0, 120), (2, 75)])
            } else {
                *rng.pick(INTERVALS)
            };
            max_neg = max_neg.max(max as u64);
            let big = family == Family::Prime || (family != Family::Starve && rng.chance(1, 3));
            let events_only = !big && family != Family::Starve && rng.chance(1, 12);
            let attrs = if family == Family::Starve {
                // everything on endpoint 2 (one cluster or a few attributes); the changes go to endpoint 1
                if rng.bool() {
                    vec![(Some(2u16), Some(*rng.pick(&CLUSTERS)), None)]
                } else {
                    vec![(Some(2u16), Some(*rng.pick(&CLUSTERS)), Some(rng.below(N_ATTRS as u64) as u32))]
                }
            } else if events_only {
                vec![]
            } else {
                pick_attr_paths(rng, big)
            };
            let mut events = pick_event_paths(rng);
            if events_only && events.is_empty() {
                events = vec![(None, None, None)];
            }
            v.push(SubPlan {
                t_ms: t,
                attrs,
                events,
                min,
                max,
                keep: if k == 0 { rng.bool() } else { rng.chance(2, 3) },
                step_sleep_ms: *rng.pick(&[0u64, 0, 5, 50, 200]),
            });
            t += 1_500 + rng.below(7_500);
        }
        plans.push(v);
    }

    if family == Family::Resub {
        plans.clear();
        let small = |rng: &mut Rng| -> Vec<WPath> {
            if rng.bool() {
                vec![(Some(*rng.pick(&EPS)), Some(*rng.pick(&CLUSTERS)), Some(rng.below(N_ATTRS as u64) as u32))]
            } else {
                vec![(Some(*rng.pick(&EPS)), Some(*rng.pick(&CLUSTERS)), None)]
            }
        };
        let t2 = 3_000 + rng.below(5_000);
        plans.push(vec![
            SubPlan { t_ms: 50 + rng.below(500), attrs: vec![(None, None, None)], events: vec![], min: 0, max: 10, keep: rng.bool(), step_sleep_ms: 0 },
            SubPlan { t_ms: t2, attrs: small(rng), events: vec![], min: 0, max: 10, keep: false, step_sleep_ms: 0 },
        ]);
        if n_subs == 2 {
            // a second subscriber whose priming overlaps the first one's reports / re-subscribe
            let attrs = if rng.bool() { small(rng) } else { vec![(None, None, None)] };
            plans.push(vec![SubPlan {
                t_ms: t2.saturating_sub(rng.below(1_500)) + rng.below(800),
                attrs,
                events: vec![],
                min: 0,
                max: 10,
                keep: true,
                step_sleep_ms: 0,
            }]);
        }
    }

    // ---- device script
    let mut steps: Vec<DevStep> = Vec::new();
    let add_bump = |steps: &mut Vec<DevStep>, rng: &mut Rng, t: u64, from: &[Path], n: usize| {
        let paths = rand_paths(rng, from, n);
        if !paths.is_empty() {
            steps.push(DevStep {
                t_ms: t,
                act: DevAct::Bump { paths, notify: pick_notify(rng) },
            });
        }
    };
    let add_emit = |steps: &mut Vec<DevStep>, rng: &mut Rng, t: u64| {
        steps.push(DevStep {
            t_ms: t,
            act: DevAct::Emit {
                ep: *rng.pick(&EPS),
                cluster: *rng.pick(&CLUSTERS),
                event: *rng.pick(&EVENT_IDS),
            },
        });
    };
    // bursts around every priming
    for sp in plans.iter() {
        for plan in sp.iter() {
            let subscribed = expand(&plan.attrs);
            let window = 80 + slow_net_ms * 8 + plan.step_sleep_ms * 4;
            let k = 1 + rng.usize(6);
            for _ in 0..k {
                let t = plan.t_ms + rng.below(window);
                let from: &[Path] = if subscribed.is_empty() { &all } else { &subscribed };
                let n = 1 + rng.usize(3);
                add_bump(&mut steps, rng, t.min(t_quiet_ms), from, n);
            }
            let ke = rng.usize(4);
            for _ in 0..ke {
                let te = (plan.t_ms + rng.below(window)).min(t_quiet_ms);
                add_emit(&mut steps, rng, te);
            }
        }
    }
    // background
    let nb = 3 + rng.usize(13);
    for _ in 0..nb {
        let t = rng.below(t_quiet_ms);
        let n = 1 + rng.usize(2);
        add_bump(&mut steps, rng, t, &all, n);
    }
    let ne = rng.usize(9);
    for _ in 0..ne {
        let t = rng.below(t_quiet_ms);
        add_emit(&mut steps, rng, t);
    }
    if family == Family::Resub {
        // changes all the time, so that a report is (nearly) always in flight
        let mut t = 800;
        while t < t_quiet_ms - 600 {
            let n = 1 + rng.usize(2);
            add_bump(&mut steps, rng, t, &all, n);
            t += 40 + rng.below(260);
        }
    }
    if family == Family::Starve {
        // only endpoint 1 keeps changing, every 3..15 s, for the whole active phase
        let ep1: Vec<Path> = all.iter().copied().filter(|p| p.0 == 1).collect();
        steps.retain(|s| match &s.act {
            DevAct::Bump { paths, .. } => s.t_ms < 8_000 || paths.iter().all(|p| p.0 == 1),
            _ => true,
        });
        let period = 3_000 + rng.below(12_000);
        let mut t = 8_000;
        while t < t_quiet_ms {
            steps.push(DevStep { t_ms: t, act: DevAct::Bump { paths: rand_paths(rng, &ep1, 1), notify: Notify::Attr } });
            t += period / 2 + rng.below(period / 2 + 1);
        }
    }
    // > 16 distinct pending changes
    if family == Family::Coalesce || (family == Family::Mix && rng.chance(1, 2)) {
        let bursts = 1 + rng.usize(2);
        for _ in 0..bursts {
            let t = 3_000 + rng.below(t_quiet_ms - 3_500);
            let n = 17 + rng.usize(16);
            let mut paths = all.clone();
            rng.shuffle(&mut paths);
            paths.truncate(n);
            if rng.bool() {
                steps.push(DevStep { t_ms: t, act: DevAct::Bump { paths, notify: Notify::Attr } });
            } else {
                for (k, p) in paths.into_iter().enumerate() {
                    steps.push(DevStep {
                        t_ms: t + (k as u64) * rng.below(12),
                        act: DevAct::Bump { paths: vec![p], notify: Notify::Attr },
                    });
                }
            }
        }
    }
    // last changes close to the quiet point
    let nl = 1 + rng.usize(3);
    for _ in 0..nl {
        let t = t_quiet_ms - rng.below(500);
        let nn = 1 + rng.usize(2);
        add_bump(&mut steps, rng, t, &all, nn);
    }
    if rng.bool() {
        let te = t_quiet_ms - rng.below(500);
        add_emit(&mut steps, rng, te);
    }

    // ---- faults
    let mut windows: Vec<Vec<PolicyWindow>> = vec![Vec::new(); n_subs];
    let mut down: Vec<(usize, u64, u64)> = Vec::new();
    let mut chaos = None;
    let mut permafail = None;
    let mut n_restarts = 0;
    match family {
        Family::FailRetry => {
            let j = 1 + rng.usize(n_subs);
            let a = 4_000 + rng.below(6_000);
            let len = 3_000 + rng.below(30_000);
            let b = (a + len).min(t_quiet_ms - 1_000);
            if rng.chance(2, 3) {
                windows[j - 1].push(PolicyWindow { from_ms: a, to_ms: b, silent_pct: 100, fail_pct: 0 });
            } else {
                down.push((j, a, b));
            }
            if n_subs > 1 && rng.chance(1, 3) {
                let j2 = 1 + rng.usize(n_subs);
                if j2 != j {
                    let a2 = 4_000 + rng.below(10_000);
                    let b2 = (a2 + 2_000 + rng.below(20_000)).min(t_quiet_ms - 1_000);
                    down.push((j2, a2, b2));
                }
            }
        }
        Family::PermaFail => {
            let j = 1 + rng.usize(n_subs);
            let a = 5_000 + rng.below(7_000);
            windows[j - 1].push(PolicyWindow { from_ms: a, to_ms: u64::MAX, silent_pct: 100, fail_pct: 0 });
            permafail = Some(j);
            if rng.chance(1, 3) {
                n_restarts = 1;
            }
        }
        Family::Restart => {
            n_restarts = if rng.chance(1, 4) { 2 } else { 1 };
            if rng.chance(1, 3) {
                let j = 1 + rng.usize(n_subs);
                let a = 4_000 + rng.below(6_000);
                let b = (a + 2_000 + rng.below(12_000)).min(t_quiet_ms - 1_000);
                if rng.bool() {
                    windows[j - 1].push(PolicyWindow { from_ms: a, to_ms: b, silent_pct: 100, fail_pct: 0 });
                } else {
                    down.push((j, a, b));
                }
            }
        }
        Family::Mix => {
            for j in 1..=n_subs {
                if rng.chance(1, 2) {
                    let a = 3_000 + rng.below(15_000);
                    let b = (a + 1_000 + rng.below(25_000)).min(t_quiet_ms - 1_000);
                    windows[j - 1].push(PolicyWindow {
                        from_ms: a,
                        to_ms: b,
                        silent_pct: *rng.pick(&[30u32, 60, 100]),
                        fail_pct: *rng.pick(&[0u32, 0, 0, 10]),
                    });
                }
                if rng.chance(1, 4) {
                    let a = 3_000 + rng.below(20_000);
                    let b = (a + 1_000 + rng.below(15_000)).min(t_quiet_ms - 1_000);
                    down.push((j, a, b));
                }
            }
            if rng.chance(1, 2) {
                let a = 2_000 + rng.below(10_000);
                let b = (a + 2_000 + rng.below(15_000)).min(t_quiet_ms - 500);
                chaos = Some((a, b, *rng.pick(&[5u32, 15, 30])));
            }
            if rng.chance(1, 3) {
                n_restarts = 1;
            }
        }
        _ => {}
    }
    for _ in 0..n_restarts {
        let t = 5_000 + rng.below(t_quiet_ms - 8_000);
        // a change that is still pending when the device goes down
        let gap = rng.below(60);
        let nn = 1 + rng.usize(2);
        add_bump(&mut steps, rng, t.saturating_sub(gap), &all, nn);
        steps.push(DevStep { t_ms: t, act: DevAct::Restart { down_ms: 500 + rng.below(2_500) } });
    }
    steps.sort_by_key(|s| s.t_ms);

    let end_ms = t_quiet_ms + 3 * max_neg * 1000 + 15_000;

    Params {
        seed,
        family,
        n_subs,
        plans,
        windows,
        down,
        dev_steps: steps,
        slow_net_ms,
        chaos,
        t_quiet_ms,
        end_ms,
        shuffle: true,
        permafail,
    }
}

pub fn run_case(p: &Params) -> Outcome {
    clock::reset(1_000_000);
    let t0 = clock::now();
    let mut out = Outcome { t0, ..Default::default() };
    let mut rng = Rng::new(p.seed);
    let now_matter_secs: u32 = 800_000_000;

    let crypto_g = node::crypto(rng.fork());
    let crypto_d0 = node::crypto(rng.fork());
    let with_icac = rng_bool(&mut rng);
    // The certificate generators fail for about 1% of the seeded key draws (observed,
    // independent of this property): retry with the next draws.
    let mut ca = None;
    let mut ca_err = String::new();
    for _ in 0..6 {
        match FabricCa::new(&crypto_g, &mut rng, 0x77, with_icac) {
            Ok(c) => {
                ca = Some(c);
                break;
            }
            Err(e) => {
                out.ca_retries += 1;
                ca_err = format!("{:?}", e.code());
                out.ca_error = ca_err.clone();
            }
        }
    }
    let Some(ca) = ca else {
        out.setup_error = Some(format!("ca: {}", ca_err));
        return out;
    };
    let Ok(creds_d) = ca.mint(&crypto_g, DEV_NODE, &[]) else {
        out.setup_error = Some("mint device".into());
        return out;
    };

    let n = p.n_subs;
    let hub = NetHub::new(rng.u64(), 1 + n);
    let kv = SimKv::from_map(Default::default(), false);
    let store = DevStore::new();

    let md = node::new_matter();
    set_rtc(&md, now_matter_secs);

    let env = DevEnv {
        hub: hub.clone(),
        kv: kv.clone(),
        store: &store,
        ca: &ca,
        creds: &creds_d,
        n_subs: n,
        seed: subseed(p.seed, &[1]),
        shuffle: p.shuffle,
        steps: &p.dev_steps,
        t0,
        now_matter_secs,
    };
    let fab_d = match install_device_fabric(&env, &md, &crypto_d0) {
        Ok(f) => f,
        Err(e) => {
            out.setup_error = Some(format!("device fabric: {:?}", e));
            return out;
        }
    };

    // subscribers
    let mut sub_matters = Vec::new();
    let mut sub_cryptos = Vec::new();
    let mut sub_fabs = Vec::new();
    let mut sub_states: Vec<SubState> = Vec::new();
    for i in 1..=n {
        let m = node::new_matter();
        set_rtc(&m, now_matter_secs);
        let c = node::crypto(rng.fork());
        let Ok(creds) = ca.mint(&crypto_g, sub_node_id(i), &[]) else {
            out.setup_error = Some("mint subscriber".into());
            return out;
        };
        let fab = match ca.install(&m, &c, &creds, DEV_NODE) {
            Ok(f) => f,
            Err(e) => {
                out.setup_error = Some(format!("subscriber fabric: {:?}", e));
                return out;
            }
        };
        let k1: [u8; 16] = rng.bytes(16).try_into().unwrap();
        let k2: [u8; 16] = rng.bytes(16).try_into().unwrap();
        if let Err(e) = node::mirrored_sessions(
            &m,
            &md,
            &c,
            hub.addr(i),
            hub.addr(0),
            sub_node_id(i),
            DEV_NODE,
            2000 + i as u16,
            1000 + i as u16,
            SessionMode::Case { fab_idx: fab, cat_ids: Default::default() },
            SessionMode::Case { fab_idx: fab_d, cat_ids: Default::default() },
            &k1,
            &k2,
        ) {
            out.setup_error = Some(format!("mirrored sessions: {:?}", e));
            return out;
        }
        sub_states.push(SubState {
            idx: i,
            log: RefCell::new(Vec::new()),
            windows: p.windows[i - 1].clone(),
            rng: RefCell::new(Rng::new(subseed(p.seed, &[0x50, i as u64]))),
            t0,
            xchg: Cell::new(0),
        });
        sub_matters.push(m);
        sub_cryptos.push(c);
        sub_fabs.push(fab);
    }

    // adversary: slow network and chaos window, only before the quiet point
    {
        let slow = p.slow_net_ms;
        let chaos = p.chaos;
        let t_quiet = p.t_quiet_ms;
        hub.set_adversary(Some(Box::new(move |_d, rng| {
            let now_ms = (clock::now() - t0) / clock::TICKS_PER_MS;
            if now_ms >= t_quiet {
                return vec![Delivery::normal()];
            }
            let mut res = if slow > 0 {
                vec![Delivery { delay_us: 1000 + rng.below(slow * 1000), bytes: None }]
            } else {
                vec![Delivery::normal()]
            };
            if let Some((a, b, pct)) = chaos {
                if now_ms >= a && now_ms < b {
                    if rng.chance(pct, 100) {
                        res.clear();
                    } else if rng.chance(pct, 200) {
                        res.push(Delivery::after_ms(1 + rng.below(300)));
                    }
                }
            }
            res
        })));
    }

    let limits = Limits {
        max_polls: 30_000_000,
        horizon: t0 + (p.end_ms + 20_000) * clock::TICKS_PER_MS,
        shuffle: p.shuffle,
    };

    let run = {
        let hub = hub.clone();
        let seed = p.seed;
        let shuffle = p.shuffle;
        let sub_states = &sub_states;
        let sub_matters = &sub_matters;
        let sub_cryptos = &sub_cryptos;
        let sub_fabs = &sub_fabs;
        let mut exec_rng = Rng::new(subseed(seed, &[7]));
        catch_unwind(AssertUnwindSafe(move || {
            // task 0: the director (touches no Matter instance): node up/down and the end.
            let director: BoxFut = {
                let hub = hub.clone();
                let mut toggles: Vec<(u64, usize, bool)> = Vec::new();
                for (j, a, b) in p.down.iter() {
                    toggles.push((*a, *j, false));
                    toggles.push((*b, *j, true));
                }
                toggles.sort();
                let end_ms = p.end_ms;
                Box::pin(async move {
                    for (t, j, up) in toggles {
                        let at = t0 + t * clock::TICKS_PER_MS;
                        if at > clock::now() {
                            exec::sleep_us(at - clock::now()).await;
                        }
                        hub.set_up(j, up);
                    }
                    let at = t0 + end_ms * clock::TICKS_PER_MS;
                    if at > clock::now() {
                        exec::sleep_us(at - clock::now()).await;
                    }
                })
            };
            let mut tasks: Vec<BoxFut> = vec![director];
            tasks.push(Box::pin(device_task(env, md)));
            for i in 1..=n {
                let ep = hub.endpoint(i);
                let m = &*sub_matters[i - 1];
                let c = &sub_cryptos[i - 1];
                let st = &sub_states[i - 1];
                let fab = sub_fabs[i - 1];
                let plans = &p.plans[i - 1];
                tasks.push(Box::pin(async move {
                    let handler = ChainedExchangeHandler::new(
                        PROTO_ID_INTERACTION_MODEL,
                        ReportSink(st),
                        SecureChannel::new(c, &()),
                    );
                    let responder = Responder::new("sub", handler, m, 0);
                    let t: BoxFut = Box::pin(async {
                        let _ = m.run(c, ep.clone(), ep.clone(), ep.clone()).await;
                    });
                    let r: BoxFut = Box::pin(async {
                        let _ = responder.run::<4>().await;
                    });
                    let s: BoxFut = Box::pin(subscriber_script(
                        m,
                        c,
                        fab,
                        st,
                        plans,
                        subseed(seed, &[0x51, i as u64]),
                    ));
                    exec::ShuffleSelect::new(subseed(seed, &[0x52, i as u64]), shuffle, vec![s, t, r]).await
                }));
            }
            exec::run(&mut exec_rng, limits, tasks)
        }))
    };

    hub.set_adversary(None);

    match run {
        Ok(o) => {
            out.status = Some(o.status);
            out.sched_hash = o.sched_hash;
            out.end_time = o.end_time;
            out.polls = o.polls;
        }
        Err(e) => {
            out.panic = Some(crate::util::panic_msg(&e));
            out.end_time = clock::now();
        }
    }

    out.dev_log = store.log.borrow().clone();
    out.sub_logs = sub_states.iter().map(|s| s.log.borrow().clone()).collect();
    out.final_versions = store.versions.borrow().clone();
    out.reads = store.reads.get();
    out.datagrams = hub.tap_len() as u64;

    // passive nonce monitor; epoch = device boot index (fresh session tables after a restart)
    let tap = tapmon::TapMonitor::new();
    let boots: Vec<u64> = out
        .dev_log
        .iter()
        .filter_map(|e| match e {
            DevEv::Down { t } => Some(*t),
            _ => None,
        })
        .collect();
    hub.with_tap(|t| {
        // A byte-identical retransmission that straddles a device restart belongs to the
        // session table (epoch) in which it was first sent.
        let mut first_epoch: std::collections::HashMap<(usize, u64), u64> = std::collections::HashMap::new();
        for ev in t {
            if !ev.injected {
                let now_epoch = boots.iter().filter(|b| **b <= ev.dgram.t).count() as u64;
                let epoch = *first_epoch.entry((ev.dgram.src, Fnv::of(&ev.dgram.bytes))).or_insert(now_epoch);
                let dst = ev.dgram.dst.map(|d| d as u64 + 1).unwrap_or(0);
                tap.observe_keyed(ev.dgram.src, dst << 32, &ev.dgram.bytes, epoch);
            }
        }
    });
    out.tap_violations = tap.violations();
    hub.with_tap(|t| {
        for ev in t {
            if ev.injected || ev.dgram.src != 0 {
                continue;
            }
            let Some(dst) = ev.dgram.dst else { continue };
            let unsecured = crate::sim::wire::peek(&ev.dgram.bytes).map(|i| i.session_id == 0).unwrap_or(false);
            out.wire.push((
                ev.dgram.t,
                dst,
                ev.dgram.bytes.len(),
                Fnv::of(&ev.dgram.bytes),
                ev.deliveries.iter().map(|(d, _)| ev.dgram.t + *d).collect(),
                unsecured,
            ));
        }
    });
    if std::env::var("RSMV_TRACE_WIRE").is_ok() {
        hub.with_tap(|t| {
            for ev in t {
                let i = crate::sim::wire::peek(&ev.dgram.bytes);
                eprintln!(
                    "W {:>12.3} ms src={} dst={:?} len={:>4} sess/ctr={:?} deliveries={:?}",
                    (ev.dgram.t - t0) as f64 / 1000.0,
                    ev.dgram.src,
                    ev.dgram.dst,
                    ev.dgram.bytes.len(),
                    i.map(|i| (i.session_id, i.ctr)),
                    ev.deliveries
                );
            }
        });
    }

    if std::env::var("RSMV_TRACE").is_ok() {
        dump_logs(p, &out);
    }
    out
}

fn rng_bool(rng: &mut Rng) -> bool {
    rng.bool()
}

pub fn dump_logs(p: &Params, o: &Outcome) {
    eprintln!("=== C13 params: {:?}", p);
    eprintln!("=== status {:?} panic {:?} polls {} datagrams {} end {}", o.status, o.panic, o.polls, o.datagrams, o.end_time);
    let mut lines: Vec<(u64, String)> = Vec::new();
    for e in &o.dev_log {
        lines.push((e.t(), format!("D   {:?}", e)));
    }
    for (i, l) in o.sub_logs.iter().enumerate() {
        for e in l {
            lines.push((e.t(), format!("S{}  {}", i + 1, fmt_sub_ev(e))));
        }
    }
    lines.sort_by_key(|l| l.0);
    for (t, s) in lines {
        eprintln!("{:>12.3} ms  {}", (t - o.t0) as f64 / 1000.0, s);
    }
}

pub fn fmt_sub_ev(e: &SubEv) -> String {
    let fc = |c: &super::c13_sub::Content| {
        format!(
            "attrs[{}]={:?} events={:?} odd={:?}",
            c.attrs.len(),
            c.attrs.iter().map(|(p, v)| format!("{}/{:x}/{}=v{}", p.0, p.1, p.2, v)).collect::<Vec<_>>(),
            c.events,
            c.odd
        )
    };
    match e {
        SubEv::Priming { ord, chunk, sub_id, content, more, .. } => {
            format!("Priming ord={} chunk={} id={:?} more={} {}", ord, chunk, sub_id, more, fc(content))
        }
        SubEv::Report { sub_id, xchg, chunk, content, more, suppress, answered, .. } => format!(
            "Report id={:?} xchg={} chunk={} more={} suppress={} answered={:?} {}",
            sub_id, xchg, chunk, more, suppress, answered, fc(content)
        ),
        other => format!("{:?}", other),
    }
}

fn params_json(p: &Params) -> serde_json::Value {
    json!({
        "check": "C13",
        "family": format!("{:?}", p.family),
        "n_subs": p.n_subs,
        "t_quiet_ms": p.t_quiet_ms,
        "end_ms": p.end_ms,
        "gen": "replay by (shard_seed, index): see gen_params",
    })
}

/// Abstract scenario trace: sequence of (event kind, subscriber, outcome class), times dropped.
fn trace_hash(p: &Params, o: &Outcome) -> u64 {
    let mut items: Vec<(u64, String)> = Vec::new();
    for e in &o.dev_log {
        let s = match e {
            DevEv::Boot { boot, .. } => format!("B{}", boot.min(&3)),
            DevEv::Down { .. } => "X".into(),
            DevEv::Change { .. } => "C".into(),
            DevEv::Event { .. } => "E".into(),
            DevEv::Error { .. } => "!".into(),
        };
        items.push((e.t(), s));
    }
    for (i, l) in o.sub_logs.iter().enumerate() {
        for e in l {
            let s = match e {
                SubEv::Start { .. } => format!("s{}", i),
                SubEv::Priming { more, .. } => format!("p{}{}", i, *more as u8),
                SubEv::Established { .. } => format!("e{}", i),
                SubEv::Failed { .. } => format!("f{}", i),
                SubEv::Report { content, answered, .. } => format!(
                    "r{}{}{}{}",
                    i,
                    match answered {
                        Policy::Ok => 'o',
                        Policy::Silent => 's',
                        Policy::Fail => 'f',
                    },
                    (!content.attrs.is_empty()) as u8,
                    (!content.events.is_empty()) as u8
                ),
            };
            items.push((e.t(), s));
        }
    }
    items.sort();
    let mut f = Fnv::new();
    f.add(format!("{:?}", p.family).as_bytes());
    let mut last = String::new();
    for (_, s) in items {
        // collapse runs of identical kinds (bursts of changes)
        if s != last {
            f.add(s.as_bytes());
            last = s;
        }
    }
    f.0
}

struct VLog;
impl log::Log for VLog {
    fn enabled(&self, m: &log::Metadata) -> bool {
        m.level() <= log::Level::Debug && m.target().starts_with("rs_matter::im")
    }
    fn log(&self, r: &log::Record) {
        if self.enabled(r.metadata()) {
            eprintln!("L {:>12.3} ms {} {}", (clock::now() as f64 - 1_000_000.0) / 1000.0, r.level(), r.args());
        }
    }
    fn flush(&self) {}
}
static VLOG: VLog = VLog;

pub fn run(ctx: &Ctx) -> Report {
    if std::env::var("RSMV_C13_LOG").is_ok() {
        let _ = log::set_logger(&VLOG);
        log::set_max_level(log::LevelFilter::Debug);
    }
    let mut rep = Report::new(
        "C13",
        "End-to-end subscription scenarios: one real rs-matter device (attribute values = version numbers, events with unique \
         payloads) and 1..4 subscriber nodes using the public subscribe client and a report sink answering Success / Failure / \
         nothing; changes and events at seeded times (bursts around every priming), silent / down subscribers, lossy network, \
         device restart from the same KV store. distinct = hash of the abstract scenario trace (time-ordered sequence of \
         (event kind, subscriber, outcome class), runs of equal items collapsed).",
    );
    crate::util::quiet_panics();
    rep.max_samples = 4;
    rep.assumptions.push("liveness is judged as bounded progress: after the last change/fault (the quiet point) the run continues for 3*max_interval + 15 s of virtual time; completeness of a subscription is judged at the last report it received, and only if that report came at least 2*max_interval + 12 s after the quiet point".into());
    rep.assumptions.push("events emitted before a device restart are not required to be reported after it (the event queue is volatile); only the count is recorded".into());
    rep.assumptions.push("fabric credentials are re-installed by the harness after a restart (fabric persistence is C11); subscriptions, event epoch come from the KV store".into());
    rep.assumptions.push("the device resolves subscriber addresses through a harness stand-in for the mDNS responder (public Transport rendezvous API)".into());

    let scale = |n: u64| if ctx.thorough { n * 40 } else { n };
    rep.floor("scenarios_with_change_during_priming", scale(60));
    rep.floor("scenarios_with_failed_then_retried_report", scale(12));
    rep.floor("scenarios_with_more_than_16_pending_changes", scale(20));
    rep.floor("scenarios_with_2plus_subscribers", scale(100));
    rep.floor("scenarios_with_restart", scale(25));
    rep.floor("scenarios_with_multichunk_priming", scale(100));
    rep.floor("reports_received", scale(3000));
    rep.floor("S1-attr-evaluated", scale(3000));
    rep.floor("S1-attr-changed-after-subscribe", scale(1000));
    rep.floor("S1-event-evaluated", scale(150));
    rep.floor("S2-evaluated", scale(20));
    rep.floor("S3-evaluated", scale(150));
    rep.floor("S4-evaluated", scale(1500));
    rep.floor("S5-evaluated", scale(15));

    if let Some(r) = &ctx.replay {
        let seed: u64 = r["shard_seed"].as_str().and_then(|s| s.parse().ok()).unwrap_or(0);
        let idx = r["index"].as_u64().unwrap_or(0);
        let mut rng = Rng::new(subseed(seed, &[idx]));
        let p = gen_params(&mut rng, idx);
        let o = run_case(&p);
        rep.evaluations += 1;
        c13_oracle::judge(&mut rep, &p, &o, r.clone());
        rep.sample(json!({"family": format!("{:?}", p.family), "n_subs": p.n_subs, "status": format!("{:?}", o.status)}));
        return rep;
    }

    let total = ctx.share(400, 20_000);
    let shard_seed = ctx.shard_seed();
    let only: Option<u64> = std::env::var("RSMV_C13_ONLY").ok().and_then(|s| s.parse().ok());
    for k in 0..total {
        if only.map(|o| o != k).unwrap_or(false) {
            continue;
        }
        let idx = k * ctx.nshards + ctx.shard;
        let mut rng = Rng::new(subseed(shard_seed, &[idx]));
        let p = gen_params(&mut rng, idx);
        let o = run_case(&p);
        rep.evaluations += 1;
        let mut pj = params_json(&p);
        pj["shard_seed"] = json!(shard_seed.to_string());
        pj["index"] = json!(idx);
        c13_oracle::judge(&mut rep, &p, &o, pj);
        rep.distinct.insert(trace_hash(&p, &o));
        rep.interleavings.insert(o.sched_hash);
        rep.count_n("datagrams_observed", o.datagrams);
        rep.count_n("attribute_reads_served", o.reads);
        rep.count(&format!("family:{:?}", p.family));
        if k < 2 {
            rep.sample(json!({
                "family": format!("{:?}", p.family), "n_subs": p.n_subs, "status": format!("{:?}", o.status),
                "t_quiet_ms": p.t_quiet_ms, "end_ms": p.end_ms, "polls": o.polls, "datagrams": o.datagrams,
                "dev_log_len": o.dev_log.len(), "reports": o.sub_logs.iter().map(|l| l.len()).collect::<Vec<_>>(),
            }));
        }
    }
    rep
}
