//! C17 — mDNS: service records, query/answer encoding and decoding.
//!
//! Public encoders: `Host::broadcast`, `Host::respond` (answer to a query),
//! `MatterLocalService::service` (Matter service → record set).
//! Public decoders: `parse_into_answer` (answers), `Host::respond` (queries).
//! `build_browse_query` / `build_resolve_query` need a `domain::ToName`, which cannot be
//! produced outside the crate without depending on `domain`; queries are therefore built
//! by the harness's own DNS encoder, and every answer is additionally decoded by the
//! harness's own DNS decoder (independent of the `domain` crate).

use std::net::{IpAddr, Ipv4Addr, Ipv6Addr};

use rs_matter::dm::clusters::basic_info::BasicInfoConfig;
use rs_matter::dm::devices::test::{TEST_DEV_ATT, TEST_DEV_COMM};
use rs_matter::transport::network::mdns::builtin::{parse_into_answer, Host, RespondMode};
use rs_matter::transport::network::mdns::{CommissionableFilter, MdnsLocalService};
use rs_matter::transport::network::{MatterLocalService, MatterRemoteService};
use rs_matter::Matter;

use crate::sim::rng::Rng;

use super::c17::{edge, guard, hex, Cx, Decoder, Format};

pub fn skipped_notes() -> Vec<String> {
    vec!["mdns build_browse_query/build_resolve_query: argument type `impl domain::ToName` is not constructible from outside the crate (NameSlice is private, DottedName is only ToLabelIter); queries are encoded by the harness".into()]
}

// ---------------------------------------------------------------------------------------
// Independent DNS encoder / decoder
// ---------------------------------------------------------------------------------------

#[derive(Clone, Debug, PartialEq)]
pub struct Rr {
    pub name: String,
    pub rtype: u16,
    pub class: u16,
    pub ttl: u32,
    pub rdata: Vec<u8>,
    /// names inside the rdata, decompressed (PTR target, SRV target)
    pub rname: Option<String>,
    pub port: Option<u16>,
}

#[derive(Clone, Debug, Default)]
pub struct Msg {
    pub id: u16,
    pub flags: u16,
    pub questions: Vec<(String, u16, u16)>,
    pub records: Vec<Rr>, // answer + authority + additional
    pub counts: [u16; 4],
}

fn rd_name(buf: &[u8], mut off: usize) -> Option<(String, usize)> {
    let mut out = String::new();
    let mut next: Option<usize> = None;
    let mut jumps = 0;
    loop {
        let l = *buf.get(off)? as usize;
        if l == 0 {
            off += 1;
            break;
        }
        if l & 0xC0 == 0xC0 {
            let p = ((l & 0x3F) << 8) | *buf.get(off + 1)? as usize;
            if next.is_none() {
                next = Some(off + 2);
            }
            jumps += 1;
            if jumps > 64 {
                return None;
            }
            off = p;
            continue;
        }
        if l > 63 {
            return None;
        }
        let lab = buf.get(off + 1..off + 1 + l)?;
        if !out.is_empty() {
            out.push('.');
        }
        out.push_str(&String::from_utf8_lossy(lab));
        off += 1 + l;
        if out.len() > 300 {
            return None;
        }
    }
    Some((out, next.unwrap_or(off)))
}

pub fn parse_msg(buf: &[u8]) -> Option<Msg> {
    if buf.len() < 12 {
        return None;
    }
    let u16at = |o: usize| -> Option<u16> { Some(u16::from_be_bytes([*buf.get(o)?, *buf.get(o + 1)?])) };
    let mut m = Msg { id: u16at(0)?, flags: u16at(2)?, ..Default::default() };
    for i in 0..4 {
        m.counts[i] = u16at(4 + 2 * i)?;
    }
    let mut off = 12;
    for _ in 0..m.counts[0] {
        let (n, o) = rd_name(buf, off)?;
        m.questions.push((n, u16at(o)?, u16at(o + 2)?));
        off = o + 4;
    }
    let total = m.counts[1] as usize + m.counts[2] as usize + m.counts[3] as usize;
    for _ in 0..total {
        let (n, o) = rd_name(buf, off)?;
        let rtype = u16at(o)?;
        let class = u16at(o + 2)?;
        let ttl = u32::from_be_bytes([*buf.get(o + 4)?, *buf.get(o + 5)?, *buf.get(o + 6)?, *buf.get(o + 7)?]);
        let rdlen = u16at(o + 8)? as usize;
        let rstart = o + 10;
        let rdata = buf.get(rstart..rstart + rdlen)?.to_vec();
        let (rname, port) = match rtype {
            12 => (Some(rd_name(buf, rstart)?.0), None),
            33 => (Some(rd_name(buf, rstart + 6)?.0), Some(u16at(rstart + 4)?)),
            _ => (None, None),
        };
        m.records.push(Rr { name: n, rtype, class, ttl, rdata, rname, port });
        off = rstart + rdlen;
    }
    if off != buf.len() {
        return None;
    }
    Some(m)
}

fn wr_name(out: &mut Vec<u8>, name: &str) {
    for lab in name.split('.') {
        if lab.is_empty() {
            continue;
        }
        out.push(lab.len() as u8);
        out.extend(lab.as_bytes());
    }
    out.push(0);
}

/// A query with the given questions; `compress` re-uses the first question's name by pointer.
pub fn build_query(id: u16, questions: &[(String, u16, u16)], compress: bool) -> Vec<u8> {
    let mut v = Vec::new();
    v.extend(id.to_be_bytes());
    v.extend(0u16.to_be_bytes());
    v.extend((questions.len() as u16).to_be_bytes());
    v.extend([0u8; 6]);
    let mut first_suffix: Option<(String, usize)> = None;
    for (n, t, c) in questions {
        match &first_suffix {
            Some((suffix, at)) if compress && n.ends_with(suffix.as_str()) && n.len() > suffix.len() + 1 => {
                let head = &n[..n.len() - suffix.len() - 1];
                for lab in head.split('.') {
                    v.push(lab.len() as u8);
                    v.extend(lab.as_bytes());
                }
                v.push(0xC0 | (*at >> 8) as u8);
                v.push(*at as u8);
            }
            Some((suffix, at)) if compress && n == suffix => {
                v.push(0xC0 | (*at >> 8) as u8);
                v.push(*at as u8);
            }
            _ => {
                let at = v.len();
                wr_name(&mut v, n);
                if first_suffix.is_none() {
                    // remember the position of the part after the first label
                    if let Some((first, rest)) = n.split_once('.') {
                        first_suffix = Some((rest.to_string(), at + 1 + first.len()));
                    }
                }
            }
        }
        v.extend(t.to_be_bytes());
        v.extend(c.to_be_bytes());
    }
    v
}

// ---------------------------------------------------------------------------------------
// Workload description
// ---------------------------------------------------------------------------------------

#[derive(Clone, Debug)]
struct Svc {
    name: String,
    service: String,
    protocol: String,
    port: u16,
    subtypes: Vec<String>,
    txt: Vec<(String, String)>,
    hostname: String,
    ip: Ipv4Addr,
    ipv6: Vec<Ipv6Addr>,
}

impl Svc {
    fn instance(&self) -> String {
        format!("{}.{}.{}.local", self.name, self.service, self.protocol)
    }
    fn stype(&self) -> String {
        format!("{}.{}.local", self.service, self.protocol)
    }
    fn host(&self) -> String {
        format!("{}.local", self.hostname)
    }
}

fn label(rng: &mut Rng, max: usize) -> String {
    let n = match rng.below(8) {
        0 => 1,
        1 => max,
        2 => max - 1,
        _ => 1 + rng.usize(max.min(24)),
    };
    (0..n).map(|_| *rng.pick(b"ABCDEFabcdefghijklmnopqrstuvwxyz0123456789-_") as char).collect()
}

fn gen_svc(m: u64, rng: &mut Rng) -> Svc {
    let commissionable = m % 2 == 0;
    let name = match m / 2 % 4 {
        0 => format!("{:016X}", rng.u64()),
        1 => format!("{:016X}-{:016X}", rng.u64(), rng.u64()),
        _ => label(rng, 63),
    };
    let nsub = rng.usize(6);
    let ntxt = match m / 8 % 4 {
        0 => 0,
        1 => 1,
        _ => rng.usize(12),
    };
    let mut txt = Vec::new();
    for i in 0..ntxt {
        let key: String = match rng.below(4) {
            0 => ["D", "VP", "CM", "DT", "DN", "SII", "SAI", "SAT", "T", "ICD", "PH", "PI", "RI"][rng.usize(13)].to_string(),
            _ => format!("{}{}", label(rng, 8), i),
        };
        let vl = match rng.below(6) {
            0 => 0,
            1 => 254 - key.len(), // k=v exactly 255 bytes
            2 => 1,
            _ => rng.usize(40),
        };
        let val: String = (0..vl).map(|_| *rng.pick(b"0123456789+=ABCxyz ._-/:") as char).collect();
        txt.push((key, val));
    }
    let nv6 = rng.usize(4);
    Svc {
        name,
        service: if commissionable { "_matterc".into() } else { "_matter".into() },
        protocol: if commissionable { "_udp".into() } else { "_tcp".into() },
        port: edge(rng, 16) as u16,
        subtypes: (0..nsub).map(|i| format!("_{}{}", ["L", "S", "V", "T", "CM", "I"][i % 6], rng.below(70000))).collect(),
        txt,
        hostname: label(rng, 63),
        ip: if rng.chance(1, 5) { Ipv4Addr::UNSPECIFIED } else { Ipv4Addr::from(rng.u32().max(1)) },
        ipv6: (0..nv6)
            .map(|_| {
                if rng.chance(1, 6) {
                    Ipv6Addr::UNSPECIFIED
                } else {
                    let mut b = [0u8; 16];
                    b.copy_from_slice(&rng.bytes(16));
                    if rng.bool() {
                        b[0] = 0xfe;
                        b[1] = 0x80;
                    }
                    Ipv6Addr::from(b)
                }
            })
            .collect(),
    }
}

/// Run `f` with the rs-matter view of the service.
fn with_service<R>(s: &Svc, f: impl FnOnce(&Host<'_>, &MdnsLocalService<'_, std::vec::IntoIter<&str>, std::vec::IntoIter<(&str, &str)>>) -> R) -> R {
    let sp = format!("{}.{}", s.service, s.protocol);
    let subs: Vec<&str> = s.subtypes.iter().map(|x| x.as_str()).collect();
    let kvs: Vec<(&str, &str)> = s.txt.iter().map(|(k, v)| (k.as_str(), v.as_str())).collect();
    let svc = MdnsLocalService {
        name: &s.name,
        service: &s.service,
        protocol: &s.protocol,
        service_protocol: &sp,
        port: s.port,
        service_subtypes: subs.into_iter(),
        txt_kvs: kvs.into_iter(),
    };
    let host = Host { hostname: &s.hostname, ip: s.ip, ipv6: &s.ipv6 };
    f(&host, &svc)
}

#[derive(Debug, PartialEq)]
struct Answer {
    instance: String,
    port: Option<u16>,
    addrs: Vec<IpAddr>,
    txt: Vec<(String, String)>,
}

/// rs-matter's decoder, driven to the end (lazy iterators included).
fn decode_answer(data: &[u8]) -> Result<Option<Answer>, String> {
    let a = parse_into_answer(data, Some(3)).map_err(|e| format!("{:?}", e))?;
    let Some(a) = a else { return Ok(None) };
    let instance = format!("{}", a.instance_name);
    let instance = instance.trim_end_matches('.').to_string();
    let mut addrs = Vec::new();
    for ip in a.addrs.clone().take(2000) {
        addrs.push(ip);
    }
    if addrs.len() >= 2000 {
        panic!("harness: address iterator did not terminate within 2000 items for a {}-byte packet (iteration bound)", data.len());
    }
    let mut txt = Vec::new();
    for (k, v) in a.txt.clone().take(data.len() + 2) {
        txt.push((k.to_string(), v.to_string()));
    }
    if txt.len() > data.len() {
        panic!("harness: TXT iterator yielded more pairs than the packet has bytes (iteration bound)");
    }
    // the consumers of the decoded view
    let _ = a.session_params();
    let _ = a.supports_tcp_server();
    let f = CommissionableFilter { discriminator: Some(3840), vendor_id: Some(0xfff1), product_id: Some(0x8001), device_type: Some(22), short_discriminator: Some(15), commissioning_mode_only: true };
    let _ = f.matches(&a);
    let _ = MatterRemoteService::Commissionable { id: 1 }.matches_instance(&a.instance_name);
    let _ = MatterRemoteService::Operational { compressed_fabric_id: 1, node_id: 2 }.matches_instance(&a.instance_name);
    let _ = a.scope_id;
    Ok(Some(Answer { instance, port: a.port, addrs, txt }))
}

fn expected_addrs(s: &Svc) -> Vec<IpAddr> {
    let mut v: Vec<IpAddr> = Vec::new();
    if !s.ip.is_unspecified() {
        v.push(IpAddr::V4(s.ip));
    }
    for a in &s.ipv6 {
        if !a.is_unspecified() {
            v.push(IpAddr::V6(*a));
        }
    }
    dedup(v)
}

fn dedup(v: Vec<IpAddr>) -> Vec<IpAddr> {
    let mut out: Vec<IpAddr> = Vec::new();
    for a in v {
        if !out.contains(&a) {
            out.push(a);
        }
    }
    out
}

fn txt_of(rdata: &[u8]) -> Vec<(String, String)> {
    let mut v = Vec::new();
    let mut i = 0;
    while i < rdata.len() {
        let l = rdata[i] as usize;
        let e = &rdata[i + 1..(i + 1 + l).min(rdata.len())];
        let s = String::from_utf8_lossy(e).to_string();
        if let Some((k, val)) = s.split_once('=') {
            v.push((k.to_string(), val.to_string()));
        }
        i += 1 + l;
    }
    v
}

/// Check a full record set (broadcast or a complete answer) against the service.
fn check_records(cx: &mut Cx, what: &str, s: &Svc, pkt: &[u8], full: bool) -> bool {
    let mut ok = true;
    let Some(m) = parse_msg(pkt) else {
        cx.mismatch(&format!("{}/not-a-dns-message", what), "the harness's DNS decoder cannot decode the packet produced by the encoder".into(), pkt);
        return false;
    };
    ok &= cx.eq(&format!("{}/qr-flag", what), &true, &(m.flags & 0x8000 != 0), pkt);
    let find = |name: &str, t: u16| -> Vec<&Rr> { m.records.iter().filter(|r| r.rtype == t && r.name.eq_ignore_ascii_case(name)).collect() };

    if full {
        // SRV
        let srv = find(&s.instance(), 33);
        // (the same record may legitimately appear in the answer and in the additional section)
        if srv.is_empty() || srv.iter().any(|r| r.port != srv[0].port || r.rname != srv[0].rname) {
            cx.mismatch(&format!("{}/srv-count", what), format!("{} SRV records for {} (none, or contradicting ones)", srv.len(), s.instance()), pkt);
            return false;
        }
        ok &= cx.eq(&format!("{}/srv-port", what), &Some(s.port), &srv[0].port, pkt);
        ok &= cx.eq(&format!("{}/srv-target", what), &Some(s.host()), &srv[0].rname, pkt);
        // TXT
        let txt = find(&s.instance(), 16);
        if txt.is_empty() || txt.iter().any(|r| r.rdata != txt[0].rdata) {
            cx.mismatch(&format!("{}/txt-count", what), format!("{} TXT records (none, or contradicting ones)", txt.len()), pkt);
            return false;
        }
        ok &= cx.eq(&format!("{}/txt", what), &s.txt, &txt_of(&txt[0].rdata), pkt);
        // addresses
        let mut got: Vec<IpAddr> = Vec::new();
        for r in find(&s.host(), 1) {
            if r.rdata.len() == 4 {
                got.push(IpAddr::V4(Ipv4Addr::new(r.rdata[0], r.rdata[1], r.rdata[2], r.rdata[3])));
            }
        }
        for r in find(&s.host(), 28) {
            if r.rdata.len() == 16 {
                let mut b = [0u8; 16];
                b.copy_from_slice(&r.rdata);
                got.push(IpAddr::V6(Ipv6Addr::from(b)));
            }
        }
        ok &= cx.eq(&format!("{}/addresses", what), &expected_addrs(s), &dedup(got), pkt);
    }
    ok
}

fn check_answer(cx: &mut Cx, what: &str, s: &Svc, pkt: &[u8]) -> bool {
    match guard(|| decode_answer(pkt)) {
        Err(_) => {
            cx.fuzz("mdns.parse_into_answer", pkt, "encoded-by-rs-matter");
            false
        }
        Ok(Err(e)) => {
            cx.rt_fail(&format!("{}/refused", what), format!("{:?}: {}", s, e), pkt);
            false
        }
        Ok(Ok(None)) => {
            cx.rt_fail(&format!("{}/no-answer", what), format!("{:?}: parse_into_answer found nothing resolvable", s), pkt);
            false
        }
        Ok(Ok(Some(a))) => {
            let mut ok = cx.eq(&format!("{}/instance_name", what), &s.instance(), &a.instance, pkt);
            ok &= cx.eq(&format!("{}/port", what), &Some(s.port), &a.port, pkt);
            ok &= cx.eq(&format!("{}/addrs", what), &expected_addrs(s), &dedup(a.addrs), pkt);
            ok &= cx.eq(&format!("{}/txt", what), &s.txt, &a.txt, pkt);
            ok
        }
    }
}

// ---------------------------------------------------------------------------------------
// Decoders
// ---------------------------------------------------------------------------------------

fn dec_answer(input: &[u8]) -> bool {
    matches!(decode_answer(input), Ok(Some(_)))
}

fn fixed_svc() -> Svc {
    Svc {
        name: "00000000DEADBEEF".into(),
        service: "_matterc".into(),
        protocol: "_udp".into(),
        port: 5540,
        subtypes: vec!["_L3840".into(), "_S15".into(), "_V65521".into(), "_CM".into()],
        txt: vec![("D".into(), "3840".into()), ("CM".into(), "1".into()), ("VP".into(), "65521+32769".into())],
        hostname: "host1".into(),
        ip: Ipv4Addr::new(192, 168, 1, 5),
        ipv6: vec![Ipv6Addr::new(0xfe80, 0, 0, 0, 1, 2, 3, 4)],
    }
}

fn respond_with(s: &Svc, query: &[u8], legacy: bool) -> Result<(Vec<u8>, RespondMode), String> {
    with_service(s, |h, svc| {
        let mut out = vec![0u8; 16000];
        let (n, mode) = h.respond(svc, query, &mut out, 120, legacy).map_err(|e| format!("{:?}", e))?;
        out.truncate(n);
        Ok((out, mode))
    })
}

/// input[0] bit0 = legacy unicast; rest = query datagram
fn dec_respond(input: &[u8]) -> bool {
    if input.is_empty() {
        return false;
    }
    let legacy = input[0] & 1 == 1;
    match respond_with(&fixed_svc(), &input[1..], legacy) {
        Ok((out, mode)) => {
            // whatever was produced must itself be decodable without panic
            if !out.is_empty() {
                let _ = decode_answer(&out);
            }
            !matches!(mode, RespondMode::Skip)
        }
        Err(_) => false,
    }
}

/// Instance names / TXT pairs as the OS-backed responders hand them over (text):
/// first line = dotted instance name, following lines = `key=value`.
fn dec_dotted(input: &[u8]) -> bool {
    use rs_matter::transport::network::mdns::{DottedName, MdnsRemoteService};
    let s = String::from_utf8_lossy(input).into_owned();
    let mut lines = s.split('\n');
    let name = lines.next().unwrap_or("");
    let kv: Vec<(&str, &str)> = lines.filter_map(|l| l.split_once('=')).collect();
    let svc = MdnsRemoteService { instance_name: DottedName(name), port: Some(5540), addrs: std::iter::empty::<IpAddr>(), txt: kv.into_iter(), scope_id: 0 };
    let a = MatterRemoteService::Commissionable { id: 0xDEADBEEF }.matches_instance(&svc.instance_name);
    let b = MatterRemoteService::Operational { compressed_fabric_id: 1, node_id: 2 }.matches_instance(&svc.instance_name);
    let _ = svc.session_params();
    let _ = svc.supports_tcp_server();
    let f = CommissionableFilter { discriminator: Some(3840), short_discriminator: Some(15), vendor_id: Some(65521), product_id: Some(32769), device_type: Some(22), commissioning_mode_only: true };
    let c = f.matches(&svc);
    let mut t = heapless::String::<64>::new();
    f.service_type(&mut t, true);
    a | b | c
}

pub fn decoders() -> Vec<Decoder> {
    vec![
        Decoder { name: "mdns.dotted_name_and_txt", fmt: "mdns", max_len: 300, text: true, f: dec_dotted },
        Decoder { name: "mdns.parse_into_answer", fmt: "mdns", max_len: 1500, text: false, f: dec_answer },
        Decoder { name: "mdns.respond", fmt: "mdns", max_len: 600, text: false, f: dec_respond },
    ]
}

pub fn formats() -> Vec<Format> {
    vec![Format { name: "mdns", id: 30, quick: 200_000, thorough: 10_000_000, has_encoder: true, case: case_mdns }]
}

// ---------------------------------------------------------------------------------------
// Matter service records (MatterLocalService::service)
// ---------------------------------------------------------------------------------------

struct MatterEnv {
    cfg: &'static BasicInfoConfig<'static>,
    matter: &'static Matter<'static>,
}

thread_local! {
    static ENVS: std::cell::RefCell<Vec<MatterEnv>> = const { std::cell::RefCell::new(Vec::new()) };
}

const DEV_NAMES: [&str; 4] = ["", "MyTest", "Kitchen light =+ 1", "ÄÖ-Gerät 32 bytes xxxxxxxxxxxxxxx"];
const PAIR_INSTR: [&str; 3] = ["", "5", "press+hold=3s"];

fn env(i: usize) -> (&'static BasicInfoConfig<'static>, &'static Matter<'static>) {
    ENVS.with(|e| {
        let mut e = e.borrow_mut();
        while e.len() <= i {
            let n = e.len();
            let cfg = BasicInfoConfig {
                vid: [0xfff1u16, 0, 1, 0xffff, 0x1234, 0xfff4, 65521, 9][n % 8],
                pid: [0x8001u16, 0, 0xffff, 1, 0x8000, 7, 32769, 10][n % 8],
                device_name: DEV_NAMES[n % 4],
                device_type: [None, Some(0u16), Some(22), Some(0xffff)][n % 4],
                pairing_instruction: PAIR_INSTR[n % 3],
                sai: [None, Some(0u32), Some(300), Some(3_600_000)][(n / 2) % 4],
                sii: [None, Some(5000u32), Some(u32::MAX), Some(1)][(n / 3) % 4],
                tcp_supported: n % 2 == 1,
                ..BasicInfoConfig::new()
            };
            let cfg: &'static BasicInfoConfig<'static> = Box::leak(Box::new(cfg));
            let port = [5540u16, 0, 65535, 1][n % 4];
            let matter: &'static Matter<'static> = Box::leak(Box::new(Matter::new(cfg, TEST_DEV_COMM, &TEST_DEV_ATT, port)));
            e.push(MatterEnv { cfg, matter });
        }
        (e[i].cfg, e[i].matter)
    })
}

fn case_matter_service(cx: &mut Cx, rng: &mut Rng) {
    let ei = rng.usize(8);
    let (cfg, matter) = env(ei);
    let commissionable = rng.bool();
    let id = edge(rng, 64);
    let node = edge(rng, 64);
    let disc = if rng.bool() { rng.below(4096) as u16 } else { *rng.pick(&[0u16, 1, 0xff, 0x100, 0xf00, 0xfff]) };
    let enhanced = rng.bool();
    let ls = if commissionable {
        MatterLocalService::Commissionable { id, discriminator: disc, enhanced }
    } else {
        MatterLocalService::Commissioned { compressed_fabric_id: id, node_id: node }
    };
    let hostname = label(rng, 20);
    let ip = Ipv4Addr::from(rng.u32().max(1));
    let v6 = [Ipv6Addr::new(0xfe80, 0, 0, 0, rng.u64() as u16, 2, 3, 4)];

    let r = guard(|| -> Result<(Vec<u8>, Vec<(String, String)>, Vec<String>, u16), String> {
        let mut buf = vec![0u8; 1024];
        let (svc, _) = ls.service(matter, &mut buf).map_err(|e| format!("service {:?}", e))?;
        let txt: Vec<(String, String)> = svc.txt_kvs.clone().map(|(k, v)| (k.to_string(), v.to_string())).collect();
        let subs: Vec<String> = svc.service_subtypes.clone().map(|s| s.to_string()).collect();
        let port = svc.port;
        let host = Host { hostname: &hostname, ip, ipv6: &v6 };
        let mut out = vec![0u8; 1500];
        let n = host.broadcast(&svc, &mut out, 120, 120).map_err(|e| format!("broadcast {:?}", e))?;
        out.truncate(n);
        Ok((out, txt, subs, port))
    });
    let desc = format!("{:?} cfg#{} (vid {} pid {} dt {:?} sai {:?} sii {:?} tcp {} dn {:?})", ls, ei, cfg.vid, cfg.pid, cfg.device_type, cfg.sai, cfg.sii, cfg.tcp_supported, cfg.device_name);
    let (pkt, enc_txt, enc_subs, port) = match r {
        Err(p) => {
            cx.encoder_panic(&p, desc);
            return;
        }
        Ok(Err(e)) => {
            cx.rt_fail("matter-service/refused", format!("{}: {}", desc, e), &[]);
            return;
        }
        Ok(Ok(v)) => v,
    };
    let a = match guard(|| {
        let a = parse_into_answer(&pkt, None).ok().flatten()?;
        let inst = format!("{}", a.instance_name).trim_end_matches('.').to_string();
        let txt: Vec<(String, String)> = a.txt.clone().map(|(k, v)| (k.to_string(), v.to_string())).collect();
        let remote = if commissionable { MatterRemoteService::Commissionable { id } } else { MatterRemoteService::Operational { compressed_fabric_id: id, node_id: node } };
        let other = if commissionable { MatterRemoteService::Commissionable { id: id ^ 1 } } else { MatterRemoteService::Operational { compressed_fabric_id: id, node_id: node ^ 1 } };
        let mut expected_name = heapless::String::<128>::new();
        remote.instance_name(&mut expected_name);
        let f_ok = CommissionableFilter { discriminator: Some(disc), short_discriminator: Some((disc >> 8) as u8), vendor_id: Some(cfg.vid), product_id: Some(cfg.pid), device_type: cfg.device_type.map(|d| d as u32), commissioning_mode_only: true };
        let f_bad = CommissionableFilter { discriminator: Some(disc ^ 1), ..Default::default() };
        Some((inst, a.port, txt, remote.matches_instance(&a.instance_name), other.matches_instance(&a.instance_name), expected_name.to_string(), f_ok.matches(&a), f_bad.matches(&a), a.session_params(), a.supports_tcp_server()))
    }) {
        Ok(Some(v)) => v,
        Ok(None) => {
            cx.rt_fail("matter-service/answer-refused", desc, &pkt);
            return;
        }
        Err(_) => {
            cx.fuzz("mdns.parse_into_answer", &pkt, "encoded-by-rs-matter");
            return;
        }
    };
    let (inst, dport, txt, m_same, m_other, exp_name, f_ok, f_bad, sp, tcp) = a;
    let mut ok = cx.eq("matter-service/instance_name", &exp_name, &inst, &pkt);
    ok &= cx.eq("matter-service/port", &Some(port), &dport, &pkt);
    ok &= cx.eq("matter-service/txt", &enc_txt, &txt, &pkt);
    ok &= cx.eq("matter-service/matches_instance", &true, &m_same, &pkt);
    ok &= cx.eq("matter-service/matches_other_instance", &false, &m_other, &pkt);
    ok &= cx.eq("matter-service/session_params", &(cfg.sii, cfg.sai, None), &sp, &pkt);
    ok &= cx.eq("matter-service/tcp", &cfg.tcp_supported, &tcp, &pkt);
    // the fields that went in, as decimal TXT values
    let get = |k: &str| txt.iter().find(|(a, _)| a == k).map(|(_, v)| v.clone());
    if commissionable {
        ok &= cx.eq("matter-service/txt-D", &Some(disc.to_string()), &get("D"), &pkt);
        ok &= cx.eq("matter-service/txt-VP", &Some(format!("{}+{}", cfg.vid, cfg.pid)), &get("VP"), &pkt);
        ok &= cx.eq("matter-service/txt-CM", &Some(if enhanced { "2".to_string() } else { "1".to_string() }), &get("CM"), &pkt);
        ok &= cx.eq("matter-service/txt-DT", &cfg.device_type.map(|d| d.to_string()), &get("DT"), &pkt);
        ok &= cx.eq("matter-service/txt-DN", &(!cfg.device_name.is_empty()).then(|| cfg.device_name.to_string()), &get("DN"), &pkt);
        ok &= cx.eq("matter-service/filter-matches", &true, &f_ok, &pkt);
        ok &= cx.eq("matter-service/filter-other-discriminator", &false, &f_bad, &pkt);
        let want_subs: Vec<String> = [Some(format!("_L{}", disc)), Some(format!("_S{}", disc >> 8)), Some(format!("_V{}", cfg.vid)), cfg.device_type.map(|d| format!("_T{}", d)), Some("_CM".to_string())].into_iter().flatten().collect();
        ok &= cx.eq("matter-service/subtypes", &want_subs, &enc_subs, &pkt);
    } else {
        ok &= cx.eq("matter-service/subtypes", &vec![format!("_I{:016X}", id)], &enc_subs, &pkt);
    }
    ok &= cx.eq("matter-service/txt-SII", &cfg.sii.map(|d| d.to_string()), &get("SII"), &pkt);
    ok &= cx.eq("matter-service/txt-SAI", &cfg.sai.map(|d| d.to_string()), &get("SAI"), &pkt);
    // subtype PTR records (independent decoder)
    if let Some(m) = parse_msg(&pkt) {
        for s in &enc_subs {
            let n = format!("{}._sub.{}", s, if commissionable { "_matterc._udp.local" } else { "_matter._tcp.local" });
            let found = m.records.iter().any(|r| r.rtype == 12 && r.name.eq_ignore_ascii_case(&n) && r.rname.as_deref().map(|t| t.eq_ignore_ascii_case(&exp_name)).unwrap_or(false));
            ok &= cx.eq(&format!("matter-service/subtype-ptr"), &true, &found, &pkt);
        }
    } else {
        cx.mismatch("matter-service/not-a-dns-message", "the harness's DNS decoder cannot decode the packet".into(), &pkt);
        ok = false;
    }
    if ok {
        cx.rt_ok();
        cx.rep.count("mdns:matter_service_roundtrips");
    }
    cx.shape(&[0x4d, ei as u8, commissionable as u8, enhanced as u8, (disc >> 8) as u8]);
    cx.mutate("mdns.parse_into_answer", &pkt, rng, 2);
}

// ---------------------------------------------------------------------------------------
// Hostile names
// ---------------------------------------------------------------------------------------

/// A name field that is truncated / forward / cyclic / over-long; `at` = offset at which it
/// will be placed in the message.
fn hostile_name(rng: &mut Rng, at: usize, msg_len_hint: usize) -> (Vec<u8>, &'static str) {
    match rng.below(12) {
        0 => (vec![0xC0, at as u8], "pointer-to-itself"),
        1 => (vec![0xC0, (at + 2) as u8, 0xC0, at as u8], "pointer-cycle-of-two"),
        2 => (vec![0xC0], "truncated-pointer"),
        3 => (vec![0xC0, (msg_len_hint + 20).min(255) as u8], "pointer-beyond-end"),
        4 => (vec![0xFF, 0xFF], "pointer-to-3fff"),
        5 => (vec![3, b'a', b'b', b'c', 0xC0, (at + 6) as u8, 0, 0], "forward-pointer"),
        6 => (vec![63], "label-longer-than-message"),
        7 => (vec![0x40, 1, 2], "reserved-label-type-0x40"),
        8 => (vec![0x80, 1, 2], "reserved-label-type-0x80"),
        9 => {
            // > 255 bytes of labels
            let mut v = Vec::new();
            for _ in 0..5 {
                v.push(63);
                v.extend(std::iter::repeat(b'x').take(63));
            }
            v.push(0);
            (v, "name-longer-than-255")
        }
        10 => (vec![3, b'a', b'b', b'c', 0xC0, at as u8], "label-then-pointer-to-own-start"),
        _ => (vec![1, b'a', 0xC0, 12], "pointer-to-first-question"),
    }
}

fn hostile_packet(rng: &mut Rng, response: bool) -> (Vec<u8>, &'static str) {
    let mut v = Vec::new();
    v.extend((rng.u64() as u16).to_be_bytes());
    v.extend(if response { 0x8400u16 } else { 0 }.to_be_bytes());
    let (qd, an) = if response { (0u16, 1 + rng.below(3) as u16) } else { (1 + rng.below(3) as u16, 0) };
    v.extend(qd.to_be_bytes());
    v.extend(an.to_be_bytes());
    v.extend([0u8; 4]);
    let mut kind = "";
    let total = qd + an;
    for i in 0..total {
        let hostile_here = i == rng.below(total as u64) as u16 || kind.is_empty() && i == total - 1;
        let at = v.len();
        if hostile_here {
            let (n, k) = hostile_name(rng, at, at + 20);
            kind = k;
            v.extend(n);
        } else {
            wr_name(&mut v, *rng.pick(&["00000000DEADBEEF._matterc._udp.local", "_matterc._udp.local", "host1.local", "_services._dns-sd._udp.local"]));
        }
        let t = *rng.pick(&[1u16, 12, 16, 28, 33, 255]);
        v.extend(t.to_be_bytes());
        v.extend(1u16.to_be_bytes());
        if response {
            v.extend(120u32.to_be_bytes());
            // rdata: a (possibly hostile) name for PTR/SRV, bytes otherwise
            let mut rd = Vec::new();
            match t {
                12 => {
                    let (n, _) = hostile_name(rng, v.len() + 2, v.len() + 30);
                    rd.extend(n);
                }
                33 => {
                    rd.extend([0, 0, 0, 0, 0x15, 0xa4]);
                    let (n, _) = hostile_name(rng, v.len() + 8, v.len() + 30);
                    rd.extend(n);
                }
                16 => {
                    let n = rng.usize(5);
                    rd.extend([200u8, b'D', b'=', b'1']); // length byte beyond the rdata
                    rd.extend(rng.bytes(n));
                }
                _ => {
                    let n = rng.usize(20);
                    rd.extend(rng.bytes(n));
                }
            }
            let declared = match rng.below(4) {
                0 => rd.len() as u16 + 1 + rng.below(300) as u16,
                1 => (rd.len() as u16).saturating_sub(1),
                _ => rd.len() as u16,
            };
            v.extend(declared.to_be_bytes());
            v.extend(rd);
        }
    }
    (v, kind)
}

// ---------------------------------------------------------------------------------------
// The case
// ---------------------------------------------------------------------------------------

fn case_mdns(cx: &mut Cx, k: u64, rng: &mut Rng) {
    let m = cx.m;
    match m % 4 {
        0 => {
            // generic service → broadcast → both decoders
            let s = gen_svc(m / 4, rng);
            let r = guard(|| {
                with_service(&s, |h, svc| {
                    let mut out = vec![0u8; 9000];
                    h.broadcast(svc, &mut out, 120, 4500).map(|n| {
                        out.truncate(n);
                        out
                    })
                })
            });
            match r {
                Err(p) => cx.encoder_panic(&p, format!("{:?}", s)),
                Ok(Err(e)) => cx.rt_fail("broadcast/refused", format!("{:?}: {:?}", s, e), &[]),
                Ok(Ok(pkt)) => {
                    cx.sample(format!("{:?}", s), &pkt);
                    let mut ok = check_records(cx, "broadcast", &s, &pkt, true);
                    ok &= check_answer(cx, "broadcast", &s, &pkt);
                    // PTR records
                    if let Some(msg) = parse_msg(&pkt) {
                        let has = |n: String, target: String| msg.records.iter().any(|r| r.rtype == 12 && r.name.eq_ignore_ascii_case(&n) && r.rname.as_deref().map(|t| t.eq_ignore_ascii_case(&target)).unwrap_or(false));
                        ok &= cx.eq("broadcast/ptr-service-type", &true, &has(s.stype(), s.instance()), &pkt);
                        ok &= cx.eq("broadcast/ptr-dns-sd", &true, &has("_services._dns-sd._udp.local".into(), s.stype()), &pkt);
                        for sub in &s.subtypes {
                            ok &= cx.eq("broadcast/ptr-subtype", &true, &has(format!("{}._sub.{}", sub, s.stype()), s.instance()), &pkt);
                        }
                    }
                    if ok {
                        cx.rt_ok();
                    }
                    cx.shape(&[0, s.txt.len() as u8, s.subtypes.len() as u8, s.ipv6.len() as u8, s.ip.is_unspecified() as u8, (s.name.len() / 8) as u8, (s.hostname.len() / 8) as u8]);
                    cx.mutate("mdns.parse_into_answer", &pkt, rng, 3);
                    if k < 64 {
                        let d = cx.decs.iter().find(|d| d.name == "mdns.parse_into_answer").unwrap();
                        super::c17::all_truncations(cx.rep, d, &pkt, rng);
                    }
                    // a buffer that is too small: refused, not panic
                    let small = rng.usize(pkt.len());
                    match guard(|| with_service(&s, |h, svc| h.broadcast(svc, &mut vec![0u8; small], 120, 120).is_ok())) {
                        Err(p) => cx.encoder_panic(&p, format!("broadcast into a {}-byte buffer", small)),
                        Ok(true) => cx.rt_fail("broadcast/short-buffer-accepted", format!("{} bytes needed, {} given", pkt.len(), small), &pkt),
                        Ok(false) => {}
                    }
                }
            }
        }
        1 => {
            // query → respond → decode the answer
            let s = gen_svc(m / 4, rng);
            let qkind = (m / 4) % 8;
            let (qname, qtype, full) = match qkind {
                0 => (s.instance(), 255u16, true), // resolve (ANY)
                1 => (s.stype(), 12, true),        // browse
                2 => ("_services._dns-sd._udp.local".to_string(), 12, true),
                3 if !s.subtypes.is_empty() => (format!("{}._sub.{}", s.subtypes[0], s.stype()), 12, true),
                4 => (s.instance(), 33, false),
                5 => (s.instance(), 16, false),
                6 => (s.host(), if rng.bool() { 1 } else { 28 }, false),
                _ => (s.instance().to_uppercase(), 255, true),
            };
            let legacy = rng.chance(1, 3);
            let id = rng.u64() as u16;
            let mut qs = vec![(qname.clone(), qtype, if rng.chance(1, 4) { 0x8001 } else { 1 })];
            if rng.chance(1, 3) {
                qs.push((s.stype(), 12, 1));
            }
            if rng.chance(1, 4) {
                qs.insert(0, ("somebody.else.local".to_string(), 1, 1));
            }
            let q = build_query(id, &qs, rng.bool());
            match guard(|| respond_with(&s, &q, legacy)) {
                Err(_) => {
                    let mut inp = vec![legacy as u8];
                    inp.extend(&q);
                    // replay through the registered decoder uses the fixed service; the
                    // panic itself is reported here with the real service
                    cx.fuzz("mdns.respond", &inp, "valid-query");
                }
                Ok(Err(e)) => cx.rt_fail("respond/refused", format!("query {:?} for {:?}: {}", qs, s, e), &q),
                Ok(Ok((pkt, mode))) => {
                    if matches!(mode, RespondMode::Skip) {
                        if qkind == 6 && ((qtype == 1 && s.ip.is_unspecified()) || qtype == 28) {
                            // nothing to say is legitimate when the host has no such address
                            cx.rep.count("mdns:respond_skip");
                        } else {
                            cx.rt_fail("respond/skipped", format!("query {:?} ({}) for {:?} got no answer", qs, qkind, s), &q);
                        }
                    } else {
                        let mut ok = check_records(cx, "respond", &s, &pkt, full);
                        if full {
                            ok &= check_answer(cx, "respond", &s, &pkt);
                        }
                        if let Some(msg) = parse_msg(&pkt) {
                            if legacy {
                                ok &= cx.eq("respond/legacy-id", &id, &msg.id, &pkt);
                                ok &= cx.eq("respond/legacy-question-echo", &qs.len(), &msg.questions.len(), &pkt);
                                ok &= cx.eq("respond/legacy-mode", &true, &matches!(mode, RespondMode::Unicast), &pkt);
                            } else {
                                ok &= cx.eq("respond/multicast-id", &0u16, &msg.id, &pkt);
                            }
                        }
                        if ok {
                            cx.rt_ok();
                            cx.rep.count("mdns:respond_roundtrips");
                        }
                        cx.shape(&[1, qkind as u8, legacy as u8, qs.len() as u8]);
                        cx.mutate("mdns.parse_into_answer", &pkt, rng, 2);
                    }
                    let mut inp = vec![legacy as u8];
                    inp.extend(&q);
                    cx.mutate("mdns.respond", &inp, rng, 2);
                }
            }
        }
        2 => case_matter_service(cx, rng),
        _ => {
            // hostile names in answers and in queries
            let (pkt, kind) = hostile_packet(rng, true);
            cx.fuzz("mdns.parse_into_answer", &pkt, &format!("hostile-name:{}", kind));
            let (q, kind) = hostile_packet(rng, false);
            let mut inp = vec![rng.below(2) as u8];
            inp.extend(&q);
            cx.fuzz("mdns.respond", &inp, &format!("hostile-name:{}", kind));
            cx.shape(&[3, kind.len() as u8]);
            // valid queries against the fixed service (so that the registered decoder
            // also produces answers)
            let s = fixed_svc();
            let q = build_query(7, &[(s.stype(), 12, 1)], false);
            let mut inp = vec![0u8];
            inp.extend(&q);
            cx.fuzz("mdns.respond", &inp, "valid-query");
            let _ = hex(&q);
            // text forms
            let t = match rng.below(4) {
                0 => "00000000DEADBEEF._matterc._udp.local\nD=3840\nVP=65521+32769\nCM=1\nDT=22\nSII=5000\nSAI=300\nSAT=4000\nT=6".to_string(),
                1 => "0000000000000001-0000000000000002._matter._tcp.local.\nT=4".to_string(),
                2 => format!("{:X}-{:x}._MATTER._TCP.LOCAL\nVP={}+{}\nD={}", rng.u64(), rng.u64(), rng.u64(), rng.u32(), rng.u32()),
                _ => format!("{}.{}\nD=\nVP=+\nSII=-1\nT=99999999999999999999", "x".repeat(rng.usize(80)), "_matterc._udp.local"),
            };
            cx.fuzz("mdns.dotted_name_and_txt", t.as_bytes(), "os-backend-text");
            cx.mutate("mdns.dotted_name_and_txt", t.as_bytes(), rng, 2);
        }
    }
}
