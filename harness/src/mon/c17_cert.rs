//! C17 — certificates: Matter TLV → X.509 (DER) conversion compared field by field with an
//! independent X.509 parser (`x509-cert`), CSR encode/decode, the attestation X.509 parser
//! and the certification declaration.
//!
//! rs-matter has no public X.509 → Matter-TLV converter, so the "fixed point" part of the
//! design cannot be exercised (noted in the report).

use der::{Decode, Encode, Tagged};
use x509_cert::certificate::TbsCertificate;
use x509_cert::ext::pkix::{AuthorityKeyIdentifier, BasicConstraints, ExtendedKeyUsage, KeyUsage, SubjectKeyIdentifier};
use x509_cert::time::Time;

use rs_matter::attest::cd::{CertificationElements, CmsSignedData};
use rs_matter::cert::gen::{Validity, VALID_FOREVER};
use rs_matter::cert::x509::cert::{DacCert, PaaCert, PaiCert};
use rs_matter::cert::x509::csr::CsrRef;
use rs_matter::cert::{CertRef, MAX_CERT_TLV_AND_ASN1_LEN};
use rs_matter::crypto::{default_crypto, test_only_crypto, CanonPkcPublicKey, Crypto, PublicKey, SigningSecretKey};
use rs_matter::dm::clusters::dev_att::DeviceAttestation;
use rs_matter::dm::devices::test::{DAC_PRIVKEY, TEST_DEV_ATT};
use rs_matter::onboard::cac::{IcacGenerator, RcacGenerator};
use rs_matter::onboard::noc::NocGenerator;
use rs_matter::tlv::TLVElement;

use crate::sim::rng::Rng;

use super::c17::{edge, edge_class, guard, hex, Cx, Decoder, Format};

pub fn skipped_notes() -> Vec<String> {
    vec![
        "certificates X.509 → Matter TLV: no public converter in rs-matter; the X.509→TLV→X.509 fixed point is not checkable".into(),
        "attestation X.509 parser (DacCert/PaiCert/PaaCert::new): decoder only (no public encoder)".into(),
        "certification declaration: decoder only (CertificationElements::decode / CmsSignedData::parse); TLV content encoded by the harness".into(),
    ]
}

const MATTER_EPOCH: u64 = 946_684_800;
const NEVER_UNIX: u64 = 253_402_300_799; // 9999-12-31T23:59:59Z
const Y2050_MATTER: u32 = 1_577_923_200; // 2050-01-01T00:00:00Z in Matter epoch seconds

// ---------------------------------------------------------------------------------------
// Minimal Matter TLV writer (context / anonymous tags only)
// ---------------------------------------------------------------------------------------

#[derive(Default, Clone)]
pub struct Tlv(pub Vec<u8>);

impl Tlv {
    fn ctl(&mut self, tag: Option<u8>, ty: u8) {
        match tag {
            None => self.0.push(ty),
            Some(t) => {
                self.0.push(0x20 | ty);
                self.0.push(t);
            }
        }
    }
    pub fn uint(&mut self, tag: Option<u8>, v: u64, min_width: u8) {
        let w = if v > u32::MAX as u64 || min_width >= 8 {
            8
        } else if v > u16::MAX as u64 || min_width >= 4 {
            4
        } else if v > u8::MAX as u64 || min_width >= 2 {
            2
        } else {
            1
        };
        self.ctl(tag, match w { 1 => 4, 2 => 5, 4 => 6, _ => 7 });
        self.0.extend(&v.to_le_bytes()[..w]);
    }
    pub fn boolean(&mut self, tag: Option<u8>, v: bool) {
        self.ctl(tag, if v { 9 } else { 8 });
    }
    pub fn utf8(&mut self, tag: Option<u8>, s: &[u8]) {
        if s.len() < 256 {
            self.ctl(tag, 0x0C);
            self.0.push(s.len() as u8);
        } else {
            self.ctl(tag, 0x0D);
            self.0.extend((s.len() as u16).to_le_bytes());
        }
        self.0.extend(s);
    }
    pub fn octets(&mut self, tag: Option<u8>, s: &[u8]) {
        if s.len() < 256 {
            self.ctl(tag, 0x10);
            self.0.push(s.len() as u8);
        } else {
            self.ctl(tag, 0x11);
            self.0.extend((s.len() as u16).to_le_bytes());
        }
        self.0.extend(s);
    }
    pub fn start_struct(&mut self, tag: Option<u8>) {
        self.ctl(tag, 0x15);
    }
    pub fn start_array(&mut self, tag: Option<u8>) {
        self.ctl(tag, 0x16);
    }
    pub fn start_list(&mut self, tag: Option<u8>) {
        self.ctl(tag, 0x17);
    }
    pub fn end(&mut self) {
        self.0.push(0x18);
    }
}

// ---------------------------------------------------------------------------------------
// Certificate model
// ---------------------------------------------------------------------------------------

#[derive(Clone, Debug, PartialEq)]
enum DnVal {
    Uint(u64),
    Utf8(String),
    Printable(String),
}

#[derive(Clone, Debug, PartialEq)]
struct Dn {
    tag: u8, // 1..=22
    val: DnVal,
}

#[derive(Clone, Debug, PartialEq)]
enum Ext {
    Basic { is_ca: bool, path: Option<u8> },
    KeyUsage(u16),
    Eku(Vec<u8>),
    Skid(Vec<u8>),
    Akid(Vec<u8>),
    Future(Vec<u8>),
}

#[derive(Clone, Debug, PartialEq)]
struct CertSpec {
    serial: Vec<u8>,
    sig_algo: u8,
    issuer: Vec<Dn>,
    not_before: u32,
    not_after: u32,
    subject: Vec<Dn>,
    pk_algo: u8,
    curve: u8,
    pubkey: Vec<u8>,
    exts: Vec<Ext>,
    signature: Option<Vec<u8>>,
}

fn write_dn(t: &mut Tlv, tag: u8, dns: &[Dn]) {
    t.start_list(Some(tag));
    for d in dns {
        match &d.val {
            DnVal::Uint(v) => t.uint(Some(d.tag), *v, 1),
            DnVal::Utf8(s) => t.utf8(Some(d.tag), s.as_bytes()),
            DnVal::Printable(s) => t.utf8(Some(d.tag | 0x80), s.as_bytes()),
        }
    }
    t.end();
}

fn write_cert(c: &CertSpec) -> Vec<u8> {
    let mut t = Tlv::default();
    t.start_struct(None);
    t.octets(Some(1), &c.serial);
    t.uint(Some(2), c.sig_algo as u64, 1);
    write_dn(&mut t, 3, &c.issuer);
    t.uint(Some(4), c.not_before as u64, 4);
    t.uint(Some(5), c.not_after as u64, 4);
    write_dn(&mut t, 6, &c.subject);
    t.uint(Some(7), c.pk_algo as u64, 1);
    t.uint(Some(8), c.curve as u64, 1);
    t.octets(Some(9), &c.pubkey);
    t.start_list(Some(10));
    for e in &c.exts {
        match e {
            Ext::Basic { is_ca, path } => {
                t.start_struct(Some(1));
                t.boolean(Some(1), *is_ca);
                if let Some(p) = path {
                    t.uint(Some(2), *p as u64, 1);
                }
                t.end();
            }
            Ext::KeyUsage(k) => t.uint(Some(2), *k as u64, 2),
            Ext::Eku(l) => {
                t.start_array(Some(3));
                for v in l {
                    t.uint(None, *v as u64, 1);
                }
                t.end();
            }
            Ext::Skid(b) => t.octets(Some(4), b),
            Ext::Akid(b) => t.octets(Some(5), b),
            Ext::Future(b) => t.octets(Some(6), b),
        }
    }
    t.end();
    if let Some(s) = &c.signature {
        t.octets(Some(11), s);
    }
    t.end();
    t.0
}

const DN_OIDS: [&str; 22] = [
    "2.5.4.3",
    "2.5.4.4",
    "2.5.4.5",
    "2.5.4.6",
    "2.5.4.7",
    "2.5.4.8",
    "2.5.4.10",
    "2.5.4.11",
    "2.5.4.12",
    "2.5.4.41",
    "2.5.4.42",
    "2.5.4.43",
    "2.5.4.44",
    "2.5.4.46",
    "2.5.4.65",
    "0.9.2342.19200300.100.1.25",
    "1.3.6.1.4.1.37244.1.1",
    "1.3.6.1.4.1.37244.1.2",
    "1.3.6.1.4.1.37244.1.3",
    "1.3.6.1.4.1.37244.1.4",
    "1.3.6.1.4.1.37244.1.5",
    "1.3.6.1.4.1.37244.1.6",
];

/// (oid, string tag number, value) as an X.509 reader sees a DN.
fn expected_dn(dns: &[Dn]) -> Vec<(String, u8, String)> {
    dns.iter()
        .map(|d| {
            let oid = DN_OIDS[(d.tag - 1) as usize].to_string();
            match &d.val {
                DnVal::Uint(v) => (oid, 0x0c, if d.tag == 22 { format!("{:08X}", v) } else { format!("{:016X}", v) }),
                DnVal::Utf8(s) => (oid, 0x0c, s.clone()),
                DnVal::Printable(s) => (oid, 0x13, s.clone()),
            }
        })
        .collect()
}

fn decoded_dn(n: &x509_cert::name::Name) -> Vec<(String, u8, String)> {
    let mut v = Vec::new();
    for rdn in n.0.iter() {
        for atv in rdn.0.iter() {
            let tag: u8 = atv.value.tag().octet();
            v.push((atv.oid.to_string(), tag, String::from_utf8_lossy(atv.value.value()).to_string()));
        }
    }
    v
}

fn time_of(t: &Time) -> (u64, bool) {
    match t {
        Time::UtcTime(u) => (u.to_unix_duration().as_secs(), true),
        Time::GeneralTime(g) => (g.to_unix_duration().as_secs(), false),
    }
}

fn expected_time(secs: u32, is_not_after: bool) -> (u64, bool) {
    if is_not_after && secs == 0 {
        (NEVER_UNIX, false)
    } else {
        (MATTER_EPOCH + secs as u64, secs < Y2050_MATTER)
    }
}

#[derive(Debug, Default, PartialEq)]
struct DecodedExts {
    basic: Option<(bool, bool, Option<u8>)>, // critical, ca, path
    key_usage: Option<(bool, u16)>,
    eku: Option<(bool, Vec<String>)>,
    skid: Option<(bool, Vec<u8>)>,
    akid: Option<(bool, Vec<u8>)>,
    other: Vec<(String, bool, Vec<u8>)>,
    order: Vec<String>,
}

const EKU_OIDS: [&str; 6] = ["1.3.6.1.5.5.7.3.1", "1.3.6.1.5.5.7.3.2", "1.3.6.1.5.5.7.3.3", "1.3.6.1.5.5.7.3.4", "1.3.6.1.5.5.7.3.8", "1.3.6.1.5.5.7.3.9"];

fn decode_exts(tbs: &TbsCertificate) -> Result<DecodedExts, String> {
    let mut d = DecodedExts::default();
    for e in tbs.extensions.as_ref().map(|v| v.as_slice()).unwrap_or(&[]) {
        let oid = e.extn_id.to_string();
        d.order.push(oid.clone());
        let val = e.extn_value.as_bytes();
        match oid.as_str() {
            "2.5.29.19" => {
                let b = BasicConstraints::from_der(val).map_err(|e| format!("basicConstraints: {}", e))?;
                d.basic = Some((e.critical, b.ca, b.path_len_constraint));
            }
            "2.5.29.15" => {
                let k = KeyUsage::from_der(val).map_err(|e| format!("keyUsage: {}", e))?;
                d.key_usage = Some((e.critical, k.0.bits() as u16));
            }
            "2.5.29.37" => {
                let k = ExtendedKeyUsage::from_der(val).map_err(|e| format!("extKeyUsage: {}", e))?;
                d.eku = Some((e.critical, k.0.iter().map(|o| o.to_string()).collect()));
            }
            "2.5.29.14" => {
                let k = SubjectKeyIdentifier::from_der(val).map_err(|e| format!("subjectKeyIdentifier: {}", e))?;
                d.skid = Some((e.critical, k.0.as_bytes().to_vec()));
            }
            "2.5.29.35" => {
                let k = AuthorityKeyIdentifier::from_der(val).map_err(|e| format!("authorityKeyIdentifier: {}", e))?;
                d.akid = Some((e.critical, k.key_identifier.map(|k| k.as_bytes().to_vec()).unwrap_or_default()));
            }
            _ => d.other.push((oid, e.critical, val.to_vec())),
        }
    }
    Ok(d)
}

/// TLV → DER with the public API.
fn to_der(tlv: &[u8], buf_len: usize) -> Result<Vec<u8>, String> {
    let c = CertRef::new(TLVElement::new(tlv));
    let mut buf = vec![0u8; buf_len];
    let n = c.as_asn1(&mut buf).map_err(|e| format!("{:?}", e))?;
    buf.truncate(n);
    Ok(buf)
}

/// Compare the DER produced from `spec` with `spec`, field by field.
fn compare_spec(cx: &mut Cx, what: &str, spec: &CertSpec, der: &[u8]) -> bool {
    let tbs = match TbsCertificate::from_der(der) {
        Ok(t) => t,
        Err(e) => {
            cx.mismatch(&format!("{}/der-unparseable", what), format!("x509-cert cannot parse the DER produced for {:?}: {}", spec, e), der);
            return false;
        }
    };
    let mut ok = true;
    ok &= cx.eq(&format!("{}/version", what), &"V3".to_string(), &format!("{:?}", tbs.version), der);
    ok &= cx.eq(&format!("{}/serial", what), &spec.serial, &tbs.serial_number.as_bytes().to_vec(), der);
    ok &= cx.eq(&format!("{}/signature-algorithm", what), &"1.2.840.10045.4.3.2".to_string(), &tbs.signature.oid.to_string(), der);
    let strip = |v: Vec<(String, u8, String)>, types: bool| -> Vec<(String, u8, String)> {
        v.into_iter().map(|(o, t, s)| if types || o == DN_OIDS[15] { (o, 0, s) } else { (o, t, s) }).collect()
    };
    // attribute type + value
    ok &= cx.eq(&format!("{}/issuer", what), &strip(expected_dn(&spec.issuer), true), &strip(decoded_dn(&tbs.issuer), true), der);
    ok &= cx.eq(&format!("{}/subject", what), &strip(expected_dn(&spec.subject), true), &strip(decoded_dn(&tbs.subject), true), der);
    // string kinds (UTF8String vs PrintableString), domainComponent left out
    ok &= cx.eq(&format!("{}/dn-string-type", what), &strip(expected_dn(&spec.subject), false), &strip(decoded_dn(&tbs.subject), false), der);
    ok &= cx.eq(&format!("{}/not_before", what), &expected_time(spec.not_before, false), &time_of(&tbs.validity.not_before), der);
    ok &= cx.eq(&format!("{}/not_after", what), &expected_time(spec.not_after, true), &time_of(&tbs.validity.not_after), der);
    ok &= cx.eq(&format!("{}/spki-algorithm", what), &"1.2.840.10045.2.1".to_string(), &tbs.subject_public_key_info.algorithm.oid.to_string(), der);
    let params = tbs.subject_public_key_info.algorithm.parameters.as_ref().map(|p| hex(p.value()));
    ok &= cx.eq(&format!("{}/spki-curve", what), &Some("2a8648ce3d030107".to_string()), &params, der);
    ok &= cx.eq(&format!("{}/public-key", what), &spec.pubkey, &tbs.subject_public_key_info.subject_public_key.raw_bytes().to_vec(), der);

    match decode_exts(&tbs) {
        Err(e) => {
            let mut which = e.split(':').next().unwrap_or("?").to_string();
            if which == "basicConstraints" && spec.exts.iter().any(|x| matches!(x, Ext::Basic { path: Some(p), .. } if *p >= 0x80)) {
                which = "basicConstraints/path-len>=128-emitted-as-negative-integer".into();
            }
            cx.mismatch(&format!("{}/ext-unparseable/{}", what, which), format!("{} in {:?}", e, spec), der);
            ok = false;
        }
        Ok(d) => {
            let mut want = DecodedExts::default();
            for e in &spec.exts {
                match e {
                    Ext::Basic { is_ca, path } => {
                        want.basic = Some((true, *is_ca, *path));
                        want.order.push("2.5.29.19".into());
                    }
                    Ext::KeyUsage(k) => {
                        want.key_usage = Some((true, *k));
                        want.order.push("2.5.29.15".into());
                    }
                    Ext::Eku(l) => {
                        want.eku = Some((true, l.iter().map(|v| EKU_OIDS[(*v - 1) as usize].to_string()).collect()));
                        want.order.push("2.5.29.37".into());
                    }
                    Ext::Skid(b) => {
                        want.skid = Some((false, b.clone()));
                        want.order.push("2.5.29.14".into());
                    }
                    Ext::Akid(b) => {
                        want.akid = Some((false, b.clone()));
                        want.order.push("2.5.29.35".into());
                    }
                    Ext::Future(b) => {
                        // one DER Extension spliced in verbatim
                        if let Ok(x) = x509_cert::ext::Extension::from_der(b) {
                            want.other.push((x.extn_id.to_string(), x.critical, x.extn_value.as_bytes().to_vec()));
                            want.order.push(x.extn_id.to_string());
                        }
                    }
                }
            }
            ok &= cx.eq(&format!("{}/ext-basic-constraints", what), &want.basic, &d.basic, der);
            ok &= cx.eq(&format!("{}/ext-key-usage", what), &want.key_usage, &d.key_usage, der);
            ok &= cx.eq(&format!("{}/ext-extended-key-usage", what), &want.eku, &d.eku, der);
            ok &= cx.eq(&format!("{}/ext-subject-key-id", what), &want.skid, &d.skid, der);
            ok &= cx.eq(&format!("{}/ext-authority-key-id", what), &want.akid, &d.akid, der);
            ok &= cx.eq(&format!("{}/ext-future", what), &want.other, &d.other, der);
            ok &= cx.eq(&format!("{}/ext-order", what), &want.order, &d.order, der);
        }
    }
    // the DER must be canonical: re-encoding what x509-cert parsed gives the same bytes
    if let Ok(re) = tbs.to_der() {
        ok &= cx.eq(&format!("{}/der-canonical", what), &hex(der), &hex(&re), der);
    }
    ok
}

// ---------------------------------------------------------------------------------------
// Generators of legal certificates (own TLV writer)
// ---------------------------------------------------------------------------------------

fn gen_serial(rng: &mut Rng) -> Vec<u8> {
    let n = match rng.below(6) {
        0 => 1,
        1 => 20,
        2 => 8,
        _ => 1 + rng.usize(20),
    };
    let mut s = rng.bytes(n);
    // a positive, minimally encoded INTEGER
    s[0] &= 0x7f;
    if s[0] == 0 {
        if n == 1 || s[1] & 0x80 == 0 {
            s[0] = 1 + (rng.below(0x7f) as u8);
        }
    }
    s
}

fn printable(rng: &mut Rng, max: usize) -> String {
    let n = 1 + rng.usize(max);
    (0..n).map(|_| *rng.pick(b"ABCDEFGHIJKLMNOPQRSTUVWXYZabcdefghijklmnopqrstuvwxyz0123456789 '()+,-./:=?") as char).collect()
}

fn gen_dn(rng: &mut Rng, kind: u8) -> Vec<Dn> {
    // kind 0 = RCAC, 1 = ICAC, 2 = NOC, 3 = free-form
    let mut v = Vec::new();
    let textual = |rng: &mut Rng| -> Dn {
        let tag = 1 + rng.below(16) as u8;
        let val = if tag == 4 {
            // countryName: two letters
            let s: String = (0..2).map(|_| *rng.pick(b"ABCDEFGHIJKLMNOPQRSTUVWXYZ") as char).collect();
            if rng.bool() { DnVal::Printable(s) } else { DnVal::Utf8(s) }
        } else if rng.bool() {
            DnVal::Printable(printable(rng, 24))
        } else if rng.chance(1, 4) {
            DnVal::Utf8((0..1 + rng.usize(8)).map(|_| *rng.pick(&['é', 'ß', '中', 'x', '€'])).collect())
        } else {
            DnVal::Utf8(printable(rng, 40))
        };
        Dn { tag, val }
    };
    if rng.chance(1, 3) {
        v.push(textual(rng));
    }
    match kind {
        0 => {
            v.push(Dn { tag: 20, val: DnVal::Uint(edge(rng, 64)) });
            if rng.bool() {
                v.push(Dn { tag: 21, val: DnVal::Uint(edge(rng, 64).max(1)) });
            }
        }
        1 => {
            v.push(Dn { tag: 19, val: DnVal::Uint(edge(rng, 64)) });
            if rng.bool() {
                v.push(Dn { tag: 21, val: DnVal::Uint(edge(rng, 64).max(1)) });
            }
        }
        2 => {
            v.push(Dn { tag: 17, val: DnVal::Uint(edge(rng, 64).max(1)) });
            v.push(Dn { tag: 21, val: DnVal::Uint(edge(rng, 64).max(1)) });
            for _ in 0..rng.usize(4) {
                v.push(Dn { tag: 22, val: DnVal::Uint(((1 + rng.below(0xffff)) << 16) | rng.below(0x10000)) });
            }
        }
        _ => {
            for _ in 0..1 + rng.usize(4) {
                if rng.bool() {
                    v.push(textual(rng));
                } else {
                    let tag = 17 + rng.below(6) as u8;
                    let val = if tag == 22 { edge(rng, 32) } else { edge(rng, 64) };
                    v.push(Dn { tag, val: DnVal::Uint(val) });
                }
            }
        }
    }
    if rng.chance(1, 4) {
        v.push(textual(rng));
    }
    v
}

fn gen_time(rng: &mut Rng) -> u32 {
    match rng.below(12) {
        0 => 1,
        1 => Y2050_MATTER - 1,
        2 => Y2050_MATTER,
        3 => Y2050_MATTER + 1,
        4 => u32::MAX,
        5 => 0x7fff_ffff,
        6 => 0x8000_0000,
        7 => 86_400 * 59,       // 2000-02-29
        8 => 86_400 * 60 - 1,
        9 => 31_622_400,        // 2001-01-01
        _ => rng.u32().max(1),
    }
}

const FUTURE_EXT: [&[u8]; 3] = [
    // subjectAltName, not critical
    &[0x30, 0x0c, 0x06, 0x03, 0x55, 0x1d, 0x11, 0x04, 0x05, 0x30, 0x03, 0x82, 0x01, 0x61],
    // a private extension, critical
    &[0x30, 0x12, 0x06, 0x0a, 0x2b, 0x06, 0x01, 0x04, 0x01, 0x82, 0xa2, 0x7c, 0x09, 0x01, 0x01, 0x01, 0xff, 0x04, 0x01, 0x05],
    // certificatePolicies-like blob
    &[0x30, 0x0d, 0x06, 0x03, 0x55, 0x1d, 0x20, 0x04, 0x06, 0x30, 0x04, 0x30, 0x02, 0x06, 0x00],
];

fn gen_spec(m: u64, rng: &mut Rng) -> CertSpec {
    let kind = (m % 4) as u8;
    let mut pubkey = rng.bytes(65);
    pubkey[0] = 4;
    let mut exts = Vec::new();
    match kind {
        0 => exts.push(Ext::Basic { is_ca: true, path: if rng.chance(1, 3) { Some(rng.below(3) as u8) } else { None } }),
        1 => exts.push(Ext::Basic { is_ca: true, path: Some(if rng.bool() { 0 } else { edge(rng, 8) as u8 }) }),
        2 => exts.push(Ext::Basic { is_ca: false, path: None }),
        _ => exts.push(Ext::Basic { is_ca: rng.bool(), path: if rng.bool() { Some(edge(rng, 8) as u8) } else { None } }),
    }
    let ku = match kind {
        0 | 1 => 0x60,
        2 => 0x01,
        _ => {
            // every non-empty combination of the 9 bits is legal
            let v = match rng.below(4) {
                0 => 1 << rng.below(9),
                1 => 0x1ff,
                2 => 0x100,
                _ => 1 + rng.below(0x1ff),
            };
            v as u16
        }
    };
    exts.push(Ext::KeyUsage(ku));
    if kind == 2 {
        exts.push(Ext::Eku(vec![2, 1]));
    } else if kind == 3 && rng.bool() {
        let n = 1 + rng.usize(6);
        exts.push(Ext::Eku((0..n).map(|_| 1 + rng.below(6) as u8).collect()));
    }
    exts.push(Ext::Skid(rng.bytes(20)));
    exts.push(Ext::Akid(rng.bytes(20)));
    if rng.chance(1, 5) {
        exts.push(Ext::Future(FUTURE_EXT[rng.usize(3)].to_vec()));
    }
    let issuer_kind = if kind == 0 { 0 } else if kind == 3 { 3 } else { rng.below(2) as u8 };
    CertSpec {
        serial: gen_serial(rng),
        sig_algo: 1,
        issuer: gen_dn(rng, issuer_kind),
        not_before: gen_time(rng),
        not_after: if rng.chance(1, 3) { 0 } else { gen_time(rng) },
        subject: gen_dn(rng, kind),
        pk_algo: 1,
        curve: 1,
        pubkey,
        exts,
        signature: rng.bool().then(|| rng.bytes(64)),
    }
}

// ---------------------------------------------------------------------------------------
// Hostile certificates: structurally valid TLV with illegal values
// ---------------------------------------------------------------------------------------

fn hostile_spec(rng: &mut Rng) -> (Vec<u8>, &'static str) {
    let mut s = gen_spec(rng.below(4), rng);
    let kind = rng.below(22);
    let name: &'static str = match kind {
        0 => {
            for e in s.exts.iter_mut() {
                if let Ext::KeyUsage(k) = e {
                    *k = 0;
                }
            }
            "key-usage-zero"
        }
        1 => {
            let v = *rng.pick(&[0u8, 7, 8, 9, 0x7f, 0xff]);
            s.exts.push(Ext::Eku(vec![1, v]));
            "eku-value-out-of-table"
        }
        2 => {
            s.pubkey = vec![];
            "empty-public-key"
        }
        3 => {
            s.serial = vec![];
            "empty-serial"
        }
        4 => {
            s.subject.push(Dn { tag: *rng.pick(&[0u8, 23, 24, 0x7f, 0x40]), val: DnVal::Uint(1) });
            "dn-tag-out-of-table"
        }
        5 => {
            s.subject.push(Dn { tag: 1 + rng.below(16) as u8, val: DnVal::Uint(rng.u64()) });
            "dn-text-attribute-with-integer"
        }
        6 => {
            s.subject.push(Dn { tag: 17 + rng.below(6) as u8, val: DnVal::Utf8("not-a-number".into()) });
            "dn-matter-attribute-with-text"
        }
        7 => {
            s.exts.clear();
            "no-extensions"
        }
        8 => {
            for _ in 0..40 {
                s.subject.push(Dn { tag: 1, val: DnVal::Utf8("xxxxxxxxxxxxxxxxxxxxxxxxxxxxxxxxxxxxxxxx".into()) });
            }
            "dn-larger-than-output-buffer"
        }
        9 => {
            let n = rng.usize(300);
            s.exts.push(Ext::Future(rng.bytes(n)));
            "future-extension-random-bytes"
        }
        10 => {
            s.sig_algo = *rng.pick(&[0u8, 2, 0xff]);
            "unknown-signature-algorithm"
        }
        11 => {
            s.pk_algo = *rng.pick(&[0u8, 2, 0xff]);
            s.curve = *rng.pick(&[0u8, 2, 0xff]);
            "unknown-key-algorithm"
        }
        12 => {
            s.exts.push(Ext::Skid(vec![]));
            s.exts.push(Ext::Akid(vec![]));
            "empty-key-identifiers"
        }
        13 => {
            s.pubkey = rng.bytes(300);
            "long-public-key"
        }
        14 => {
            s.serial = rng.bytes(200);
            "long-serial"
        }
        15 => {
            let e = s.exts.clone();
            s.exts.extend(e);
            "duplicated-extensions"
        }
        16 => {
            s.subject.clear();
            s.issuer.clear();
            "empty-names"
        }
        17 => {
            s.exts.push(Ext::Eku(vec![]));
            "eku-empty"
        }
        18 => {
            for e in s.exts.iter_mut() {
                if let Ext::KeyUsage(k) = e {
                    *k = *rng.pick(&[0x200u16, 0x8000, 0xffff, 0xff00, 0x0100]);
                }
            }
            "key-usage-high-bits"
        }
        19 => {
            s.subject.push(Dn { tag: 1, val: DnVal::Utf8(String::new()) });
            "dn-empty-string"
        }
        _ => "legal",
    };
    let mut tlv = write_cert(&s);
    // structural damage that the value-level model cannot express
    match kind {
        20 => {
            // extension list element of a wrong TLV type (key usage as a string …)
            let mut t = Tlv::default();
            t.start_struct(None);
            t.octets(Some(1), &s.serial);
            t.uint(Some(2), 1, 1);
            write_dn(&mut t, 3, &s.issuer);
            t.uint(Some(4), s.not_before as u64, 4);
            t.uint(Some(5), s.not_after as u64, 4);
            write_dn(&mut t, 6, &s.subject);
            t.uint(Some(7), 1, 1);
            t.uint(Some(8), 1, 1);
            t.octets(Some(9), &s.pubkey);
            t.start_list(Some(10));
            t.utf8(Some(2), b"abc");
            t.uint(Some(1), 5, 1);
            t.start_array(Some(3));
            t.utf8(None, b"x");
            t.end();
            t.uint(Some(4), 7, 1);
            t.uint(Some(*rng.pick(&[0u8, 7, 8, 0xff])), 7, 1);
            t.end();
            t.end();
            tlv = t.0;
            return (tlv, "extension-elements-of-wrong-type");
        }
        21 => {
            // deep nesting inside the extension list
            let depth = 5 + rng.usize(40);
            let cut = tlv.len() - 1 - s.signature.as_ref().map(|x| x.len() + 3).unwrap_or(0) - 1;
            let mut t = tlv[..cut].to_vec();
            for _ in 0..depth {
                t.extend([0x35, 0x01]);
            }
            for _ in 0..depth {
                t.push(0x18);
            }
            t.extend([0x18, 0x18]);
            return (t, "deeply-nested-basic-constraints");
        }
        _ => {}
    }
    (tlv, name)
}

// ---------------------------------------------------------------------------------------
// Decoders
// ---------------------------------------------------------------------------------------

fn dec_tlv2x509(input: &[u8]) -> bool {
    let c = CertRef::new(TLVElement::new(input));
    let mut buf = [0u8; 1024];
    c.as_asn1(&mut buf).is_ok()
}

/// The public field accessors a peer's certificate goes through.
fn dec_cert_accessors(input: &[u8]) -> bool {
    let c = CertRef::new(TLVElement::new(input));
    let mut cats = [0u32; 3];
    let r = [
        c.get_node_id().is_ok(),
        c.get_fabric_id().is_ok(),
        c.get_ca_id().is_ok(),
        c.get_cat_ids(&mut cats).is_ok(),
        c.pubkey().is_ok(),
        c.is_self_signed().is_ok(),
        c.basic_constraints_path_len().is_ok(),
    ];
    r.iter().any(|x| *x)
}

/// A short output buffer (as large as the spare room of a certificate buffer may be).
fn dec_tlv2x509_small(input: &[u8]) -> bool {
    let c = CertRef::new(TLVElement::new(input));
    let n = input.first().copied().unwrap_or(0) as usize;
    let mut buf = vec![0u8; n];
    c.as_asn1(&mut buf).is_ok()
}

fn dec_cert_display(input: &[u8]) -> bool {
    use std::fmt::Write;
    let c = CertRef::new(TLVElement::new(input));
    let mut s = String::new();
    write!(s, "{}", c).is_ok()
}

fn dec_csr(input: &[u8]) -> bool {
    match CsrRef::new(input) {
        Ok(c) => {
            let _ = c.pubkey().map(|k| k.access().len());
            c.verify(test_only_crypto()).is_ok()
        }
        Err(_) => false,
    }
}

fn x509_accessors<'a, E: rs_matter::cert::x509::cert::CertType<'a>>(c: &rs_matter::cert::x509::cert::X509Cert<'a, E>) {
    let _ = c.subject_key_id();
    let _ = c.authority_key_id();
    let _ = c.public_key();
    let _ = c.vendor_id();
    let _ = c.product_id();
    let _ = c.not_before_unix();
    let _ = c.not_after_unix();
    let _ = c.is_valid_at(0);
    let _ = c.is_valid_at(u64::MAX);
}

fn dec_x509_dac(input: &[u8]) -> bool {
    DacCert::new(input).map(|c| x509_accessors(&c)).is_ok()
}
fn dec_x509_pai(input: &[u8]) -> bool {
    PaiCert::new(input).map(|c| x509_accessors(&c)).is_ok()
}
fn dec_x509_paa(input: &[u8]) -> bool {
    PaaCert::new(input).map(|c| x509_accessors(&c)).is_ok()
}

fn dec_cd(input: &[u8]) -> bool {
    CertificationElements::decode(input).map(|c| c.product_ids_count).is_ok()
}
fn dec_cms(input: &[u8]) -> bool {
    let a = CmsSignedData::parse(input).map(|c| (c.signer_key_id.len(), c.cd_content.len())).is_ok();
    let b = CertificationElements::verify(test_only_crypto(), input, true).is_ok();
    let _ = CertificationElements::verify(test_only_crypto(), input, false).is_ok();
    a | b
}

pub fn decoders() -> Vec<Decoder> {
    vec![
        Decoder { name: "cert.tlv_to_x509", fmt: "cert_tlv2x509", max_len: 600, text: false, f: dec_tlv2x509 },
        Decoder { name: "cert.tlv_to_x509.small_buf", fmt: "cert_tlv2x509", max_len: 600, text: false, f: dec_tlv2x509_small },
        Decoder { name: "cert.accessors", fmt: "cert_tlv2x509", max_len: 600, text: false, f: dec_cert_accessors },
        Decoder { name: "cert.display", fmt: "cert_tlv2x509", max_len: 600, text: false, f: dec_cert_display },
        Decoder { name: "csr.parse", fmt: "csr", max_len: 400, text: false, f: dec_csr },
        Decoder { name: "x509.dac.parse", fmt: "x509_attestation", max_len: 700, text: false, f: dec_x509_dac },
        Decoder { name: "x509.pai.parse", fmt: "x509_attestation", max_len: 700, text: false, f: dec_x509_pai },
        Decoder { name: "x509.paa.parse", fmt: "x509_attestation", max_len: 700, text: false, f: dec_x509_paa },
        Decoder { name: "cd.decode", fmt: "cd", max_len: 400, text: false, f: dec_cd },
        Decoder { name: "cd.cms.parse", fmt: "cd", max_len: 700, text: false, f: dec_cms },
    ]
}

pub fn formats() -> Vec<Format> {
    vec![
        Format { name: "cert_tlv2x509", id: 40, quick: 300_000, thorough: 10_000_000, has_encoder: true, case: case_cert },
        Format { name: "csr", id: 41, quick: 48_000, thorough: 2_000_000, has_encoder: true, case: case_csr },
        Format { name: "x509_attestation", id: 42, quick: 200_000, thorough: 10_000_000, has_encoder: false, case: case_x509 },
        Format { name: "cd", id: 43, quick: 200_000, thorough: 10_000_000, has_encoder: true, case: case_cd },
    ]
}

// ---------------------------------------------------------------------------------------
// Certificates
// ---------------------------------------------------------------------------------------

fn der_attr(tbs: &TbsCertificate, subject: bool, oid: &str) -> Vec<String> {
    let n = if subject { &tbs.subject } else { &tbs.issuer };
    decoded_dn(n).into_iter().filter(|(o, _, _)| o == oid).map(|(_, _, v)| v).collect()
}

fn legal_node_id(rng: &mut Rng) -> u64 {
    *rng.pick(&[1u64, 2, 0xFFFF_FFEF_FFFF_FFFF, 0x8000_0000_0000_0000, 0x7FFF_FFFF_FFFF_FFFF, 0xFF, 0x100, 0x80, 0x1234_5678_9ABC_DEF0, 200])
}

/// RCAC / ICAC / NOC from the public generators, converted and compared with the parameters.
fn case_generated_chain(cx: &mut Cx, rng: &mut Rng) {
    let fabric_id = *rng.pick(&[1u64, 2, 0xFFFF_FFFF_FFFF_FFFF, 0x8000_0000_0000_0000, 0xABCD_1234, 0xFF]);
    let fabric_id = if rng.bool() { fabric_id } else { rng.u64().max(1) };
    let with_icac = rng.bool();
    let validity = if rng.bool() { VALID_FOREVER } else { Validity { not_before: gen_time(rng), not_after: if rng.bool() { 0 } else { gen_time(rng) } } };
    let node_id = if rng.bool() { legal_node_id(rng) } else { 1 + rng.below(0xFFFF_FFEF_FFFF_FFFE) };
    let ncat = rng.usize(4);
    let cats: Vec<u32> = (0..ncat).map(|_| (((1 + rng.below(0xffff)) << 16) | rng.below(0x10000)) as u32).collect();
    let seed = rng.u64();

    type Out = Vec<(&'static str, Vec<u8>, Vec<u8>)>; // (kind, tlv, der)
    let r = guard(|| -> Result<(Out, Vec<u8>), String> {
        let crypto = default_crypto(Rng::new(seed), DAC_PRIVKEY);
        let mut out: Out = Vec::new();
        let mut rbuf = vec![0u8; MAX_CERT_TLV_AND_ASN1_LEN];
        let mut rgen = RcacGenerator::new(&mut rbuf);
        let (rkey, rcac) = rgen.generate(&crypto, fabric_id, validity).map_err(|e| format!("rcac {:?}", e))?;
        let rcac = rcac.to_vec();
        out.push(("rcac", rcac.clone(), to_der(&rcac, 1024).map_err(|e| format!("rcac as_asn1 {}", e))?));

        let mut ibuf = vec![0u8; MAX_CERT_TLV_AND_ASN1_LEN];
        let mut icac: Vec<u8> = vec![];
        let mut ikey = None;
        if with_icac {
            let mut igen = IcacGenerator::new(&mut ibuf);
            let (k, c) = igen.generate(&crypto, rkey.reference(), &rcac, validity).map_err(|e| format!("icac {:?}", e))?;
            icac = c.to_vec();
            ikey = Some(k);
            out.push(("icac", icac.clone(), to_der(&icac, 1024).map_err(|e| format!("icac as_asn1 {}", e))?));
        }
        let signing = match &ikey {
            Some(k) => k.reference(),
            None => rkey.reference(),
        };
        let mut nbuf = vec![0u8; MAX_CERT_TLV_AND_ASN1_LEN];
        let mut ngen = NocGenerator::create(signing, &rcac, &icac, &mut nbuf).map_err(|e| format!("noc generator {:?}", e))?;
        let dev = crypto.generate_secret_key().map_err(|e| format!("keygen {:?}", e))?;
        let mut csr_buf = [0u8; 256];
        let csr = dev.csr(&mut csr_buf).map_err(|e| format!("csr {:?}", e))?;
        let mut dev_pub = CanonPkcPublicKey::new();
        dev.pub_key().map_err(|e| format!("{:?}", e))?.write_canon(&mut dev_pub).map_err(|e| format!("{:?}", e))?;
        let noc = ngen.generate(&crypto, csr, node_id, &cats, validity).map_err(|e| format!("noc {:?}", e))?.to_vec();
        out.push(("noc", noc.clone(), to_der(&noc, 1024).map_err(|e| format!("noc as_asn1 {}", e))?));
        Ok((out, dev_pub.access().to_vec()))
    });
    let desc = format!("fabric {:#x} icac {} node {:#x} cats {:x?} validity {}/{}", fabric_id, with_icac, node_id, cats, validity.not_before, validity.not_after);
    let (certs, dev_pub) = match r {
        Err(p) => {
            cx.encoder_panic(&p, desc);
            return;
        }
        Ok(Err(e)) => {
            if (e.starts_with("rcac Error") || e.starts_with("icac Error")) && e.contains("InvalidData") {
                // RcacGenerator / IcacGenerator draw 8 random serial bytes and then refuse
                // them when they start with 00 followed by a byte < 0x80 (1 call in 512):
                // a generator matter (onboarding / C19), not a conversion mismatch.
                cx.rep.note("RcacGenerator/IcacGenerator::generate returned InvalidData for legal parameters (random serial with a leading zero byte is refused by validate_serial_number; ~1/512 of the calls) - not judged by C17");
                cx.rep.count("cert_tlv2x509:generator_refused_random_serial");
            } else {
                cx.rt_fail("generated/refused", format!("{}: {}", desc, e), &[]);
            }
            return;
        }
        Ok(Ok(v)) => v,
    };
    let fab_hex = format!("{:016X}", fabric_id);
    let mut skids: Vec<Vec<u8>> = Vec::new();
    let mut subj_ids: Vec<(String, String)> = Vec::new(); // (oid, value) of the issuing CA
    for (kind, tlv, der) in &certs {
        let what = format!("generated/{}", kind);
        let tbs = match TbsCertificate::from_der(der) {
            Ok(t) => t,
            Err(e) => {
                // a serial number whose random bytes are not a minimal INTEGER is the
                // generator's business (C19), not the converter's
                let serial_noncanonical = der.len() > 12 && der[9] == 0x02 && {
                    let l = der[10] as usize;
                    l >= 2 && der.len() > 12 && ((der[11] == 0xff && der[12] & 0x80 != 0) || (der[11] == 0 && der[12] & 0x80 == 0))
                };
                if serial_noncanonical {
                    cx.rep.note("generated certificate: random serial is not a minimally encoded DER INTEGER; the independent parser refuses it (not judged here)");
                } else {
                    cx.mismatch(&format!("{}/der-unparseable", what), format!("{}: {}", desc, e), der);
                }
                return;
            }
        };
        let c = CertRef::new(TLVElement::new(tlv));
        let mut ok = true;
        ok &= cx.eq(&format!("{}/fabric-id", what), &vec![fab_hex.clone()], &der_attr(&tbs, true, DN_OIDS[20]), der);
        ok &= cx.eq(&format!("{}/not_before", what), &expected_time(validity.not_before, false), &time_of(&tbs.validity.not_before), der);
        ok &= cx.eq(&format!("{}/not_after", what), &expected_time(validity.not_after, true), &time_of(&tbs.validity.not_after), der);
        let d = match decode_exts(&tbs) {
            Ok(d) => d,
            Err(e) => {
                cx.mismatch(&format!("{}/extension-unparseable", what), e, der);
                return;
            }
        };
        let pk = tbs.subject_public_key_info.subject_public_key.raw_bytes().to_vec();
        ok &= cx.eq(&format!("{}/public-key(tlv accessor)", what), &c.pubkey().map(|p| p.to_vec()).unwrap_or_default(), &pk, der);
        match *kind {
            "rcac" => {
                let id = c.get_ca_id().unwrap_or(0);
                ok &= cx.eq(&format!("{}/rcac-id", what), &vec![format!("{:016X}", id)], &der_attr(&tbs, true, DN_OIDS[19]), der);
                ok &= cx.eq(&format!("{}/issuer=subject", what), &decoded_dn(&tbs.subject), &decoded_dn(&tbs.issuer), der);
                ok &= cx.eq(&format!("{}/basic-constraints", what), &Some((true, true, None)), &d.basic, der);
                ok &= cx.eq(&format!("{}/key-usage", what), &Some((true, 0x60u16)), &d.key_usage, der);
                ok &= cx.eq(&format!("{}/eku", what), &None, &d.eku, der);
                ok &= cx.eq(&format!("{}/akid=skid", what), &d.skid.as_ref().map(|s| s.1.clone()), &d.akid.as_ref().map(|s| s.1.clone()), der);
                subj_ids.push((DN_OIDS[19].to_string(), format!("{:016X}", id)));
            }
            "icac" => {
                let id = c.get_ca_id().unwrap_or(0);
                ok &= cx.eq(&format!("{}/icac-id", what), &vec![format!("{:016X}", id)], &der_attr(&tbs, true, DN_OIDS[18]), der);
                ok &= cx.eq(&format!("{}/issuer-rcac-id", what), &vec![subj_ids[0].1.clone()], &der_attr(&tbs, false, DN_OIDS[19]), der);
                ok &= cx.eq(&format!("{}/basic-constraints", what), &Some((true, true, Some(0))), &d.basic, der);
                ok &= cx.eq(&format!("{}/key-usage", what), &Some((true, 0x60u16)), &d.key_usage, der);
                ok &= cx.eq(&format!("{}/akid=issuer-skid", what), &Some(skids[0].clone()), &d.akid.as_ref().map(|s| s.1.clone()), der);
                subj_ids.push((DN_OIDS[18].to_string(), format!("{:016X}", id)));
            }
            _ => {
                ok &= cx.eq(&format!("{}/node-id", what), &vec![format!("{:016X}", node_id)], &der_attr(&tbs, true, DN_OIDS[16]), der);
                ok &= cx.eq(&format!("{}/cat-ids", what), &cats.iter().map(|c| format!("{:08X}", c)).collect::<Vec<_>>(), &der_attr(&tbs, true, DN_OIDS[21]), der);
                let (ioid, iid) = subj_ids.last().unwrap().clone();
                ok &= cx.eq(&format!("{}/issuer-ca-id", what), &vec![iid], &der_attr(&tbs, false, &ioid), der);
                ok &= cx.eq(&format!("{}/public-key(csr)", what), &dev_pub, &pk, der);
                ok &= cx.eq(&format!("{}/basic-constraints", what), &Some((true, false, None)), &d.basic, der);
                ok &= cx.eq(&format!("{}/key-usage", what), &Some((true, 0x01u16)), &d.key_usage, der);
                ok &= cx.eq(&format!("{}/eku", what), &Some((true, vec![EKU_OIDS[0].to_string(), EKU_OIDS[1].to_string()])), &d.eku, der);
                ok &= cx.eq(&format!("{}/akid=issuer-skid", what), &Some(skids.last().unwrap().clone()), &d.akid.as_ref().map(|s| s.1.clone()), der);
                // serial = minimal positive INTEGER of the node id
                let be = node_id.to_be_bytes();
                let start = be.iter().position(|b| *b != 0).unwrap_or(7);
                let mut serial = be[start..].to_vec();
                if serial[0] & 0x80 != 0 {
                    serial.insert(0, 0);
                }
                ok &= cx.eq(&format!("{}/serial", what), &serial, &tbs.serial_number.as_bytes().to_vec(), der);
                ok &= cx.eq(&format!("{}/node-id(tlv accessor)", what), &Some(node_id), &c.get_node_id().ok(), der);
            }
        }
        ok &= cx.eq(&format!("{}/fabric-id(tlv accessor)", what), &Some(fabric_id), &c.get_fabric_id().ok(), der);
        if let Ok(re) = tbs.to_der() {
            ok &= cx.eq(&format!("{}/der-canonical", what), &hex(der), &hex(&re), der);
        }
        skids.push(d.skid.map(|s| s.1).unwrap_or_default());
        if ok {
            cx.rt_ok();
            cx.rep.count("cert_tlv2x509:generated_roundtrips");
        }
        cx.mutate("cert.tlv_to_x509", tlv, rng, 5);
        cx.mutate("cert.accessors", tlv, rng, 2);
        cx.mutate("cert.display", tlv, rng, 1);
    }
    cx.shape(&[1, with_icac as u8, ncat as u8, edge_class(node_id, 64), edge_class(fabric_id, 64), (validity.not_after == 0) as u8, (validity.not_before >= Y2050_MATTER) as u8]);
}

fn case_cert(cx: &mut Cx, k: u64, rng: &mut Rng) {
    let m = cx.m;
    match m % 8 {
        0 => case_generated_chain(cx, rng),
        1 | 2 | 3 | 4 => {
            let spec = gen_spec(m / 8, rng);
            let tlv = write_cert(&spec);
            match guard(|| to_der(&tlv, 1024)) {
                Err(_) => {
                    // report through the registered decoder (same call)
                    cx.fuzz("cert.tlv_to_x509", &tlv, "legal-certificate");
                }
                Ok(Err(e)) => cx.rt_fail("built/refused", format!("{:?}: {}", spec, e), &tlv),
                Ok(Ok(der)) => {
                    cx.sample(format!("{:?}", spec), &der);
                    if compare_spec(cx, "built", &spec, &der) {
                        cx.rt_ok();
                    }
                    let has_text = spec.subject.iter().chain(spec.issuer.iter()).any(|d| !matches!(d.val, DnVal::Uint(_)));
                    cx.shape(&[
                        2,
                        (m / 8 % 4) as u8,
                        spec.subject.len() as u8,
                        has_text as u8,
                        (spec.not_after == 0) as u8,
                        (spec.not_before >= Y2050_MATTER) as u8,
                        spec.exts.len() as u8,
                        spec.serial.len() as u8,
                    ]);
                    cx.mutate("cert.tlv_to_x509", &tlv, rng, 4);
                    cx.mutate("cert.accessors", &tlv, rng, 1);
                    cx.mutate("cert.display", &tlv, rng, 1);
                    // every output-buffer size below the need must be refused, not panic
                    let n = rng.usize(der.len().min(255));
                    let r = guard(|| {
                        let c = CertRef::new(TLVElement::new(&tlv));
                        let mut buf = vec![0u8; n];
                        c.as_asn1(&mut buf).is_ok()
                    });
                    cx.rep.evaluations += 1;
                    cx.rep.count("cert_tlv2x509:arbitrary_inputs");
                    match r {
                        Err(p) => {
                            cx.rep.count("cert_tlv2x509:panics");
                            let sig = format!("C17/cert_tlv2x509/panic/short-output-buffer/{}", super::c17::panic_class(&p));
                            let rj = cx.replay_case();
                            cx.rep.violation("no-panic", &sig, format!("as_asn1 into a {}-byte buffer ({} needed) panicked: {} at {}:{}; certificate {}", n, der.len(), p.msg, p.file, p.line, hex(&tlv)), rj);
                        }
                        Ok(true) => cx.rt_fail("short-buffer-accepted", format!("as_asn1 claimed success with {} bytes, {} needed", n, der.len()), &tlv),
                        Ok(false) => cx.rep.count("cert_tlv2x509:decode_err"),
                    }
                    if k < 80 {
                        let d = cx.decs.iter().find(|d| d.name == "cert.tlv_to_x509").unwrap();
                        super::c17::all_truncations(cx.rep, d, &tlv, rng);
                    }
                }
            }
        }
        _ => {
            for _ in 0..3 {
                let (tlv, name) = hostile_spec(rng);
                cx.shape(&[3, name.len() as u8, name.as_bytes()[0], name.as_bytes()[name.len() - 1]]);
                cx.fuzz("cert.tlv_to_x509", &tlv, &format!("hostile:{}", name));
                cx.fuzz("cert.accessors", &tlv, &format!("hostile:{}", name));
                cx.fuzz("cert.display", &tlv, &format!("hostile:{}", name));
                let mut small = tlv.clone();
                if !small.is_empty() {
                    cx.fuzz("cert.tlv_to_x509.small_buf", &small, &format!("hostile:{}", name));
                    small.truncate(rng.usize(tlv.len()));
                }
            }
        }
    }
}

// ---------------------------------------------------------------------------------------
// CSR
// ---------------------------------------------------------------------------------------

fn case_csr(cx: &mut Cx, k: u64, rng: &mut Rng) {
    let seed = rng.u64();
    let r = guard(|| -> Result<(Vec<u8>, Vec<u8>, Vec<u8>, bool), String> {
        let crypto = default_crypto(Rng::new(seed), DAC_PRIVKEY);
        let key = crypto.generate_secret_key().map_err(|e| format!("keygen {:?}", e))?;
        let mut buf = [0u8; 256];
        let csr = key.csr(&mut buf).map_err(|e| format!("csr {:?}", e))?.to_vec();
        let mut pk = CanonPkcPublicKey::new();
        key.pub_key().map_err(|e| format!("{:?}", e))?.write_canon(&mut pk).map_err(|e| format!("{:?}", e))?;
        let c = CsrRef::new(&csr).map_err(|e| format!("CsrRef::new {:?}", e))?;
        let got = c.pubkey().map_err(|e| format!("pubkey {:?}", e))?.access().to_vec();
        let verified = c.verify(&crypto).is_ok();
        Ok((csr, pk.access().to_vec(), got, verified))
    });
    match r {
        Err(p) => cx.encoder_panic(&p, format!("csr of key seed {}", seed)),
        Ok(Err(e)) => cx.rt_fail("refused", e, &[]),
        Ok(Ok((csr, want, got, verified))) => {
            cx.sample(format!("csr for public key {}", hex(&want)), &csr);
            let mut ok = cx.eq("public-key", &want, &got, &csr);
            ok &= cx.eq("self-signature-verifies", &true, &verified, &csr);
            // independent parser
            match x509_cert::request::CertReq::from_der(&csr) {
                Ok(req) => {
                    ok &= cx.eq("public-key(x509-cert)", &want, &req.info.public_key.subject_public_key.raw_bytes().to_vec(), &csr);
                }
                Err(e) => {
                    cx.mismatch("der-unparseable", format!("x509-cert cannot parse the CSR: {}", e), &csr);
                    ok = false;
                }
            }
            if ok {
                cx.rt_ok();
            }
            cx.shape(&[(csr.len() % 8) as u8, (want[1] >> 5)]);
            cx.mutate("csr.parse", &csr, rng, 6);
            if k < 32 {
                let d = cx.decs.iter().find(|d| d.name == "csr.parse").unwrap();
                super::c17::all_truncations(cx.rep, d, &csr, rng);
            }
            // too small output buffer
            let n = rng.usize(csr.len());
            match guard(|| {
                let crypto = default_crypto(Rng::new(seed), DAC_PRIVKEY);
                let key = crypto.generate_secret_key().unwrap();
                let mut b = vec![0u8; n];
                let r = key.csr(&mut b).is_ok();
                r
            }) {
                Err(p) => cx.encoder_panic(&p, format!("csr into a {}-byte buffer", n)),
                Ok(true) => cx.rt_fail("short-buffer-accepted", format!("csr of {} bytes written into {} bytes", csr.len(), n), &csr),
                Ok(false) => {}
            }
        }
    }
}

// ---------------------------------------------------------------------------------------
// Attestation X.509 parser (decoder only)
// ---------------------------------------------------------------------------------------

fn case_x509(cx: &mut Cx, k: u64, rng: &mut Rng) {
    let dac = TEST_DEV_ATT.dac().to_vec();
    let pai = TEST_DEV_ATT.pai().to_vec();
    if k < 16 {
        cx.fuzz("x509.dac.parse", &dac, "valid");
        cx.fuzz("x509.pai.parse", &pai, "valid");
        cx.fuzz("x509.pai.parse", &dac, "valid-other-kind");
        cx.fuzz("x509.paa.parse", &pai, "valid-other-kind");
        let d = cx.decs.iter().find(|d| d.name == "x509.dac.parse").unwrap();
        super::c17::all_truncations(cx.rep, d, &dac, rng);
    }
    let (name, base) = match cx.m % 3 {
        0 => ("x509.dac.parse", &dac),
        1 => ("x509.pai.parse", &pai),
        _ => ("x509.paa.parse", &pai),
    };
    cx.mutate(name, base, rng, 4);
    // time fields: digits replaced (month 13, day 00, year 9999 …)
    let mut v = base.clone();
    if let Some(p) = v.windows(2).position(|w| w == [0x17, 0x0d]) {
        let q = p + 2 + rng.usize(12);
        v[q] = *rng.pick(b"0123456789:/ Z");
        cx.fuzz(name, &v, "time-digit-substitution");
    }
    let mut v = base.clone();
    if let Some(p) = v.windows(2).position(|w| w == [0x18, 0x0f]) {
        let q = p + 2 + rng.usize(14);
        v[q] = *rng.pick(b"0123456789:/ Z");
        cx.fuzz(name, &v, "time-digit-substitution");
    }
    // vendor/product id attribute values (4 hex characters) replaced
    let mut v = base.clone();
    if let Some(p) = v.windows(4).position(|w| w == b"FFF1") {
        for i in 0..4 {
            if rng.bool() {
                v[p + i] = *rng.pick(b"0123456789abcdefABCDEFxg -");
            }
        }
        cx.fuzz(name, &v, "vid-attribute-substitution");
    }
    cx.shape(&[(cx.m % 3) as u8]);
}

// ---------------------------------------------------------------------------------------
// Certification declaration
// ---------------------------------------------------------------------------------------

#[derive(Clone, Debug, PartialEq)]
struct Cd {
    vendor_id: u16,
    product_ids: Vec<u16>,
    device_type_id: u32,
    certificate_id: String,
    security_level: u8,
    security_information: u16,
    version_number: u16,
    certification_type: u8,
    dac_origin: Option<(u16, u16)>,
    paa: Vec<Vec<u8>>,
}

fn write_cd(c: &Cd, format_version: u16) -> Vec<u8> {
    let mut t = Tlv::default();
    t.start_struct(None);
    t.uint(Some(0), format_version as u64, 1);
    t.uint(Some(1), c.vendor_id as u64, 1);
    t.start_array(Some(2));
    for p in &c.product_ids {
        t.uint(None, *p as u64, 1);
    }
    t.end();
    t.uint(Some(3), c.device_type_id as u64, 1);
    t.utf8(Some(4), c.certificate_id.as_bytes());
    t.uint(Some(5), c.security_level as u64, 1);
    t.uint(Some(6), c.security_information as u64, 1);
    t.uint(Some(7), c.version_number as u64, 1);
    t.uint(Some(8), c.certification_type as u64, 1);
    if let Some((v, p)) = c.dac_origin {
        t.uint(Some(9), v as u64, 1);
        t.uint(Some(10), p as u64, 1);
    }
    if !c.paa.is_empty() {
        t.start_array(Some(11));
        for p in &c.paa {
            t.octets(None, p);
        }
        t.end();
    }
    t.end();
    t.0
}

fn case_cd(cx: &mut Cx, k: u64, rng: &mut Rng) {
    let npid = match cx.m % 5 {
        0 => 1,
        1 => 100,
        2 => 99,
        _ => 1 + rng.usize(100),
    };
    let cd = Cd {
        vendor_id: edge(rng, 16) as u16,
        product_ids: (0..npid).map(|_| edge(rng, 16) as u16).collect(),
        device_type_id: edge(rng, 32) as u32,
        certificate_id: (0..19).map(|_| *rng.pick(b"ABCDEFGHIJKLMNOPQRSTUVWXYZ0123456789") as char).collect(),
        security_level: edge(rng, 8) as u8,
        security_information: edge(rng, 16) as u16,
        version_number: edge(rng, 16) as u16,
        certification_type: rng.below(3) as u8,
        dac_origin: rng.bool().then(|| (edge(rng, 16) as u16, edge(rng, 16) as u16)),
        paa: (0..match rng.below(4) { 0 => 0, 1 => 10, _ => rng.usize(11) }).map(|_| rng.bytes(20)).collect(),
    };
    let tlv = write_cd(&cd, 1);
    match guard(|| CertificationElements::decode(&tlv).map_err(|e| format!("{:?}", e))) {
        Err(_) => {
            cx.fuzz("cd.decode", &tlv, "legal-declaration");
        }
        Ok(Err(e)) => cx.rt_fail("refused", format!("{:?}: {}", cd, e), &tlv),
        Ok(Ok(d)) => {
            let got = Cd {
                vendor_id: d.vendor_id,
                product_ids: d.product_ids[..d.product_ids_count.min(100)].to_vec(),
                device_type_id: d.device_type_id,
                certificate_id: String::from_utf8_lossy(&d.certificate_id).to_string(),
                security_level: d.security_level,
                security_information: d.security_information,
                version_number: d.version_number,
                certification_type: d.certification_type as u8,
                dac_origin: d.dac_origin_vid_pid_present.then_some((d.dac_origin_vendor_id, d.dac_origin_product_id)),
                paa: d.authorized_paa_list[..d.authorized_paa_list_count.min(10)].iter().map(|p| p.to_vec()).collect(),
            };
            cx.sample(format!("{:?}", cd), &tlv);
            let mut ok = cx.eq("format_version", &1u16, &d.format_version, &tlv);
            ok &= cx.eq("vendor_id", &cd.vendor_id, &got.vendor_id, &tlv);
            ok &= cx.eq("product_ids", &cd.product_ids, &got.product_ids, &tlv);
            ok &= cx.eq("device_type_id", &cd.device_type_id, &got.device_type_id, &tlv);
            ok &= cx.eq("certificate_id", &cd.certificate_id, &got.certificate_id, &tlv);
            ok &= cx.eq("security_level", &cd.security_level, &got.security_level, &tlv);
            ok &= cx.eq("security_information", &cd.security_information, &got.security_information, &tlv);
            ok &= cx.eq("version_number", &cd.version_number, &got.version_number, &tlv);
            ok &= cx.eq("certification_type", &cd.certification_type, &got.certification_type, &tlv);
            ok &= cx.eq("dac_origin", &cd.dac_origin, &got.dac_origin, &tlv);
            ok &= cx.eq("authorized_paa_list", &cd.paa, &got.paa, &tlv);
            if ok {
                cx.rt_ok();
            }
            cx.shape(&[npid as u8, cd.dac_origin.is_some() as u8, cd.paa.len() as u8, cd.certification_type]);
            cx.mutate("cd.decode", &tlv, rng, 3);
        }
    }
    // structurally valid but out-of-limit declarations: refused or not, never a panic
    let mut bad = cd.clone();
    let origin = match cx.m % 7 {
        0 => {
            bad.product_ids = (0..101 + rng.usize(30)).map(|_| 1).collect();
            "101+-product-ids"
        }
        1 => {
            bad.paa = (0..11 + rng.usize(5)).map(|_| rng.bytes(20)).collect();
            "11+-paa-entries"
        }
        2 => {
            let n = *rng.pick(&[0usize, 19, 21, 255]);
            bad.paa = vec![rng.bytes(n)];
            "paa-entry-of-wrong-length"
        }
        3 => {
            bad.certificate_id = "X".repeat(*rng.pick(&[0usize, 18, 20, 300]));
            "certificate-id-of-wrong-length"
        }
        4 => {
            bad.product_ids.clear();
            "no-product-ids"
        }
        5 => {
            bad.certification_type = 3 + rng.below(250) as u8;
            "unknown-certification-type"
        }
        _ => "format-version-not-1",
    };
    let tlv = write_cd(&bad, if origin == "format-version-not-1" { *rng.pick(&[0u16, 2, 0xffff]) } else { 1 });
    if cx.fuzz("cd.decode", &tlv, origin) == Some(true) {
        cx.rep.note(&format!("certification declaration with {} accepted (not judged)", origin));
    }
    // CMS envelope of the test device
    let cms = TEST_DEV_ATT.cert_declaration().to_vec();
    if k < 16 {
        cx.fuzz("cd.cms.parse", &cms, "valid");
        let d = cx.decs.iter().find(|d| d.name == "cd.cms.parse").unwrap();
        super::c17::all_truncations(cx.rep, d, &cms, rng);
    }
    if cx.m % 4 == 0 {
        cx.mutate("cd.cms.parse", &cms, rng, 2);
    }
}
