//! C03 — secured messages are accepted only if authentic for that session and direction.
//!
//! Part 1 (`c03_node`, `c03_gen`): a real receiver node with mirrored CASE / PASE sessions
//! and real group keys; for every authentic original D the harness-side sender builds, all
//! mutants D' are delivered first (each alone, state compared before/after), then D itself
//! as the control (must be delivered exactly once, identical) - which also proves that the
//! mutants were not rejected merely because D itself would have been.
//! Part 2 (`c03_codec`): encode/decode identity and mutant rejection at the codec level.

use serde_json::json;

use crate::report::{Ctx, Report};
use crate::sim::rng::{subseed, Fnv};
use crate::util::panic_class;

use super::c03_codec::{self, len_class};
use super::c03_gen::{Expect, GROUP_IDS};
use super::c03_node::{mut_hash, run_batch, BatchOut, BatchParams, CtlRec, MutRec};

const ORIGS_PER_NODE: usize = 10;

fn class_family(c: &str) -> &str {
    c.split('/').next().unwrap_or(c)
}

fn replay_json(bp: &BatchParams, k: usize, m: Option<usize>) -> serde_json::Value {
    json!({
        "check": "C03", "part": 1,
        "node_seed": bp.node_seed.to_string(),
        "thorough": bp.thorough,
        "orig_index": k,
        "mutant_index": m,
        "full_prefix": false,
    })
}

fn judge_mutant(rep: &mut Report, bp: &BatchParams, m: &MutRec) {
    rep.evaluations += 1;
    rep.count("p1/mutants");
    rep.count(&format!("p1/mutant-class:{}", class_family(&m.class)));
    rep.count(&format!("p1/mutant:{}", m.class));
    rep.count(&format!("p1/mutants-mode:{}", m.mode));
    if m.i0 {
        rep.count("p1/mutants-against-initiator-exchange");
    }
    rep.distinct.insert(mut_hash(m));
    let rj = replay_json(bp, m.orig_index, Some(m.mut_index));
    let (orig_hex, mut_hex) = m.witness.clone().unwrap_or_default();
    if !m.judged {
        if !m.delivered_secure.is_empty() {
            rep.note(&format!("unjudged-mutant-delivered/{}", m.class));
        } else {
            rep.note(&format!("unjudged-mutant-rejected/{}", m.class));
        }
        return;
    }
    if !m.delivered_secure.is_empty() {
        rep.violation(
            "mutant-not-delivered",
            &format!("C03/mutant-accepted/{}/{}", m.mode, m.class),
            format!(
                "a datagram that no legitimate peer produced ({}; {} session, header shape {}, payload {} B) was handed to an exchange of a secure session: {}. original {} mutant {}",
                m.class,
                m.mode,
                m.shape,
                m.plen,
                m.delivered_secure.iter().map(|e| e.brief()).collect::<Vec<_>>().join("; "),
                orig_hex,
                mut_hex
            ),
            rj.clone(),
        );
    } else {
        rep.count("p1/mutants-not-delivered");
    }
    if let Some(f) = &m.changed {
        rep.violation(
            "mutant-leaves-state-unchanged",
            &format!("C03/mutant-changed-state/{}/{}/{}", m.mode, m.class, f),
            format!(
                "a rejected/forged datagram ({}; {} session, shape {}, payload {} B) changed the secure-session table: field {}. original {} mutant {}",
                m.class, m.mode, m.shape, m.plen, f, orig_hex, mut_hex
            ),
            rj,
        );
    } else {
        rep.count("p1/mutants-state-unchanged");
    }
    if m.delivered_unsecured > 0 {
        rep.note(&format!("mutant-delivered-on-unsecured-session/{}", m.class));
    }
    if m.unsecured_sessions_delta != 0 {
        rep.note(&format!("mutant-created-unsecured-session/{}", m.class));
    }
    if m.replies > 0 {
        rep.count("p1/mutants-answered-by-receiver");
        rep.count(&format!("p1/answered:{}", class_family(&m.class)));
    }
}

fn judge_control(rep: &mut Report, bp: &BatchParams, c: &CtlRec) {
    rep.evaluations += 1;
    rep.count("p1/controls");
    rep.count(&format!("p1/controls-mode:{}", c.mode));
    rep.count(&format!("p1/len:{}", len_class(c.payload.len())));
    for (on, name) in [
        (c.hp.src.is_some(), "src-present"),
        (c.hp.src.is_none(), "src-absent"),
        (c.hp.dst_uni.is_some(), "dst-unicast"),
        (c.hp.dst_grp.is_some(), "dst-group"),
        (c.hp.dst_uni.is_none() && c.hp.dst_grp.is_none(), "dst-absent"),
        (c.hp.ack.is_some(), "ack"),
        (c.hp.vendor.is_some(), "vendor"),
        (c.hp.initiator, "initiator"),
        (!c.hp.initiator, "responder-side"),
        (c.hp.reliable, "reliable"),
        (!c.hp.reliable, "unreliable"),
        (c.hp.control, "control"),
        (c.hp.group, "group-flag"),
    ] {
        if on {
            rep.count(&format!("p1/shape:{}", name));
        }
    }
    if c.exhaustive {
        rep.count("p1/originals-with-exhaustive-mutation");
    }
    let mut f = Fnv::new();
    f.add(format!("ctl|{}|{}|{}|{}", c.mode, c.shape, len_class(c.payload.len()), c.i0).as_bytes());
    rep.distinct.insert(f.0);

    let rj = replay_json(bp, c.orig_index, None);
    let secure: Vec<_> = c.delivered.iter().filter(|e| e.secure).collect();
    let collision_case = c.sid_collision && c.mode == "group";

    match (&c.expect, secure.len()) {
        (Expect::Delivered, 0) => {
            let sig = if collision_case {
                "C03/authentic-not-delivered/group-session-id-equals-a-unicast-session-id".to_string()
            } else {
                format!("C03/authentic-not-delivered/{}/{}", c.mode, if c.i0 { "to-initiator-exchange" } else { "new-exchange" })
            };
            rep.violation(
                "authentic-delivered",
                &sig,
                format!(
                    "an authentic, fresh datagram for a {} session (shape {}, header {:?}, payload {} B, after {} rejected mutants) was not handed to any exchange. datagram {}",
                    c.mode,
                    c.shape,
                    c.hp,
                    c.payload.len(),
                    c.n_mutants,
                    c.dgram_hex
                ),
                rj.clone(),
            );
            return;
        }
        (Expect::Rejected(why), 0) => {
            rep.count(&format!("p1/group-message-not-mapped-to-its-key-rejected/{}", why));
            rep.count("p1/group-message-not-mapped-to-its-key-rejected");
            return;
        }
        (Expect::Rejected(why), _) => {
            rep.violation(
                "session-binding",
                &format!("C03/cross-session-accepted/group-message-for-group-not-mapped-to-its-key/{}", why),
                format!(
                    "a group message secured with the operational key of a key set that the receiver does not map to the addressed group ({}; header {:?}) was handed to an exchange ({}): it was accepted under the key of another group. datagram {}",
                    why,
                    c.hp,
                    secure.iter().map(|e| e.brief()).collect::<Vec<_>>().join("; "),
                    c.dgram_hex
                ),
                rj.clone(),
            );
            return;
        }
        (Expect::Any(why), 0) => {
            rep.note(&format!("open-shape-not-delivered/{}", why));
            rep.count("p1/controls-open-shape");
            return;
        }
        (Expect::Any(why), _) => {
            rep.note(&format!("open-shape-delivered/{}", why));
            rep.count("p1/controls-open-shape");
        }
        _ => {}
    }
    if secure.len() > 1 {
        rep.violation(
            "authentic-delivered-once",
            &format!("C03/authentic-delivered-more-than-once/{}", c.mode),
            format!("one authentic datagram was handed to exchanges {} times: {}; datagram {}", secure.len(), secure.iter().map(|e| e.brief()).collect::<Vec<_>>().join("; "), c.dgram_hex),
            rj.clone(),
        );
        return;
    }
    let e = secure[0];
    let mut bad: Vec<(&str, String)> = Vec::new();
    if e.local_sid != c.target_local_sid {
        bad.push(("session", format!("delivered on session id {:#x}, addressed {:#x}", e.local_sid, c.target_local_sid)));
    }
    if e.exch_id != Some(c.hp.exch_id) {
        bad.push(("exchange-id", format!("exchange id {:?} vs sent {:#x}", e.exch_id, c.hp.exch_id)));
    }
    if e.proto_id != c.hp.proto_id {
        bad.push(("proto-id", format!("{:#x} vs {:#x}", e.proto_id, c.hp.proto_id)));
    }
    if e.opcode != c.hp.opcode {
        bad.push(("opcode", format!("{:#x} vs {:#x}", e.opcode, c.hp.opcode)));
    }
    if e.reliable != c.hp.reliable {
        bad.push(("reliable-flag", format!("{} vs {}", e.reliable, c.hp.reliable)));
    }
    if e.payload != c.payload {
        bad.push(("payload", format!("payload {} B vs sent {} B", e.payload.len(), c.payload.len())));
    }
    if c.i0 != (e.via == "initiator") {
        bad.push(("role", format!("delivered via {} but initiator flag was {}", e.via, c.hp.initiator)));
    }
    if c.mode == "group" {
        if let (Some(g), Some(sg)) = (c.hp.dst_grp, e.group_id) {
            if g != sg {
                bad.push(("group-id", format!("session bound to group {:#x}, message addressed to {:#x}", sg, g)));
            }
        }
        if !e.mode.starts_with("Group") {
            bad.push(("session-mode", format!("group message delivered on a {} session", e.mode)));
        }
    } else if e.mode.starts_with("Group") {
        bad.push(("session-mode", format!("unicast message delivered on a {} session", e.mode)));
    }
    if bad.is_empty() {
        rep.count("p1/controls-delivered-identical");
        rep.count(&format!("p1/controls-delivered-identical-mode:{}", c.mode));
        if c.i0 {
            rep.count("p1/controls-delivered-to-initiator-exchange");
        }
    }
    for (field, what) in bad {
        rep.violation(
            "roundtrip",
            &format!("C03/roundtrip-mismatch/{}/{}", c.mode, field),
            format!("authentic datagram (shape {}, header {:?}) delivered with a different {}: {}; receiver saw {}; datagram {}", c.shape, c.hp, field, what, e.brief(), c.dgram_hex),
            rj.clone(),
        );
    }
    match &c.echo {
        Some(Ok(())) => rep.count("p1/echo-reply-decoded-identical"),
        Some(Err(why)) => rep.violation(
            "roundtrip",
            "C03/roundtrip-mismatch/reply-direction",
            format!("the receiver's reply on the same session does not decode to what its handler sent: {}; request {:?}", why, c.hp),
            rj.clone(),
        ),
        None => {}
    }
}

fn judge_batch(rep: &mut Report, bp: &BatchParams, o: &BatchOut) {
    if let Some(e) = &o.setup_failed {
        // harness-side certificate minting failed for this seed: the node is skipped
        rep.note(&format!("node-setup-failed-skipped:{}", e));
        return;
    }
    rep.count("p1/nodes-built");
    rep.interleavings.insert(o.sched_hash);
    for m in &o.muts {
        judge_mutant(rep, bp, m);
    }
    for c in &o.ctls {
        judge_control(rep, bp, c);
    }
    for p in &o.pairs {
        rep.count("p1/group-pair-scenarios");
        let rj = replay_json(bp, p.orig_index, None);
        if !p.first_delivered {
            continue;
        }
        rep.count("p1/group-pair-first-delivered");
        // (a) authentic message for another mapped group while the first one's session is alive
        for e in p.second.iter().filter(|e| e.secure) {
            rep.count("p1/group-pair-second-delivered");
            if e.group_id != Some(p.second_group) {
                rep.violation(
                    "session-binding",
                    "C03/cross-session-accepted/group-message-attributed-to-live-session-of-another-group",
                    format!(
                        "a group message addressed to group {:#x} arrived while the ephemeral receive session of a message to another group (same sender, same key) was alive, and was handed to an exchange of THAT session ({}): the receiver attributes it to the wrong group. datagrams: first {} second {}",
                        p.second_group,
                        e.brief(),
                        p.hexes[0],
                        p.hexes[1]
                    ),
                    rj.clone(),
                );
            }
        }
        if p.second.iter().all(|e| !e.secure) {
            rep.note("group-pair/second-authentic-message-not-delivered-while-first-in-progress");
        }
        // (b) message for a group the receiver has no key mapping for
        for e in p.third.iter().filter(|e| e.secure) {
            rep.violation(
                "session-binding",
                "C03/cross-session-accepted/group-message-for-unmapped-group-via-live-session",
                format!(
                    "a group message addressed to group {:#x}, for which the receiver has no group-key mapping (it is rejected when it arrives alone), was handed to an exchange of the live ephemeral session of another group ({}). datagrams: first {} third {}",
                    p.third_group,
                    e.brief(),
                    p.hexes[0],
                    p.hexes[2]
                ),
                rj.clone(),
            );
        }
        if p.third.iter().all(|e| !e.secure) {
            rep.count("p1/group-pair-unmapped-rejected");
        }
        // (c) C04 side observation: the second datagram, accepted through the live session,
        // replayed verbatim after that session has gone
        if p.replay_second.iter().any(|e| e.secure) {
            rep.violation(
                "C04-replay",
                "C04/replay-accepted/group-message-first-accepted-via-live-ephemeral-session",
                format!(
                    "a group datagram that had already been handed to an exchange (through the live ephemeral session of an earlier message from the same sender) was handed to an exchange AGAIN when replayed verbatim after that session ended: {}. datagram {}",
                    p.replay_second.iter().map(|e| e.brief()).collect::<Vec<_>>().join("; "),
                    p.hexes[1]
                ),
                rj.clone(),
            );
        } else if !p.second.is_empty() {
            rep.count("p1/group-pair-replay-rejected");
        }
    }
    if let Some(p) = &o.panic {
        let last = o.muts.last();
        rep.violation(
            "no-panic",
            &format!("C03/panic/{}", panic_class(p)),
            format!("panic in the receive path: {}; last recorded mutant {:?}", p, last.map(|m| (&m.class, m.orig_index, m.mut_index))),
            json!({"check": "C03", "part": 1, "node_seed": bp.node_seed.to_string(), "thorough": bp.thorough, "orig_index": last.map(|m| m.orig_index).unwrap_or(0), "mutant_index": serde_json::Value::Null, "full_prefix": true}),
        );
    }
    match o.status {
        Some(crate::sim::exec::RunStatus::Done) | None => {}
        Some(s) => rep.inconclusive(&format!("run-status-{:?}", s)),
    }
    for n in &o.notes {
        rep.note(n);
    }
    if o.aborted {
        rep.count("p1/nodes-abandoned-early");
    }
    rep.count_n("p1/secured-datagrams-sent-by-receiver", o.secured_sent);
    rep.count_n("p1/receiver-initiated-messages-decoded", o.tx_checked);
    for t in &o.tx_mismatch {
        rep.violation("roundtrip", "C03/roundtrip-mismatch/receiver-to-peer", t.clone(), json!({"check": "C03", "part": 1, "node_seed": bp.node_seed.to_string(), "thorough": bp.thorough, "orig_index": 0, "mutant_index": serde_json::Value::Null, "full_prefix": true}));
    }
    for v in &o.tap_unicast {
        rep.violation("C15-tap", &format!("C15/tap/{}", v.split(':').next().unwrap_or("x")), format!("passive nonce monitor: {} (node seed {})", v, bp.node_seed), json!({"check": "C03", "part": 1, "node_seed": bp.node_seed.to_string(), "thorough": bp.thorough, "orig_index": ORIGS_PER_NODE, "mutant_index": serde_json::Value::Null, "full_prefix": true}));
    }
    for v in &o.tap_group {
        rep.note(&format!("tap-group-session/{}", v.split(':').next().unwrap_or("x")));
    }
}

pub fn run(ctx: &Ctx) -> Report {
    let mut rep = Report::new(
        "C03",
        "Part 1: authentic datagrams for mirrored CASE/PASE sessions and real group keys, and their mutants (bit flips, truncation, extension, \
         session/source/destination transplants, re-keying, reflection), delivered one at a time to a real receiver node; state compared before/after \
         each. Part 2: codec-level encode/decode identity + mutants. A case is non-trivial if it is a mutant or an authentic control; \
         distinct = distinct (mutation class, session mode, header shape, payload length class, position bucket, receive role) tuples \
         (Part 2: header shape x payload length class).",
    );
    crate::util::quiet_panics();
    rep.assumptions.push("sessions are installed through ReservedSession::update with random keys (no handshake); group keys through the public Groups API".into());
    rep.assumptions.push("cryptographic strength is not tested: no forged tags are searched for".into());
    rep.assumptions.push("all datagrams arrive from the peer address the session was created with (delivery from another address is not judged)".into());
    rep.assumptions.push("NOT generated: authentic group messages with the R (reliable) flag - on the unchanged tree one such message makes the transport spin forever in process_dropped_exchanges (replay {\"check\":\"C03\",\"part\":1,\"probe\":\"group-reliable-wedge\",\"node_seed\":\"42\"} demonstrates it: it never returns)".into());
    rep.assumptions.push("SecFlags MSG_EXT / PRIVACY and ExchFlags SECEX cannot be set through the public header API and are only reached by bit flips".into());

    if let Some(r) = &ctx.replay {
        if r["part"].as_u64() == Some(2) {
            let seed: u64 = r["seed"].as_str().and_then(|s| s.parse().ok()).unwrap_or(0);
            let crypto = crate::sim::node::crypto(crate::sim::rng::Rng::new(subseed(seed, &[0xC0DEC])));
            c03_codec::codec_case(&mut rep, &crypto, seed, r["index"].as_u64().unwrap_or(0), true);
            return rep;
        }
        let bp = BatchParams {
            node_seed: r["node_seed"].as_str().and_then(|s| s.parse().ok()).unwrap_or(0),
            n_orig: ORIGS_PER_NODE,
            thorough: r["thorough"].as_bool().unwrap_or(false),
            only: Some((r["orig_index"].as_u64().unwrap_or(0) as usize, r["mutant_index"].as_u64().map(|x| x as usize))),
            full_prefix: r["full_prefix"].as_bool().unwrap_or(false),
            max_mutants: usize::MAX,
            probe_group_reliable: r["probe"].as_str() == Some("group-reliable-wedge"),
        };
        let mut o = run_batch(&bp);
        if !bp.full_prefix {
            // only the replayed case is judged (earlier originals merely rebuild the state)
            let k = bp.only.map(|x| x.0).unwrap_or(0);
            o.muts.retain(|m| m.orig_index == k);
            o.ctls.retain(|c| c.orig_index == k);
            o.pairs.retain(|p| p.orig_index == k);
        }
        judge_batch(&mut rep, &bp, &o);
        for m in o.muts.iter().rev().take(3) {
            rep.sample(json!({"mutant": m.class, "delivered": m.delivered_secure.len(), "changed": m.changed, "replies": m.replies}));
        }
        for c in o.ctls.iter().rev().take(2) {
            rep.sample(json!({"control": format!("{:?}", c.hp), "delivered": c.delivered.iter().map(|e| e.brief()).collect::<Vec<_>>(), "datagram": c.dgram_hex}));
        }
        return rep;
    }

    // ---- floors (totals over 16 shards)
    let scale = if ctx.scale < 1.0 { ctx.scale } else { 1.0 };
    let fl = |n: u64| ((n as f64) * scale).ceil() as u64;
    for (k, min) in [
        ("p1/controls-delivered-identical", 300),
        ("p1/controls-delivered-identical-mode:case", 80),
        ("p1/controls-delivered-identical-mode:pase", 40),
        ("p1/controls-delivered-identical-mode:group", 60),
        ("p1/controls-delivered-to-initiator-exchange", 30),
        ("p1/echo-reply-decoded-identical", 20),
        ("p1/mutants-not-delivered", 20_000),
        ("p1/mutant-class:bitflip", 8_000),
        ("p1/mutant-class:truncate", 2_000),
        ("p1/mutant-class:extend", 800),
        ("p1/mutant-class:transplant", 1_500),
        ("p1/mutant-class:rekey", 1_500),
        ("p1/mutant-class:reflect", 500),
        ("p1/mutant-class:srcfield", 500),
        ("p1/mutant-class:dstfield", 300),
        ("p1/mutant-class:group", 1_000),
        ("p1/mutant:bitflip/msgflags", 300),
        ("p1/mutant:bitflip/sessid", 300),
        ("p1/mutant:bitflip/secflags", 300),
        ("p1/mutant:bitflip/ctr", 300),
        ("p1/mutant:bitflip/srcnode", 200),
        ("p1/mutant:bitflip/dstnode", 100),
        ("p1/mutant:bitflip/body", 1_000),
        ("p1/mutant:bitflip/tag", 1_000),
        ("p1/mutants-against-initiator-exchange", 1_000),
        ("p1/originals-with-exhaustive-mutation", 4),
        ("p1/shape:src-present", 100),
        ("p1/shape:src-absent", 100),
        ("p1/shape:dst-unicast", 60),
        ("p1/shape:dst-group", 60),
        ("p1/shape:dst-absent", 100),
        ("p1/shape:ack", 80),
        ("p1/shape:vendor", 60),
        ("p1/shape:initiator", 200),
        ("p1/shape:responder-side", 30),
        ("p1/shape:reliable", 100),
        ("p1/shape:unreliable", 100),
        ("p1/shape:control", 30),
        ("p1/len:0", 3),
        ("p1/len:1", 3),
        ("p1/len:2-15", 30),
        ("p1/len:17-64", 60),
        ("p1/len:65-255", 20),
        ("p1/len:256-1023", 20),
        ("p1/len:max-rx", 3),
        ("p1/group-message-not-mapped-to-its-key-rejected", 40),
        ("p2/roundtrip-identical", 500_000),
        ("p2/mutant-rejected", 1_500_000),
        ("p2/len:max-rx", 1_000),
        ("p2/len:0", 1_000),
    ] {
        rep.floor(k, fl(min));
    }

    // ---- Part 1
    let budget = ctx.share(160_000, 1_600_000) as usize;
    let shard_seed = ctx.shard_seed();
    let mut done = 0usize;
    let mut b = 0u64;
    let mut samples = 0;
    while ctx.mode != "p2" && done < budget && b < 100_000 {
        let bp = BatchParams {
            node_seed: subseed(shard_seed, &[0xC03, b]),
            n_orig: ORIGS_PER_NODE,
            thorough: ctx.thorough,
            only: None,
            full_prefix: false,
            max_mutants: budget - done,
            probe_group_reliable: false,
        };
        let o = run_batch(&bp);
        done += o.muts.len().max(1);
        judge_batch(&mut rep, &bp, &o);
        if samples < 3 {
            if let Some(c) = o.ctls.first() {
                samples += 1;
                rep.sample(json!({"node_seed": bp.node_seed.to_string(), "control": format!("{:?}", c.hp), "mode": c.mode, "payload_len": c.payload.len(),
                    "mutants_before_control": c.n_mutants, "delivered": c.delivered.iter().map(|e| e.brief()).collect::<Vec<_>>(),
                    "datagram": c.dgram_hex.chars().take(128).collect::<String>()}));
            }
        }
        b += 1;
        if rep.get("violations_raw") > 5000 {
            rep.note("part1-stopped-after-5000-violations");
            break;
        }
    }
    let _ = GROUP_IDS;

    // ---- Part 2
    if ctx.mode != "p1" {
        c03_codec::run_part2(ctx, &mut rep);
    }
    rep
}
