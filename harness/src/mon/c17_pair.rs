//! C17 — onboarding payloads: QR payload, manual pairing code, base-38, BLE advertisement.

use serde_json::json;

use rs_matter::dm::clusters::basic_info::BasicInfoConfig;
use rs_matter::error::Error;
use rs_matter::pairing::qr::{CommFlowType, QrPayload};
use rs_matter::pairing::DiscoveryCapabilities;
use rs_matter::transport::network::btp::{AdvData, RecoveryAdvData};
use rs_matter::utils::codec::base38;
use rs_matter::BasicCommData;

use crate::report::Report;
use crate::sim::rng::Rng;

use super::c17::{
    edge, edge_class, guard, hex, Cx, Decoder, Format, ASSERT_BASE38_GROUP_RANGE_REFUSED, ASSERT_MALFORMED_QR_REFUSED,
    ASSERT_PASSCODE_RANGE_REFUSED,
};

pub fn skipped_notes() -> Vec<String> {
    vec![
        "manual code long form (21 digits): no public encoder (compute_pairing_code emits the 11-digit form only); encoded by the harness's reference encoder".into(),
        "QR payload: version / reserved discovery-capability bits cannot be set through the public encoder; raw bit strings come from the harness's reference encoder".into(),
    ]
}

// ---------------------------------------------------------------------------------------
// Reference encoders written from the Matter specification
// ---------------------------------------------------------------------------------------

const B38: &[u8; 38] = b"0123456789ABCDEFGHIJKLMNOPQRSTUVWXYZ-.";

fn ref_b38_group(mut v: u32, chars: usize, out: &mut String) {
    for _ in 0..chars {
        out.push(B38[(v % 38) as usize] as char);
        v /= 38;
    }
}

pub fn ref_b38_encode(bytes: &[u8]) -> String {
    let mut s = String::new();
    for c in bytes.chunks(3) {
        match c.len() {
            3 => ref_b38_group(c[0] as u32 | (c[1] as u32) << 8 | (c[2] as u32) << 16, 5, &mut s),
            2 => ref_b38_group(c[0] as u32 | (c[1] as u32) << 8, 4, &mut s),
            _ => ref_b38_group(c[0] as u32, 2, &mut s),
        }
    }
    s
}

#[derive(Clone, Debug, PartialEq)]
struct QrFields {
    version: u8,
    vid: u16,
    pid: u16,
    flow: u8,
    caps: u8,
    disc: u16,
    passcode: u32,
    padding: u8,
    tlv: Vec<u8>,
}

struct BitW {
    bytes: Vec<u8>,
    n: usize,
}
impl BitW {
    fn put(&mut self, v: u64, bits: usize) {
        for i in 0..bits {
            if self.n % 8 == 0 {
                self.bytes.push(0);
            }
            if (v >> i) & 1 == 1 {
                let l = self.bytes.len() - 1;
                self.bytes[l] |= 1 << (self.n % 8);
            }
            self.n += 1;
        }
    }
}

fn ref_qr_bytes(f: &QrFields) -> Vec<u8> {
    let mut w = BitW { bytes: vec![], n: 0 };
    w.put(f.version as u64, 3);
    w.put(f.vid as u64, 16);
    w.put(f.pid as u64, 16);
    w.put(f.flow as u64, 2);
    w.put(f.caps as u64, 8);
    w.put(f.disc as u64, 12);
    w.put(f.passcode as u64, 27);
    w.put(f.padding as u64, 4);
    let mut b = w.bytes;
    b.extend(&f.tlv);
    b
}

fn ref_qr(f: &QrFields) -> String {
    format!("MT:{}", ref_b38_encode(&ref_qr_bytes(f)))
}

const VH_D: [[u8; 10]; 10] = [
    [0, 1, 2, 3, 4, 5, 6, 7, 8, 9],
    [1, 2, 3, 4, 0, 6, 7, 8, 9, 5],
    [2, 3, 4, 0, 1, 7, 8, 9, 5, 6],
    [3, 4, 0, 1, 2, 8, 9, 5, 6, 7],
    [4, 0, 1, 2, 3, 9, 5, 6, 7, 8],
    [5, 9, 8, 7, 6, 0, 4, 3, 2, 1],
    [6, 5, 9, 8, 7, 1, 0, 4, 3, 2],
    [7, 6, 5, 9, 8, 2, 1, 0, 4, 3],
    [8, 7, 6, 5, 9, 3, 2, 1, 0, 4],
    [9, 8, 7, 6, 5, 4, 3, 2, 1, 0],
];
const VH_P: [[u8; 10]; 8] = [
    [0, 1, 2, 3, 4, 5, 6, 7, 8, 9],
    [1, 5, 7, 6, 2, 8, 3, 0, 9, 4],
    [5, 8, 0, 3, 7, 9, 6, 1, 4, 2],
    [8, 9, 1, 6, 0, 4, 3, 5, 2, 7],
    [9, 4, 5, 3, 1, 2, 6, 8, 7, 0],
    [4, 2, 8, 6, 5, 7, 3, 9, 0, 1],
    [2, 7, 9, 3, 8, 0, 6, 4, 1, 5],
    [7, 0, 4, 6, 9, 1, 3, 2, 5, 8],
];
const VH_INV: [u8; 10] = [0, 4, 3, 2, 1, 5, 6, 7, 8, 9];

/// Verhoeff check digit for a string of decimal digits (without the check digit).
pub fn verhoeff_digit(digits: &[u8]) -> u8 {
    let mut c = 0u8;
    for (i, d) in digits.iter().rev().enumerate() {
        c = VH_D[c as usize][VH_P[(i + 1) % 8][(*d - b'0') as usize] as usize];
    }
    VH_INV[c as usize]
}

pub fn verhoeff_valid(digits: &[u8]) -> bool {
    let mut c = 0u8;
    for (i, d) in digits.iter().rev().enumerate() {
        c = VH_D[c as usize][VH_P[i % 8][(*d - b'0') as usize] as usize];
    }
    c == 0
}

/// Manual pairing code from raw digit groups (so that out-of-range groups can be built).
fn ref_manual_raw(d1: u32, chunk2: u32, chunk3: u32, vid_pid: Option<(u32, u32)>) -> String {
    let mut s = format!("{}{:05}{:04}", d1, chunk2, chunk3);
    if let Some((v, p)) = vid_pid {
        s.push_str(&format!("{:05}{:05}", v, p));
    }
    let c = verhoeff_digit(s.as_bytes());
    s.push((b'0' + c) as char);
    s
}

fn ref_manual(disc12: u16, passcode: u32, vid_pid: Option<(u16, u16)>) -> String {
    let d1 = ((vid_pid.is_some() as u32) << 2) | (disc12 as u32 >> 10);
    let chunk2 = ((disc12 as u32 & 0x300) << 6) | (passcode & 0x3FFF);
    let chunk3 = passcode >> 14;
    ref_manual_raw(d1, chunk2, chunk3, vid_pid.map(|(v, p)| (v as u32, p as u32)))
}

// ---------------------------------------------------------------------------------------
// Decoders
// ---------------------------------------------------------------------------------------

fn text(input: &[u8]) -> String {
    String::from_utf8_lossy(input).into_owned()
}

fn dec_qr(input: &[u8]) -> bool {
    let s = text(input);
    let mut buf = vec![0u8; s.len() + 16];
    match QrPayload::parse(&s, &mut buf) {
        Ok(p) => {
            let _ = (p.version(), p.vid(), p.pid(), p.comm_flow(), p.discovery_capabilities(), p.discriminator(), p.passcode());
            let _ = (p.serial_no().len(), p.optional_data().len());
            let _ = p.commissionable_filter();
            true
        }
        Err(_) => false,
    }
}

/// The same with a scratch buffer that is too small for long inputs.
fn dec_qr_small(input: &[u8]) -> bool {
    let s = text(input);
    let mut buf = [0u8; 12];
    QrPayload::parse(&s, &mut buf).map(|p| p.optional_data().len()).is_ok()
}

fn dec_manual(input: &[u8]) -> bool {
    let s = text(input);
    match QrPayload::parse_pairing_code(&s) {
        Ok(p) => {
            let _ = (p.short_discriminator(), p.passcode(), p.vid_pid(), p.comm_flow());
            let _ = p.commissionable_filter();
            true
        }
        Err(_) => false,
    }
}

fn dec_b38(input: &[u8]) -> bool {
    let s = text(input);
    let mut n = 0usize;
    let mut ok = true;
    // the iterator can never legitimately yield more items than there are characters
    for item in base38::decode(&s).take(s.len() + 8) {
        n += 1;
        if item.is_err() {
            ok = false;
        }
    }
    if n > s.len() {
        panic!("harness: base38::decode yielded {} items for {} characters (iteration bound)", n, s.len());
    }
    ok & base38::decode_vec::<256>(&s).is_ok()
}

/// A destination that is too small for most inputs (the only way to observe `Err`).
fn dec_b38_small(input: &[u8]) -> bool {
    base38::decode_vec::<6>(&text(input)).is_ok()
}

fn dec_adv(input: &[u8]) -> bool {
    AdvData::parse_adv(input)
        .map(|a| (a.vid(), a.pid(), a.discriminator(), a.additional_data(), a.iter().count()))
        .is_some()
}
fn dec_adv_sd(input: &[u8]) -> bool {
    AdvData::parse_service_data(input).map(|a| a.iter().count()).is_some()
}
fn dec_rec(input: &[u8]) -> bool {
    RecoveryAdvData::parse_adv(input)
        .map(|a| (a.recovery_id(), a.additional_data(), a.iter().count()))
        .is_some()
}
fn dec_rec_sd(input: &[u8]) -> bool {
    RecoveryAdvData::parse_service_data(input).map(|a| a.iter().count()).is_some()
}

pub fn decoders() -> Vec<Decoder> {
    vec![
        Decoder { name: "qr.parse", fmt: "qr", max_len: 400, text: true, f: dec_qr },
        Decoder { name: "qr.parse.small_buf", fmt: "qr", max_len: 400, text: true, f: dec_qr_small },
        Decoder { name: "manual.parse", fmt: "manual_code", max_len: 64, text: true, f: dec_manual },
        Decoder { name: "base38.decode", fmt: "base38", max_len: 200, text: true, f: dec_b38 },
        Decoder { name: "base38.decode_vec.small", fmt: "base38", max_len: 64, text: true, f: dec_b38_small },
        Decoder { name: "ble.adv.parse_adv", fmt: "ble_adv", max_len: 255, text: false, f: dec_adv },
        Decoder { name: "ble.adv.parse_service_data", fmt: "ble_adv", max_len: 64, text: false, f: dec_adv_sd },
        Decoder { name: "ble.recovery.parse_adv", fmt: "ble_adv", max_len: 255, text: false, f: dec_rec },
        Decoder { name: "ble.recovery.parse_service_data", fmt: "ble_adv", max_len: 64, text: false, f: dec_rec_sd },
    ]
}

pub fn formats() -> Vec<Format> {
    vec![
        Format { name: "qr", id: 20, quick: 200_000, thorough: 10_000_000, has_encoder: true, case: case_qr },
        Format { name: "manual_code", id: 21, quick: 200_000, thorough: 10_000_000, has_encoder: true, case: case_manual },
        Format { name: "base38", id: 22, quick: 200_000, thorough: 10_000_000, has_encoder: true, case: case_b38 },
        Format { name: "ble_adv", id: 23, quick: 200_000, thorough: 10_000_000, has_encoder: true, case: case_ble },
    ]
}

// ---------------------------------------------------------------------------------------
// Negative oracle
// ---------------------------------------------------------------------------------------

/// `expect_refused`: the decoder accepted an input the statement requires to be refused.
fn accepted(rep: &mut Report, fmt: &str, decoder: &str, class: &str, input: &str, why: &str) {
    rep.count(&format!("{}:wrongly_accepted", fmt));
    let sig = format!("C17/{}/accepted/{}", fmt, class);
    rep.violation(
        "refuse-bad-codes",
        &sig,
        format!("decoder `{}` accepted {:?}: {}; the statement requires such codes to be refused", decoder, input, why),
        json!({"check": "C17", "decoder": decoder, "input": hex(input.as_bytes()), "origin": format!("negative:{}", class)}),
    );
}

/// Feed a code that must be refused. `strict=false` turns the expectation into a note.
fn must_refuse(cx: &mut Cx, decoder: &str, class: &str, input: &str, why: &str, strict: bool) {
    let fmt = cx.fmt;
    cx.rep.count(&format!("{}:negative_cases", fmt));
    match cx.fuzz(decoder, input.as_bytes(), &format!("negative:{}", class)) {
        Some(true) => {
            if strict {
                accepted(cx.rep, fmt, decoder, class, input, why);
            } else {
                cx.rep.note(&format!("{}: {} accepted (left open by the statement, not judged)", fmt, class));
            }
        }
        Some(false) => {
            cx.rep.count(&format!("{}:refused/{}", fmt, class));
        }
        None => {}
    }
}

/// Replay of a negative witness: the expectation is a function of the text and of the
/// class recorded in the witness (`origin = "negative:<class>"`).
pub fn replay_negative(rep: &mut Report, decoder: &str, input: &[u8], origin: &str, outcome: Option<bool>) {
    let s = text(input);
    let fmt = match decoder {
        "manual.parse" => "manual_code",
        "qr.parse" => "qr",
        "base38.decode" => "base38",
        _ => return,
    };
    if outcome != Some(true) {
        return;
    }
    if let Some(class) = origin.strip_prefix("negative:") {
        let strict = if class.starts_with("passcode-out-of-range") {
            ASSERT_PASSCODE_RANGE_REFUSED
        } else if class.contains("group-overflow") {
            ASSERT_BASE38_GROUP_RANGE_REFUSED
        } else if class.contains("invalid-char") || class.contains("impossible-length") {
            ASSERT_MALFORMED_QR_REFUSED
        } else {
            !matches!(
                class,
                "passcode-spec-listed-invalid" | "version-nonzero" | "discovery-capabilities-empty-or-reserved" | "padding-nonzero" | "vendor-id-reserved" | "lower-case-text"
            )
        };
        if strict {
            accepted(rep, fmt, decoder, class, &s, "replayed witness");
        } else {
            rep.note(&format!("{}: {} accepted (left open by the statement, not judged)", fmt, class));
        }
        return;
    }
    // no class recorded: the rules that follow from the text alone
    match decoder {
        "manual.parse" => {
            let digits: Vec<u8> = s.bytes().filter(|c| *c != b'-' && *c != b' ').collect();
            if digits.iter().all(|c| c.is_ascii_digit()) && (digits.len() == 11 || digits.len() == 21) && !verhoeff_valid(&digits) {
                accepted(rep, fmt, decoder, "wrong-check-digit/replay", &s, "the Verhoeff check digit is wrong");
            }
        }
        "qr.parse" => {
            if let Some(body) = s.strip_prefix("MT:") {
                if ASSERT_MALFORMED_QR_REFUSED && body.bytes().any(|c| !B38.contains(&c)) {
                    accepted(rep, fmt, decoder, "base38-invalid-char/replay", &s, "the text contains a character outside the base-38 alphabet");
                }
            }
        }
        "base38.decode" => {
            if ASSERT_MALFORMED_QR_REFUSED && s.bytes().any(|c| !B38.contains(&c)) {
                accepted(rep, fmt, decoder, "invalid-char/replay", &s, "the text contains a character outside the base-38 alphabet");
            }
        }
        _ => {}
    }
}

// ---------------------------------------------------------------------------------------
// QR payload
// ---------------------------------------------------------------------------------------

const PASSCODES_LEGAL: [u32; 12] = [1, 2, 20202021, 99999998, 99999997, 0x3FFF, 0x4000, 0x7FFF, 12345679, 11111110, 34567890, 0x5F5E0FE];
const PASSCODES_SPEC_INVALID: [u32; 12] = [
    0, 11111111, 22222222, 33333333, 44444444, 55555555, 66666666, 77777777, 88888888, 99999999, 12345678, 87654321,
];

fn gen_serial(rng: &mut Rng) -> String {
    match rng.below(6) {
        0 | 1 | 2 => String::new(),
        3 => "1234567890".into(),
        4 => {
            let n = 1 + rng.usize(32);
            (0..n).map(|_| *rng.pick(b"ABCDEFGHIJKLMNOPQRSTUVWXYZ0123456789-_ ") as char).collect()
        }
        _ => {
            let n = 1 + rng.usize(10);
            (0..n).map(|_| *rng.pick(&['ä', 'ß', '€', 'x', '1', '𝄞', '中'])).collect()
        }
    }
}

/// Optional vendor TLV elements (already encoded, ascending context tags).
fn gen_optional(rng: &mut Rng) -> Vec<u8> {
    let mut v = Vec::new();
    match rng.below(6) {
        0 | 1 | 2 => {}
        3 => v.extend([0x25, 0x01, 0xe8, 0x03]), // PBKDF iterations (u16, tag 1)
        4 => {
            v.extend([0x24, 0x03, rng.u64() as u8]); // number of devices
            v.extend([0x25, 0x04, rng.u64() as u8, rng.u64() as u8]); // commissioning timeout
        }
        _ => {
            // vendor specific tags 0x80..
            let n = rng.usize(12);
            v.extend([0x30, 0x82, n as u8]);
            v.extend(rng.bytes(n));
            v.extend([0x26, 0x83]);
            v.extend(rng.bytes(4));
        }
    }
    v
}

fn expected_blob(serial: &str, opt: &[u8]) -> Vec<u8> {
    if serial.is_empty() && opt.is_empty() {
        return vec![];
    }
    let mut v = vec![0x15];
    if !serial.is_empty() {
        v.extend([0x2C, 0x00, serial.len() as u8]);
        v.extend(serial.as_bytes());
    }
    v.extend(opt);
    v.push(0x18);
    v
}

fn flow_of(v: u8) -> CommFlowType {
    match v {
        0 => CommFlowType::Standard,
        1 => CommFlowType::UserIntent,
        _ => CommFlowType::Custom,
    }
}

#[derive(Debug, PartialEq)]
struct QrDecoded {
    version: u8,
    vid: u16,
    pid: u16,
    flow: u8,
    caps: u8,
    disc: u16,
    passcode: u32,
    serial: String,
    blob: Vec<u8>,
}

fn qr_decode(s: &str) -> Result<QrDecoded, String> {
    let mut buf = vec![0u8; s.len() + 16];
    let p = QrPayload::parse(s, &mut buf).map_err(|e| format!("{:?}", e))?;
    Ok(QrDecoded {
        version: p.version(),
        vid: p.vid(),
        pid: p.pid(),
        flow: p.comm_flow() as u8,
        caps: p.discovery_capabilities().bits(),
        disc: p.discriminator(),
        passcode: p.passcode(),
        serial: p.serial_no().to_string(),
        blob: p.optional_data().to_vec(),
    })
}

fn qr_encode(vid: u16, pid: u16, flow: u8, caps: u8, disc: u16, passcode: u32, serial: &str, opt: &[u8]) -> Result<String, String> {
    let cd = BasicCommData { password: passcode.to_le_bytes().into(), discriminator: disc };
    let optv = opt.to_vec();
    let q = QrPayload::new(
        DiscoveryCapabilities::from_bits_truncate(caps),
        flow_of(flow),
        cd,
        vid,
        pid,
        serial,
        move || optv.clone().into_iter().map(Ok::<u8, Error>),
    );
    let mut out = vec![0u8; 1024];
    let (s, _) = q.as_str(&mut out).map_err(|e| format!("{:?}", e))?;
    // the char iterator must agree with as_str
    let s2: Result<String, Error> = q.emit_chars().collect();
    match s2 {
        Ok(s2) if s2 == s => Ok(s.to_string()),
        Ok(s2) => Err(format!("as_str {:?} differs from emit_chars {:?}", s, s2)),
        Err(e) => Err(format!("emit_chars {:?}", e)),
    }
}

fn case_qr(cx: &mut Cx, k: u64, rng: &mut Rng) {
    // ---- (a) round trip through the public encoder
    let disc = if k < 4096 { k as u16 } else { *rng.pick(&[0u16, 1, 0xff, 0x100, 0x3ff, 0x400, 0xeff, 0xf00, 0xffe, 0xfff, 3840]) };
    let disc = if k >= 4096 && rng.bool() { rng.below(4096) as u16 } else { disc };
    let passcode = match cx.m % 4 {
        0 => PASSCODES_LEGAL[(cx.m / 4 % 12) as usize],
        1 => 1 + rng.below(99_999_998) as u32,
        2 => *rng.pick(&[1u32, 99_999_998, 0x3FFF, 0x4000, 0x3FFF_FFF & 99_999_998]),
        _ => 1 + rng.below(99_999_998) as u32,
    };
    let passcode = if PASSCODES_SPEC_INVALID.contains(&passcode) { passcode + 1 } else { passcode };
    let vid = match k % 5 {
        0 => 0xFFF1,
        1 => edge(rng, 16) as u16,
        2 => *rng.pick(&[0u16, 1, 0xFFF0, 0xFFF1, 0xFFF4]),
        _ => rng.u64() as u16,
    };
    let pid = match k % 3 {
        0 => 0x8001,
        1 => edge(rng, 16) as u16,
        _ => rng.u64() as u16,
    };
    let flow = (k % 3) as u8;
    let caps = 1 + (k / 3 % 7) as u8;
    let serial = gen_serial(rng);
    let opt = gen_optional(rng);
    let want_blob = expected_blob(&serial, &opt);

    let r = guard(|| -> Result<(String, QrDecoded), String> {
        let s = qr_encode(vid, pid, flow, caps, disc, passcode, &serial, &opt)?;
        let d = qr_decode(&s).map_err(|e| format!("parse of {:?} refused: {}", s, e))?;
        Ok((s, d))
    });
    let desc = format!(
        "vid {:#x} pid {:#x} flow {} caps {:#x} disc {} passcode {} serial {:?} optional {}",
        vid,
        pid,
        flow,
        caps,
        disc,
        passcode,
        serial,
        hex(&opt)
    );
    let mut valid_text: Option<String> = None;
    match r {
        Err(p) => cx.encoder_panic(&p, desc),
        Ok(Err(e)) => cx.rt_fail("refused", format!("{}: {}", desc, e), &[]),
        Ok(Ok((s, d))) => {
            let b = s.as_bytes();
            cx.sample(format!("{} → {}", desc, s), b);
            let mut ok = cx.eq("version", &0u8, &d.version, b);
            ok &= cx.eq("vendor_id", &vid, &d.vid, b);
            ok &= cx.eq("product_id", &pid, &d.pid, b);
            ok &= cx.eq("comm_flow", &flow, &d.flow, b);
            ok &= cx.eq("discovery_capabilities", &caps, &d.caps, b);
            ok &= cx.eq("discriminator", &disc, &d.disc, b);
            ok &= cx.eq("passcode", &passcode, &d.passcode, b);
            ok &= cx.eq("serial_no", &serial, &d.serial, b);
            ok &= cx.eq("optional_data", &want_blob, &d.blob, b);
            if ok {
                cx.rt_ok();
            }
            // the reference encoder must produce the same text (observed, not judged)
            let rf = ref_qr(&QrFields { version: 0, vid, pid, flow, caps, disc, passcode, padding: 0, tlv: want_blob.clone() });
            if rf != s {
                cx.rep.note("qr: public encoder and the harness reference encoder disagree on the text (not judged)");
            } else {
                cx.rep.count("qr:matches_reference_encoding");
            }
            cx.shape(&[
                flow,
                caps,
                edge_class(disc as u64, 12),
                edge_class(passcode as u64, 27),
                edge_class(vid as u64, 16),
                edge_class(pid as u64, 16),
                (!serial.is_empty()) as u8,
                (opt.len().min(255)) as u8,
            ]);
            valid_text = Some(s);
        }
    }

    // ---- (c) mutations of the valid text
    if let Some(s) = &valid_text {
        cx.mutate("qr.parse", s.as_bytes(), rng, 3);
        cx.fuzz("qr.parse.small_buf", s.as_bytes(), "valid-text/small-scratch-buffer");
        if k < 48 {
            for l in 0..s.len() {
                cx.fuzz("qr.parse", &s.as_bytes()[..l], "truncation");
            }
        }
    }

    // ---- raw bit strings from the reference encoder: decode must give the fields back
    let raw = QrFields {
        version: 0,
        vid: rng.u64() as u16,
        pid: rng.u64() as u16,
        flow: (k % 3) as u8,
        caps: (rng.below(8)) as u8,
        disc: rng.below(4096) as u16,
        passcode: 1 + rng.below(99_999_998) as u32,
        padding: 0,
        tlv: if rng.chance(1, 3) { expected_blob(&gen_serial(rng), &gen_optional(rng)) } else { vec![] },
    };
    if !PASSCODES_SPEC_INVALID.contains(&raw.passcode) {
        let s = ref_qr(&raw);
        match guard(|| qr_decode(&s)) {
            Err(p) => {
                cx.fuzz("qr.parse", s.as_bytes(), "reference-encoded");
                let _ = p;
            }
            Ok(Err(e)) => cx.rt_fail("reference-encoded/refused", format!("{:?} → {:?}: {}", raw, s, e), s.as_bytes()),
            Ok(Ok(d)) => {
                let b = s.as_bytes();
                let mut ok = cx.eq("reference-encoded/vendor_id", &raw.vid, &d.vid, b);
                ok &= cx.eq("reference-encoded/product_id", &raw.pid, &d.pid, b);
                ok &= cx.eq("reference-encoded/comm_flow", &raw.flow, &d.flow, b);
                ok &= cx.eq("reference-encoded/discovery_capabilities", &raw.caps, &d.caps, b);
                ok &= cx.eq("reference-encoded/discriminator", &raw.disc, &d.disc, b);
                ok &= cx.eq("reference-encoded/passcode", &raw.passcode, &d.passcode, b);
                ok &= cx.eq("reference-encoded/optional_data", &raw.tlv, &d.blob, b);
                if ok {
                    cx.rt_ok();
                    cx.rep.count("qr:reference_encoded_ok");
                }
            }
        }
    }

    // ---- (b) negative oracle
    let base = QrFields { version: 0, vid: 0xFFF1, pid: 0x8001, flow: 0, caps: 4, disc, passcode: 20202021, padding: 0, tlv: vec![] };
    match cx.m % 12 {
        0 => {
            let mut f = base.clone();
            f.flow = 3;
            must_refuse(cx, "qr.parse", "comm-flow-reserved", &ref_qr(&f), "the 2-bit commissioning-flow field holds the reserved value 3", true);
        }
        1 => {
            let mut f = base.clone();
            f.passcode = *rng.pick(&[0u32, 99_999_999, 100_000_000, (1 << 27) - 1]);
            let class = if f.passcode == 0 { "passcode-out-of-range/zero" } else { "passcode-out-of-range/above-99999998" };
            must_refuse(cx, "qr.parse", class, &ref_qr(&f), &format!("the passcode field is {} (legal range 1..=99999998)", f.passcode), ASSERT_PASSCODE_RANGE_REFUSED);
        }
        2 => {
            let mut f = base.clone();
            f.passcode = 99_999_999 + rng.below((1 << 27) - 99_999_999) as u32;
            must_refuse(cx, "qr.parse", "passcode-out-of-range/above-99999998", &ref_qr(&f), &format!("the passcode field is {} (legal range 1..=99999998)", f.passcode), ASSERT_PASSCODE_RANGE_REFUSED);
        }
        3 => {
            // left open by the statement: observed only
            let mut f = base.clone();
            f.passcode = PASSCODES_SPEC_INVALID[1 + (cx.m / 12 % 11) as usize];
            if f.passcode != 99_999_999 {
                must_refuse(cx, "qr.parse", "passcode-spec-listed-invalid", &ref_qr(&f), "", false);
            }
            let mut f = base.clone();
            f.version = 1 + (cx.m / 12 % 7) as u8;
            must_refuse(cx, "qr.parse", "version-nonzero", &ref_qr(&f), "", false);
            let mut f = base.clone();
            f.caps = *rng.pick(&[0u8, 8, 0x80, 0xff]);
            must_refuse(cx, "qr.parse", "discovery-capabilities-empty-or-reserved", &ref_qr(&f), "", false);
            let mut f = base.clone();
            f.padding = 1 + rng.below(15) as u8;
            must_refuse(cx, "qr.parse", "padding-nonzero", &ref_qr(&f), "", false);
            let mut f = base.clone();
            f.vid = 0xFFF5 + rng.below(11) as u16;
            must_refuse(cx, "qr.parse", "vendor-id-reserved", &ref_qr(&f), "", false);
        }
        4 => {
            // invalid base-38 character inside the fixed part
            let s = ref_qr(&base);
            let mut b = s.into_bytes();
            let p = 3 + rng.usize(b.len() - 3);
            b[p] = *rng.pick(b"!$%*+/:;<=>?@[_`abz{~ \x7f");
            let s = String::from_utf8(b).unwrap();
            must_refuse(cx, "qr.parse", "base38-invalid-char/fixed-part", &s, "the text contains a character outside the base-38 alphabet", ASSERT_MALFORMED_QR_REFUSED);
        }
        5 => {
            // invalid character in the optional-data part (after the 19 characters of the fixed part)
            let mut f = base.clone();
            f.tlv = expected_blob("1234567890", &[0x25, 0x01, 0xe8, 0x03]);
            let s = ref_qr(&f);
            let mut b = s.into_bytes();
            // the fixed 11 bytes end inside the 4th 5-char group; groups from char 3+20 on are pure optional data
            let p = 3 + 20 + rng.usize(b.len() - 23);
            b[p] = *rng.pick(b"!$%*+/:;<=>?@[_`abz{~ ");
            let s = String::from_utf8(b).unwrap();
            must_refuse(cx, "qr.parse", "base38-invalid-char/optional-part", &s, "the text contains a character outside the base-38 alphabet", ASSERT_MALFORMED_QR_REFUSED);
        }
        6 => {
            for p in ["", "MT", "mt:", "MX:", "M:T", " MT:", "CH:"] {
                let s = ref_qr(&base);
                let s = format!("{}{}", p, &s[3..]);
                must_refuse(cx, "qr.parse", "wrong-prefix", &s, "the text does not start with MT:", true);
            }
        }
        7 => {
            // impossible base-38 lengths: one or three characters left over
            let mut f = base.clone();
            f.tlv = expected_blob("12", &[]);
            let s = ref_qr(&f);
            let body = &s[3..];
            let cut = body.len() - body.len() % 5; // whole groups
            for extra in [1usize, 3] {
                let t = format!("MT:{}{}", &body[..cut], &"00000"[..extra]);
                must_refuse(cx, "qr.parse", "base38-impossible-length", &t, &format!("{} characters are left over after the 5-character groups (only 0, 2 or 4 are possible)", extra), ASSERT_MALFORMED_QR_REFUSED);
            }
        }
        8 => {
            // too short for the fixed fields
            let s = ref_qr(&base);
            let l = 3 + rng.usize(s.len() - 3 - 1);
            must_refuse(cx, "qr.parse", "too-short", &s[..l], "the text is too short to hold the mandatory fields", true);
        }
        9 => {
            // a 5-character group whose value does not fit 3 bytes (≥ 2^24)
            let mut f = base.clone();
            f.tlv = expected_blob("1234567890", &[]);
            let s = ref_qr(&f);
            let mut b = s.into_bytes();
            let groups = (b.len() - 3) / 5;
            let g = rng.usize(groups);
            let v = (1u32 << 24) + rng.below(38u64.pow(5) - (1 << 24)) as u32;
            let mut grp = String::new();
            ref_b38_group(v, 5, &mut grp);
            b[3 + g * 5..3 + g * 5 + 5].copy_from_slice(grp.as_bytes());
            let s = String::from_utf8(b).unwrap();
            let class = if g < 4 { "base38-group-overflow/fixed-part" } else { "base38-group-overflow/optional-part" };
            must_refuse(cx, "qr.parse", class, &s, &format!("5-character group #{} has the value {} ≥ 2^24", g, v), ASSERT_BASE38_GROUP_RANGE_REFUSED);
        }
        10 => {
            // out-of-range fields fed to the public *encoder*: observed only
            let d = 4096 + rng.below(61440) as u16;
            match guard(|| qr_encode(0xFFF1, 0x8001, 0, 4, d, 20202021, "", &[])) {
                Err(p) => cx.rep.note(&format!("qr encoder panics on discriminator > 4095 ({}; input outside the legal range, not judged)", super::c17::panic_class(&p))),
                Ok(Ok(_)) => cx.rep.note("qr encoder accepts a discriminator > 4095 and emits its low 12 bits (input outside the legal range, not judged)"),
                Ok(Err(_)) => cx.rep.note("qr encoder refuses a discriminator > 4095"),
            }
        }
        _ => {
            // lower-case / separators: observed only
            let s = ref_qr(&base).to_lowercase();
            must_refuse(cx, "qr.parse", "lower-case-text", &s, "", false);
        }
    }
}

// ---------------------------------------------------------------------------------------
// Manual pairing code
// ---------------------------------------------------------------------------------------

fn manual_decode(s: &str) -> Result<(u8, u32, Option<(u16, u16)>, Option<u8>), String> {
    let p = QrPayload::parse_pairing_code(s).map_err(|e| format!("{:?}", e))?;
    Ok((p.short_discriminator(), p.passcode(), p.vid_pid(), p.comm_flow().map(|f| f as u8)))
}

fn case_manual(cx: &mut Cx, k: u64, rng: &mut Rng) {
    let disc = if k < 4096 { k as u16 } else { rng.below(4096) as u16 };
    let passcode = match k % 3 {
        0 => PASSCODES_LEGAL[(k / 3 % 12) as usize],
        _ => 1 + rng.below(99_999_998) as u32,
    };
    let passcode = if PASSCODES_SPEC_INVALID.contains(&passcode) { passcode + 1 } else { passcode };
    let long = cx.m % 2 == 1;
    let (vid, pid) = (edge(rng, 16) as u16, edge(rng, 16) as u16);

    let code: String;
    if !long {
        // public encoder
        let cd = BasicCommData { password: passcode.to_le_bytes().into(), discriminator: disc };
        let r = guard(|| -> Result<(String, String, (u8, u32, Option<(u16, u16)>, Option<u8>), (u8, u32, Option<(u16, u16)>, Option<u8>)), String> {
            let c = cd.compute_pairing_code().to_string();
            let pretty = cd.compute_pretty_pairing_code().to_string();
            let d = manual_decode(&c).map_err(|e| format!("{:?} refused: {}", c, e))?;
            let dp = manual_decode(&pretty).map_err(|e| format!("pretty {:?} refused: {}", pretty, e))?;
            Ok((c, pretty, d, dp))
        });
        match r {
            Err(p) => {
                cx.encoder_panic(&p, format!("disc {} passcode {}", disc, passcode));
                return;
            }
            Ok(Err(e)) => {
                cx.rt_fail("short/refused", format!("disc {} passcode {}: {}", disc, passcode, e), &[]);
                return;
            }
            Ok(Ok((c, pretty, d, dp))) => {
                let b = c.as_bytes();
                let mut ok = cx.eq("short/short_discriminator", &((disc >> 8) as u8), &d.0, b);
                ok &= cx.eq("short/passcode", &passcode, &d.1, b);
                ok &= cx.eq("short/vid_pid", &None, &d.2, b);
                ok &= cx.eq("short/comm_flow", &Some(0u8), &d.3, b);
                ok &= cx.eq("short/pretty-form", &d, &dp, pretty.as_bytes());
                if ok {
                    cx.rt_ok();
                }
                if ref_manual(disc, passcode, None) == c {
                    cx.rep.count("manual_code:matches_reference_encoding");
                } else {
                    cx.rep.note("manual code: public encoder and the harness reference encoder disagree (not judged)");
                }
                code = c;
            }
        }
    } else {
        let c = ref_manual(disc, passcode, Some((vid, pid)));
        match guard(|| manual_decode(&c)) {
            Err(_) => {
                cx.fuzz("manual.parse", c.as_bytes(), "reference-encoded-long");
                return;
            }
            Ok(Err(e)) => {
                cx.rt_fail("long/refused", format!("disc {} passcode {} vid {} pid {} → {:?}: {}", disc, passcode, vid, pid, c, e), c.as_bytes());
                return;
            }
            Ok(Ok(d)) => {
                let b = c.as_bytes();
                let mut ok = cx.eq("long/short_discriminator", &((disc >> 8) as u8), &d.0, b);
                ok &= cx.eq("long/passcode", &passcode, &d.1, b);
                ok &= cx.eq("long/vid_pid", &Some((vid, pid)), &d.2, b);
                ok &= cx.eq("long/comm_flow", &None, &d.3, b);
                if ok {
                    cx.rt_ok();
                }
                code = c;
            }
        }
    }
    cx.sample(format!("disc {} passcode {} vid/pid {:?} → {}", disc, passcode, long.then_some((vid, pid)), code), code.as_bytes());
    cx.shape(&[long as u8, (disc >> 8) as u8, edge_class(passcode as u64, 27), edge_class(vid as u64, 16), edge_class(pid as u64, 16)]);

    // ---- (b) every single-digit substitution and adjacent transposition must be refused
    let digits = code.as_bytes().to_vec();
    for i in 0..digits.len() {
        for d in b'0'..=b'9' {
            if d == digits[i] {
                continue; // not a mutation
            }
            let mut m = digits.clone();
            m[i] = d;
            let s = String::from_utf8(m).unwrap();
            let class = if long { "wrong-check-digit/substitution/long" } else { "wrong-check-digit/substitution/short" };
            must_refuse(cx, "manual.parse", class, &s, &format!("digit {} of the valid code {} was replaced", i, code), true);
        }
    }
    for i in 0..digits.len() - 1 {
        if digits[i] == digits[i + 1] {
            continue;
        }
        let mut m = digits.clone();
        m.swap(i, i + 1);
        let s = String::from_utf8(m).unwrap();
        let class = if long { "wrong-check-digit/transposition/long" } else { "wrong-check-digit/transposition/short" };
        must_refuse(cx, "manual.parse", class, &s, &format!("digits {} and {} of the valid code {} were swapped", i, i + 1, code), true);
    }

    // ---- out-of-range digit groups with a correct check digit
    let vp = long.then_some((vid as u32, pid as u32));
    let d1 = ((long as u32) << 2) | (disc as u32 >> 10);
    let chunk2 = ((disc as u32 & 0x300) << 6) | (passcode & 0x3FFF);
    let chunk3 = passcode >> 14;
    match cx.m % 8 {
        0 => {
            let s = ref_manual_raw(8 + rng.below(2) as u32, chunk2, chunk3, vp);
            must_refuse(cx, "manual.parse", "out-of-range/first-digit-8-or-9", &s, "the first digit is 8 or 9 (reserved version values)", true);
        }
        1 => {
            let s = ref_manual_raw(d1, 65536 + rng.below(99999 - 65535) as u32, chunk3, vp);
            must_refuse(cx, "manual.parse", "out-of-range/digits-2-6", &s, "digits 2..6 encode a value above 65535", true);
        }
        2 => {
            let s = ref_manual_raw(d1, chunk2, 8192 + rng.below(9999 - 8191) as u32, vp);
            must_refuse(cx, "manual.parse", "out-of-range/digits-7-10", &s, "digits 7..10 encode a value above 8191 (13 bits)", true);
        }
        3 => {
            let s = ref_manual_raw(d1 | 4, chunk2, chunk3, Some((65536 + rng.below(99999 - 65535) as u32, pid as u32)));
            must_refuse(cx, "manual.parse", "out-of-range/vendor-id", &s, "the vendor id digits encode a value above 65535", true);
        }
        4 => {
            let s = ref_manual_raw(d1 | 4, chunk2, chunk3, Some((vid as u32, 65536 + rng.below(99999 - 65535) as u32)));
            must_refuse(cx, "manual.parse", "out-of-range/product-id", &s, "the product id digits encode a value above 65535", true);
        }
        5 => {
            // vid/pid-present flag inconsistent with the length
            let s = ref_manual_raw(d1 ^ 4, chunk2, chunk3, vp);
            must_refuse(cx, "manual.parse", "flag-length-mismatch", &s, "the VID/PID-present flag contradicts the code length", true);
        }
        6 => {
            // passcode 0 / above 99999998 with a correct check digit
            let big = 100_000_000 + rng.below(30_000_000) as u32;
            let pc = *rng.pick(&[0u32, 99_999_999, (1 << 27) - 1, big]);
            let s = ref_manual_raw(d1, ((disc as u32 & 0x300) << 6) | (pc & 0x3FFF), pc >> 14, vp);
            let class = if pc == 0 { "passcode-out-of-range/zero" } else { "passcode-out-of-range/above-99999998" };
            must_refuse(cx, "manual.parse", class, &s, &format!("the passcode digits encode {} (legal range 1..=99999998)", pc), ASSERT_PASSCODE_RANGE_REFUSED);
        }
        _ => {
            // wrong lengths with a correct check digit, and spec-listed invalid passcodes (observed)
            for n in [9usize, 10, 12, 19, 20, 22] {
                let body: String = (0..n - 1).map(|_| (b'0' + rng.below(8) as u8) as char).collect();
                let c = verhoeff_digit(body.as_bytes());
                let s = format!("{}{}", body, (b'0' + c) as char);
                must_refuse(cx, "manual.parse", "wrong-length", &s, &format!("the code has {} digits (only 11 or 21 exist)", n), true);
            }
            let pc = PASSCODES_SPEC_INVALID[1 + rng.usize(11)];
            if pc <= 99_999_998 {
                let s = ref_manual(disc, pc, vp.map(|(v, p)| (v as u16, p as u16)));
                must_refuse(cx, "manual.parse", "passcode-spec-listed-invalid", &s, "", false);
            }
        }
    }

    // ---- (c)
    cx.mutate("manual.parse", code.as_bytes(), rng, 2);
    if k < 32 {
        for l in 0..code.len() {
            cx.fuzz("manual.parse", &code.as_bytes()[..l], "truncation");
        }
        let sep: String = code.chars().flat_map(|c| [c, if rng.bool() { '-' } else { ' ' }]).collect();
        cx.fuzz("manual.parse", sep.as_bytes(), "separators");
    }
}

// ---------------------------------------------------------------------------------------
// base-38
// ---------------------------------------------------------------------------------------

fn case_b38(cx: &mut Cx, k: u64, rng: &mut Rng) {
    let n = (k % 65) as usize;
    let data: Vec<u8> = match (k / 65) % 5 {
        0 => vec![0u8; n],
        1 => vec![0xffu8; n],
        2 => (0..n).map(|i| i as u8).collect(),
        _ => rng.bytes(n),
    };
    let d2 = data.clone();
    let r = guard(move || -> Result<(String, Vec<u8>, Vec<u8>), String> {
        let s: String = base38::encode(&d2).collect();
        let s2 = base38::encode_string::<128>(&d2).map_err(|e| format!("encode_string {:?}", e))?;
        if s2.as_str() != s {
            return Err(format!("encode {:?} differs from encode_string {:?}", s, s2));
        }
        let mut out = Vec::new();
        for b in base38::decode(&s).take(s.len() + 8) {
            out.push(b.map_err(|e| format!("decode of {:?}: {:?}", s, e))?);
        }
        let v = base38::decode_vec::<80>(&s).map_err(|e| format!("decode_vec {:?}", e))?;
        Ok((s, out, v.to_vec()))
    });
    match r {
        Err(p) => cx.encoder_panic(&p, format!("{} bytes {}", n, hex(&data))),
        Ok(Err(e)) => cx.rt_fail("refused", format!("bytes {}: {}", hex(&data), e), &data),
        Ok(Ok((s, out, v))) => {
            cx.sample(format!("{} → {}", hex(&data), s), s.as_bytes());
            let mut ok = cx.eq("bytes", &data, &out, s.as_bytes());
            ok &= cx.eq("bytes(decode_vec)", &data, &v, s.as_bytes());
            let exp_len = n / 3 * 5 + [0, 2, 4][n % 3];
            ok &= cx.eq("text-length", &exp_len, &s.len(), s.as_bytes());
            if ok {
                cx.rt_ok();
            }
            if ref_b38_encode(&data) == s {
                cx.rep.count("base38:matches_reference_encoding");
            } else {
                cx.rep.note("base38: public encoder and the harness reference encoder disagree (not judged)");
            }
            cx.shape(&[n as u8, ((k / 65) % 5).min(3) as u8]);
            cx.mutate("base38.decode", s.as_bytes(), rng, 2);

            // negative: an invalid character anywhere / a group that overflows its bytes
            if !s.is_empty() {
                match k % 3 {
                    0 => {
                        let mut b = s.clone().into_bytes();
                        let p = rng.usize(b.len());
                        b[p] = *rng.pick(b"!$%*+/:;<=>?@[_`abz{~ ");
                        let t = String::from_utf8(b).unwrap();
                        must_refuse(cx, "base38.decode", "invalid-char", &t, "the text contains a character outside the base-38 alphabet", ASSERT_MALFORMED_QR_REFUSED);
                    }
                    1 if s.len() >= 5 => {
                        let mut b = s.clone().into_bytes();
                        let g = rng.usize(b.len() / 5);
                        let v = (1u32 << 24) + rng.below(38u64.pow(5) - (1 << 24)) as u32;
                        let mut grp = String::new();
                        ref_b38_group(v, 5, &mut grp);
                        b[g * 5..g * 5 + 5].copy_from_slice(grp.as_bytes());
                        let t = String::from_utf8(b).unwrap();
                        must_refuse(cx, "base38.decode", "group-overflow", &t, &format!("a 5-character group has the value {} ≥ 2^24", v), ASSERT_BASE38_GROUP_RANGE_REFUSED);
                    }
                    _ => {
                        let whole = s.len() - s.len() % 5;
                        for extra in [1usize, 3] {
                            let t = format!("{}{}", &s[..whole], &"ABCDE"[..extra]);
                            must_refuse(cx, "base38.decode", "impossible-length", &t, &format!("{} characters are left over after the 5-character groups", extra), ASSERT_MALFORMED_QR_REFUSED);
                        }
                    }
                }
            }
        }
    }
}

// ---------------------------------------------------------------------------------------
// BLE advertisement payloads
// ---------------------------------------------------------------------------------------

fn wrap_ads(rng: &mut Rng, matter: &[u8]) -> Vec<u8> {
    // unrelated AD structures before / after the two records of the device
    let mut v = Vec::new();
    let before = rng.usize(3);
    for _ in 0..before {
        let n = 1 + rng.usize(6);
        v.push(n as u8);
        v.push(*rng.pick(&[0x09u8, 0xff, 0x02, 0x16, 0x0a]));
        v.extend(rng.bytes(n - 1));
        // an unrelated 0x16 record must not carry the Matter UUID
        let l = v.len();
        if n >= 3 && v[l - n] == 0x16 && v[l - n + 1] == 0xf6 && v[l - n + 2] == 0xff {
            v[l - n + 1] = 0xf5;
        }
    }
    v.extend(matter);
    if rng.bool() {
        let n = 1 + rng.usize(5);
        v.push(n as u8);
        v.push(0x09);
        v.extend(rng.bytes(n - 1));
    }
    if rng.chance(1, 4) {
        v.push(0); // end of significant data
        v.extend(rng.bytes(3));
    }
    v
}

fn case_ble(cx: &mut Cx, k: u64, rng: &mut Rng) {
    if k % 3 != 2 {
        let disc = if k / 3 < 4096 { (k / 3) as u16 } else { rng.below(4096) as u16 };
        let vid = edge(rng, 16) as u16;
        let pid = edge(rng, 16) as u16;
        let cfg = BasicInfoConfig { vid, pid, ..BasicInfoConfig::new() };
        let r = guard(|| {
            let a = AdvData::new(&cfg, disc);
            let full: Vec<u8> = a.iter().collect();
            let split: Vec<u8> = a.flags_iter().chain(a.service_iter()).collect();
            let sd: Vec<u8> = a.service_payload_iter().collect();
            (a, full, split, sd)
        });
        let (a, full, split, sd) = match r {
            Ok(v) => v,
            Err(p) => {
                cx.encoder_panic(&p, format!("AdvData vid {} pid {} disc {}", vid, pid, disc));
                return;
            }
        };
        let wrapped = wrap_ads(rng, &full);
        let r = guard(|| (AdvData::parse_adv(&full), AdvData::parse_adv(&wrapped), AdvData::parse_service_data(&sd), RecoveryAdvData::parse_adv(&full)));
        match r {
            Err(_) => {
                cx.fuzz("ble.adv.parse_adv", &wrapped, "valid-wrapped");
            }
            Ok((p1, p2, p3, rec)) => {
                cx.sample(format!("AdvData vid {:#x} pid {:#x} disc {}", vid, pid, disc), &full);
                let mut ok = cx.eq("adv/record-split", &full, &split, &full);
                for (name, p, bytes) in [("adv/parse_adv", p1, &full), ("adv/parse_adv(wrapped)", p2, &wrapped), ("adv/parse_service_data", p3, &sd)] {
                    match p {
                        None => {
                            cx.rt_fail(&format!("{}/refused", name), format!("vid {} pid {} disc {}", vid, pid, disc), bytes);
                            ok = false;
                        }
                        Some(d) => {
                            ok &= cx.eq(&format!("{}/vendor_id", name), &vid, &d.vid(), bytes);
                            ok &= cx.eq(&format!("{}/product_id", name), &pid, &d.pid(), bytes);
                            ok &= cx.eq(&format!("{}/discriminator", name), &disc, &d.discriminator(), bytes);
                            ok &= cx.eq(&format!("{}/additional_data", name), &false, &d.additional_data(), bytes);
                            ok &= cx.eq(&format!("{}/whole", name), &a, &d, bytes);
                        }
                    }
                }
                if rec.is_some() {
                    cx.mismatch("adv/decoded-as-recovery", "a commissionable advertisement parsed as a network-recovery one".into(), &full);
                    ok = false;
                }
                if ok {
                    cx.rt_ok();
                }
                cx.shape(&[0, edge_class(disc as u64, 12), edge_class(vid as u64, 16), edge_class(pid as u64, 16)]);
                // a peer's payload with the additional-data flag: decode → encode → decode
                let mut sd2 = sd.clone();
                sd2[7] = 1 | ((rng.u64() as u8) & 0xfe);
                if let Ok(Some(d)) = guard(|| AdvData::parse_service_data(&sd2)) {
                    let re: Vec<u8> = d.iter().collect();
                    match guard(|| AdvData::parse_adv(&re)) {
                        Ok(Some(d2)) => {
                            if cx.eq("adv/additional-data-fixed-point", &d, &d2, &re) && cx.eq("adv/additional_data", &true, &d2.additional_data(), &re) {
                                cx.rt_ok();
                            }
                        }
                        Ok(None) => cx.rt_fail("adv/additional-data-fixed-point/refused", format!("{:?}", d), &re),
                        Err(_) => {
                            cx.fuzz("ble.adv.parse_adv", &re, "re-encoded");
                        }
                    }
                }
                cx.mutate("ble.adv.parse_adv", &wrapped, rng, 3);
                cx.mutate("ble.adv.parse_service_data", &sd, rng, 1);
                if k < 60 {
                    for l in 0..full.len() {
                        cx.fuzz("ble.adv.parse_adv", &full[..l], "truncation");
                    }
                    for l in 0..sd.len() {
                        cx.fuzz("ble.adv.parse_service_data", &sd[..l], "truncation");
                    }
                }
                // hostile AD framing: length bytes 0 / too long / 0xff at every record start
                let mut h = wrapped.clone();
                if !h.is_empty() {
                    let p = rng.usize(h.len());
                    h[p] = *rng.pick(&[0u8, 1, 2, 0xff, 0x80, (h.len() - p) as u8, (h.len() - p).saturating_sub(1) as u8]);
                    cx.fuzz("ble.adv.parse_adv", &h, "length-byte-substitution");
                }
            }
        }
    } else {
        let mut id = [0u8; 8];
        match (k / 3) % 4 {
            0 => id = [0; 8],
            1 => id = [0xff; 8],
            _ => id.copy_from_slice(&rng.bytes(8)),
        }
        let r = guard(|| {
            let a = RecoveryAdvData::new(id);
            let full: Vec<u8> = a.iter().collect();
            let sd: Vec<u8> = a.service_payload_iter().collect();
            (a, full, sd)
        });
        let (a, full, sd) = match r {
            Ok(v) => v,
            Err(p) => {
                cx.encoder_panic(&p, format!("RecoveryAdvData {:02x?}", id));
                return;
            }
        };
        let wrapped = wrap_ads(rng, &full);
        match guard(|| (RecoveryAdvData::parse_adv(&wrapped), RecoveryAdvData::parse_service_data(&sd), AdvData::parse_adv(&full))) {
            Err(_) => {
                cx.fuzz("ble.recovery.parse_adv", &wrapped, "valid-wrapped");
            }
            Ok((p1, p2, comm)) => {
                let mut ok = true;
                for (name, p, bytes) in [("recovery/parse_adv", p1, &wrapped), ("recovery/parse_service_data", p2, &sd)] {
                    match p {
                        None => {
                            cx.rt_fail(&format!("{}/refused", name), format!("{:02x?}", id), bytes);
                            ok = false;
                        }
                        Some(d) => {
                            ok &= cx.eq(&format!("{}/recovery_id", name), &id, &d.recovery_id(), bytes);
                            ok &= cx.eq(&format!("{}/additional_data", name), &false, &d.additional_data(), bytes);
                            ok &= cx.eq(&format!("{}/whole", name), &a, &d, bytes);
                            ok &= cx.eq(&format!("{}/matches", name), &true, &d.matches(&id), bytes);
                        }
                    }
                }
                if comm.is_some() {
                    cx.mismatch("recovery/decoded-as-commissionable", "a network-recovery advertisement parsed as a commissionable one".into(), &full);
                    ok = false;
                }
                if ok {
                    cx.rt_ok();
                }
                cx.shape(&[1, ((k / 3) % 4).min(2) as u8]);
                cx.mutate("ble.recovery.parse_adv", &wrapped, rng, 3);
                cx.mutate("ble.recovery.parse_service_data", &sd, rng, 1);
                if k < 60 {
                    for l in 0..sd.len() {
                        cx.fuzz("ble.recovery.parse_service_data", &sd[..l], "truncation");
                    }
                }
            }
        }
    }
}
