//! C16 helper: panic capture, the table of public `TLVElement` / `TLVSequence` / `TLVContainer`
//! accessors, and the per-input probe (every accessor under `catch_unwind`, pointer-range and
//! termination checks).

use core::fmt::Write as _;
use std::cell::{Cell, RefCell};
use std::panic::{catch_unwind, AssertUnwindSafe};

use rs_matter::error::Error;
use rs_matter::tlv::{
    FromTLV, TLVArray, TLVContainer, TLVElement, TLVList, TLVSequence, TLVStruct, TLVTag,
    TLVValue, TLVWrite, ToTLV, TLV,
};
use rs_matter::utils::storage::WriteBuf;

/// Outcome of one accessor on one input.
pub enum Out {
    Ok,
    Err,
    /// (oracle rule, detail)
    Bad(&'static str, String),
}

pub struct Acc {
    pub name: &'static str,
    /// Accessor group used in the (class based) violation signature.
    pub group: &'static str,
    pub f: fn(&[u8]) -> Out,
}

#[derive(Clone, Debug)]
pub struct PanicInfo {
    pub msg: String,
    pub loc: String,
}

impl PanicInfo {
    /// Normalised panic class (no raw values).
    pub fn kind(&self) -> &'static str {
        let m = self.msg.as_str();
        if m.contains("with overflow") {
            if m.contains("add") {
                "arith-overflow-add"
            } else if m.contains("subtract") {
                "arith-overflow-sub"
            } else if m.contains("multiply") {
                "arith-overflow-mul"
            } else {
                "arith-overflow"
            }
        } else if m.contains("out of range") || m.contains("out of bounds") {
            "index-out-of-range"
        } else if m.contains("unwrap") || m.contains("Unwrap") || m.contains("called `") {
            "unwrap"
        } else if m.contains("unreachable") {
            "unreachable"
        } else if m.contains("slice index") || m.contains("byte index") {
            "slice-index"
        } else {
            "other"
        }
    }

    /// `read.rs`, `container.rs` ... (basename of the panic location, no line).
    pub fn file(&self) -> String {
        let f = self.loc.split(':').next().unwrap_or("");
        f.rsplit('/').next().unwrap_or("").to_string()
    }
}

thread_local! {
    static LAST_PANIC: RefCell<Option<PanicInfo>> = const { RefCell::new(None) };
    static STAGE: Cell<&'static str> = const { Cell::new("") };
    static NOTES: RefCell<Vec<&'static str>> = const { RefCell::new(Vec::new()) };
}

pub fn set_stage(s: &'static str) {
    STAGE.with(|c| c.set(s));
}

pub fn stage() -> &'static str {
    STAGE.with(|c| c.get())
}

/// Observed-but-not-judged facts raised from inside accessor functions.
pub fn note(s: &'static str) {
    NOTES.with(|n| {
        let mut n = n.borrow_mut();
        if n.len() < 64 {
            n.push(s)
        }
    });
}

pub fn drain_notes() -> Vec<&'static str> {
    NOTES.with(|n| core::mem::take(&mut *n.borrow_mut()))
}

pub fn install_hook() {
    std::panic::set_hook(Box::new(|info| {
        let msg = if let Some(s) = info.payload().downcast_ref::<&str>() {
            s.to_string()
        } else if let Some(s) = info.payload().downcast_ref::<String>() {
            s.clone()
        } else {
            "<non-string panic payload>".to_string()
        };
        let loc = info
            .location()
            .map(|l| format!("{}:{}:{}", l.file(), l.line(), l.column()))
            .unwrap_or_default();
        LAST_PANIC.with(|p| *p.borrow_mut() = Some(PanicInfo { msg, loc }));
    }));
}

pub fn guarded<R>(f: impl FnOnce() -> R) -> Result<R, PanicInfo> {
    LAST_PANIC.with(|p| *p.borrow_mut() = None);
    match catch_unwind(AssertUnwindSafe(f)) {
        Ok(r) => Ok(r),
        Err(_) => Err(LAST_PANIC.with(|p| p.borrow_mut().take()).unwrap_or(PanicInfo {
            msg: "<panic without hook info>".into(),
            loc: String::new(),
        })),
    }
}

pub fn hex(b: &[u8]) -> String {
    let mut s = String::with_capacity(b.len() * 2);
    for x in b {
        let _ = write!(s, "{:02x}", x);
    }
    s
}

pub fn unhex(s: &str) -> Vec<u8> {
    let s: Vec<u8> = s.bytes().filter(|c| c.is_ascii_hexdigit()).collect();
    s.chunks(2)
        .filter(|c| c.len() == 2)
        .map(|c| u8::from_str_radix(core::str::from_utf8(c).unwrap(), 16).unwrap())
        .collect()
}

/// `inner` lies inside `outer` (empty slices may point anywhere: rs-matter hands out `&[]`).
pub fn inside(outer: &[u8], inner: &[u8]) -> bool {
    if inner.is_empty() {
        return true;
    }
    let o0 = outer.as_ptr() as usize;
    let o1 = o0 + outer.len();
    let i0 = inner.as_ptr() as usize;
    let i1 = i0 + inner.len();
    i0 >= o0 && i1 <= o1
}

fn r<T>(x: Result<T, Error>) -> Out {
    match x {
        Ok(_) => Out::Ok,
        Err(_) => Out::Err,
    }
}

fn rs(inp: &[u8], what: &'static str, x: Result<&[u8], Error>) -> Out {
    match x {
        Ok(s) => {
            if !inside(inp, s) {
                Out::Bad(
                    "slice-outside-input",
                    format!(
                        "{what} returned a slice of {} bytes at {:p} that is not inside the {}-byte input at {:p}",
                        s.len(),
                        s.as_ptr(),
                        inp.len(),
                        inp.as_ptr()
                    ),
                )
            } else if s.len() > inp.len() {
                Out::Bad(
                    "length-beyond-input",
                    format!("{what} reported {} bytes for a {}-byte input", s.len(), inp.len()),
                )
            } else {
                Out::Ok
            }
        }
        Err(_) => Out::Err,
    }
}

/// Upper bound on the number of items any iteration over `inp` may legitimately yield:
/// every element / TLV item consumes at least one input byte (+ closing item + slack).
pub fn iter_bound(inp: &[u8]) -> usize {
    inp.len() + 4
}

/// A `fmt::Write` sink that refuses more than `cap` bytes, so that a formatting loop that
/// never ends is cut (every formatter propagates the error) and detected.
pub struct Bounded {
    pub n: usize,
    pub cap: usize,
    pub over: bool,
}

impl core::fmt::Write for Bounded {
    fn write_str(&mut self, s: &str) -> core::fmt::Result {
        self.n += s.len();
        if self.n > self.cap {
            self.over = true;
            Err(core::fmt::Error)
        } else {
            Ok(())
        }
    }
}

/// Generous bound for the text rendering of anything decoded from `inp`
/// (the indenting `Display` of nested containers is quadratic in the depth).
pub fn fmt_bound(inp: &[u8]) -> usize {
    4096 + 128 * inp.len() + 6 * inp.len() * inp.len()
}

/// Format under the bound. `Ok(true)`: formatted, `Ok(false)`: formatter reported an error,
/// `Err(out)`: output exceeded the bound (treated as non-termination).
pub fn fmt_checked(inp: &[u8], what: &'static str, args: core::fmt::Arguments<'_>) -> Result<bool, Out> {
    let mut w = Bounded { n: 0, cap: fmt_bound(inp), over: false };
    let r = w.write_fmt(args);
    if w.over {
        Err(Out::Bad(
            "non-termination",
            format!(
                "{what} produced more than {} bytes of text for a {}-byte input (formatting loop does not end)",
                w.cap,
                inp.len()
            ),
        ))
    } else {
        Ok(r.is_ok())
    }
}

/// Walk a sequence with the element iterator; every yielded element must lie inside the input.
fn walk_seq(inp: &[u8], seq: &TLVSequence<'_>) -> Out {
    let bound = iter_bound(inp);
    let mut n = 0usize;
    let mut it = seq.iter();
    loop {
        match it.next() {
            None => return Out::Ok,
            Some(Err(_)) => {
                // Not judged: whether the iterator keeps yielding `Err` after an error
                // (callers are expected to stop at the first error).
                if let Some(Err(_)) = it.next() {
                    note("element-iterator-not-fused-after-error");
                }
                return Out::Err;
            }
            Some(Ok(e)) => {
                n += 1;
                if n > bound {
                    return Out::Bad(
                        "non-termination",
                        format!(
                            "TLVSequence::iter yielded more than {bound} elements for a {}-byte input",
                            inp.len()
                        ),
                    );
                }
                if !inside(inp, e.raw_data()) {
                    return Out::Bad(
                        "slice-outside-input",
                        "TLVSequence::iter yielded an element whose raw_data() is not inside the input"
                            .into(),
                    );
                }
                if e.is_empty() {
                    return Out::Bad(
                        "empty-element-yielded",
                        "TLVSequence::iter yielded an empty element".into(),
                    );
                }
            }
        }
    }
}

fn walk_tlv_iter<'a>(
    inp: &[u8],
    what: &'static str,
    it: impl Iterator<Item = Result<TLV<'a>, Error>>,
) -> Out {
    let bound = iter_bound(inp);
    let mut n = 0usize;
    for item in it {
        n += 1;
        if n > bound {
            return Out::Bad(
                "non-termination",
                format!(
                    "{what} yielded more than {bound} TLV items for a {}-byte input",
                    inp.len()
                ),
            );
        }
        match item {
            Err(_) => return Out::Err,
            Ok(tlv) => {
                let s: &[u8] = match &tlv.value {
                    TLVValue::Utf8l(s)
                    | TLVValue::Utf16l(s)
                    | TLVValue::Utf32l(s)
                    | TLVValue::Utf64l(s) => s.as_bytes(),
                    TLVValue::Str8l(s)
                    | TLVValue::Str16l(s)
                    | TLVValue::Str32l(s)
                    | TLVValue::Str64l(s) => s,
                    _ => &[],
                };
                if !inside(inp, s) {
                    return Out::Bad(
                        "slice-outside-input",
                        format!("{what} yielded a string value that is not inside the input"),
                    );
                }
                // The byte iterator of every yielded item must terminate as well.
                let mut m = 0usize;
                for _ in tlv.bytes_iter() {
                    m += 1;
                    if m > inp.len() + 32 {
                        return Out::Bad(
                            "non-termination",
                            format!("TLV::bytes_iter of an item yielded by {what} exceeds input length + 32"),
                        );
                    }
                }
            }
        }
    }
    Out::Ok
}

fn seq_out(inp: &[u8], what: &'static str, x: Result<TLVSequence<'_>, Error>) -> Out {
    match x {
        Ok(seq) => {
            // The only way to look at the slice behind a sequence is raw_value() (value of the
            // first element) and iteration.
            if let Ok(s) = seq.raw_value() {
                if !inside(inp, s) {
                    return Out::Bad(
                        "slice-outside-input",
                        format!("{what}: TLVSequence::raw_value() is not inside the input"),
                    );
                }
            }
            Out::Ok
        }
        Err(_) => Out::Err,
    }
}

fn fmt_out(x: Result<bool, Out>) -> Out {
    match x {
        Ok(true) => Out::Ok,
        Ok(false) => Out::Err,
        Err(bad) => bad,
    }
}

fn value_slices_inside(inp: &[u8], v: &TLVValue<'_>) -> bool {
    match v {
        TLVValue::Utf8l(s) | TLVValue::Utf16l(s) | TLVValue::Utf32l(s) | TLVValue::Utf64l(s) => {
            inside(inp, s.as_bytes())
        }
        TLVValue::Str8l(s) | TLVValue::Str16l(s) | TLVValue::Str32l(s) | TLVValue::Str64l(s) => {
            inside(inp, s)
        }
        _ => true,
    }
}

fn container_iter_out<'a, T: FromTLV<'a>, C>(inp: &[u8], c: &TLVContainer<'a, T, C>) -> Out {
    let bound = iter_bound(inp);
    let mut n = 0;
    set_stage("iter");
    for item in c.iter() {
        n += 1;
        if n > bound {
            return Out::Bad(
                "non-termination",
                format!("TLVContainer::iter yielded more than {bound} items"),
            );
        }
        if item.is_err() {
            return Out::Err;
        }
    }
    Out::Ok
}

macro_rules! acc {
    ($name:literal, $group:literal, |$e:ident, $inp:ident| $body:expr) => {
        Acc {
            name: $name,
            group: $group,
            f: {
                #[allow(unused_variables)]
                fn f($inp: &[u8]) -> Out {
                    let $e = TLVElement::new($inp);
                    $body
                }
                f
            },
        }
    };
}

const CTX_KEYS: [u8; 6] = [0, 1, 2, 5, 0xFE, 0xFF];

pub static ELEM_ACCS: &[Acc] = &[
    acc!("is_empty", "elem-scalar", |e, inp| {
        let a = e.is_empty();
        let b = e.non_empty().is_none();
        if a != b || a != inp.is_empty() {
            Out::Bad("is-empty-inconsistent", "is_empty/non_empty disagree with the input".into())
        } else {
            Out::Ok
        }
    }),
    acc!("raw_data", "elem-slice", |e, inp| rs(inp, "raw_data", Ok(e.raw_data()))),
    acc!("control", "elem-scalar", |e, inp| r(e.control())),
    acc!("tag", "elem-scalar", |e, inp| r(e.tag())),
    acc!("raw_value", "elem-value", |e, inp| rs(inp, "raw_value", e.raw_value())),
    acc!("value", "elem-value", |e, inp| match e.value() {
        Ok(v) => {
            if value_slices_inside(inp, &v) {
                Out::Ok
            } else {
                Out::Bad("slice-outside-input", "value() string not inside input".into())
            }
        }
        Err(_) => Out::Err,
    }),
    acc!("tlv", "elem-value", |e, inp| match e.tlv() {
        Ok(v) => {
            if value_slices_inside(inp, &v.value) {
                Out::Ok
            } else {
                Out::Bad("slice-outside-input", "tlv() string not inside input".into())
            }
        }
        Err(_) => Out::Err,
    }),
    acc!("i8", "elem-scalar", |e, inp| r(e.i8())),
    acc!("u8", "elem-scalar", |e, inp| r(e.u8())),
    acc!("i16", "elem-scalar", |e, inp| r(e.i16())),
    acc!("u16", "elem-scalar", |e, inp| r(e.u16())),
    acc!("i32", "elem-scalar", |e, inp| r(e.i32())),
    acc!("u32", "elem-scalar", |e, inp| r(e.u32())),
    acc!("i64", "elem-scalar", |e, inp| r(e.i64())),
    acc!("u64", "elem-scalar", |e, inp| r(e.u64())),
    acc!("f32", "elem-scalar", |e, inp| r(e.f32())),
    acc!("f64", "elem-scalar", |e, inp| r(e.f64())),
    acc!("bool", "elem-scalar", |e, inp| r(e.bool())),
    acc!("null", "elem-scalar", |e, inp| r(e.null())),
    acc!("is_container", "elem-scalar", |e, inp| r(e.is_container())),
    acc!("confirm_anon", "elem-scalar", |e, inp| r(e.confirm_anon())),
    acc!("ctx", "elem-scalar", |e, inp| r(e.ctx())),
    acc!("try_ctx", "elem-scalar", |e, inp| r(e.try_ctx())),
    acc!("str", "elem-slice", |e, inp| rs(inp, "str", e.str())),
    acc!("utf8", "elem-slice", |e, inp| rs(inp, "utf8", e.utf8().map(|s| s.as_bytes()))),
    acc!("octets", "elem-slice", |e, inp| rs(inp, "octets", e.octets())),
    acc!("structure", "elem-enter", |e, inp| seq_out(inp, "structure", e.structure())),
    acc!("struct", "elem-enter", |e, inp| seq_out(inp, "struct", e.r#struct())),
    acc!("array", "elem-enter", |e, inp| seq_out(inp, "array", e.array())),
    acc!("list", "elem-enter", |e, inp| seq_out(inp, "list", e.list())),
    acc!("container", "elem-enter", |e, inp| seq_out(inp, "container", e.container())),
    acc!("read", "elem-read", |e, inp| {
        let mut any_ok = false;
        for k in CTX_KEYS {
            any_ok |= e.read::<u8>(k).is_ok();
            any_ok |= e.read::<u64>(k).is_ok();
            match e.read::<TLVElement>(k) {
                Ok(c) => {
                    any_ok = true;
                    if !inside(inp, c.raw_data()) {
                        return Out::Bad("slice-outside-input", "read::<TLVElement> not inside input".into());
                    }
                }
                Err(_) => {}
            }
            match e.read_opt::<&str>(k) {
                Ok(Some(s)) => {
                    any_ok = true;
                    if !inside(inp, s.as_bytes()) {
                        return Out::Bad("slice-outside-input", "read_opt::<&str> not inside input".into());
                    }
                }
                Ok(None) => any_ok = true,
                Err(_) => {}
            }
        }
        if any_ok {
            Out::Ok
        } else {
            Out::Err
        }
    }),
    acc!("Display", "elem-fmt", |e, inp| fmt_out(fmt_checked(inp, "Display for TLVElement", format_args!("{}", e)))),
    acc!("Debug", "elem-fmt", |e, inp| fmt_out(fmt_checked(inp, "Debug for TLVElement", format_args!("{:?}", e)))),
    acc!("to_tlv", "elem-reencode", |e, inp| {
        let mut buf = vec![0u8; inp.len() + 32];
        let mut wb = WriteBuf::new(&mut buf);
        let tag = e.tag().unwrap_or(TLVTag::Anonymous);
        r(e.to_tlv(&tag, &mut wb))
    }),
    // "re-encoding a decoded element reproduces its bytes" for whatever parses: if the element's
    // extent is known (raw_value() succeeded, i.e. the element is structurally complete) and an
    // encoder returns Ok, the output must be those bytes.
    acc!("reencode==bytes", "elem-reencode-equal", |e, inp| {
        let Ok(orig) = elem_bytes(&e) else { return Out::Err };
        // An end-of-container marker is not an element of the TLV format; what its "bytes"
        // are (rs-matter's raw_value() walks on from it as if it opened a container) is not
        // something the statement fixes: observed, not judged.
        if matches!(e.control().map(|c| c.value_type), Ok(rs_matter::tlv::TLVValueType::EndCnt)) {
            note("end-of-container-marker-probed-as-element(reencode-not-judged)");
            return Out::Err;
        }
        let mut any = false;
        set_stage("to_tlv");
        if let Ok(b) = reencode_to_tlv(&e, orig.len() + 16) {
            any = true;
            if b != orig {
                return Out::Bad(
                    "reencode-mismatch/to_tlv",
                    format!("element {} re-encoded by ToTLV::to_tlv as {}", hex(orig), hex(&b)),
                );
            }
        }
        set_stage("tlv_iter");
        if let Ok(b) = reencode_tlv_iter(&e, orig.len() + 16) {
            any = true;
            if b != orig {
                return Out::Bad(
                    "reencode-mismatch/tlv_iter",
                    format!("element {} re-encoded by ToTLV::tlv_iter + TLV::bytes_iter as {}", hex(orig), hex(&b)),
                );
            }
        }
        if any {
            Out::Ok
        } else {
            Out::Err
        }
    }),
    acc!("tlv_iter", "elem-tlv-iter", |e, inp| {
        let tag = e.tag().unwrap_or(TLVTag::Anonymous);
        walk_tlv_iter(inp, "TLVElement::tlv_iter", e.tlv_iter(tag))
    }),
    acc!("seq.iter", "seq-iter", |e, inp| match e.container() {
        Ok(seq) => walk_seq(inp, &seq),
        Err(_) => Out::Err,
    }),
    acc!("seq.tlv_iter", "seq-tlv-iter", |e, inp| match e.container() {
        Ok(seq) => walk_tlv_iter(inp, "TLVSequence::tlv_iter", seq.tlv_iter()),
        Err(_) => Out::Err,
    }),
    acc!("seq.find_ctx", "seq-find", |e, inp| match e.container() {
        Ok(seq) => {
            let mut any_ok = false;
            // keys: fixed ones + the tag byte of the first child if any
            let mut keys = CTX_KEYS.to_vec();
            if let Some(b) = inp.get(2) {
                keys.push(*b);
            }
            for k in keys {
                match seq.find_ctx(k) {
                    Ok(c) => {
                        any_ok = true;
                        if !inside(inp, c.raw_data()) {
                            return Out::Bad("slice-outside-input", "find_ctx result not inside input".into());
                        }
                        if !c.is_empty() && c.try_ctx().ok().flatten() != Some(k) {
                            return Out::Bad(
                                "find-ctx-wrong-element",
                                "find_ctx returned an element that does not carry the requested context tag".into(),
                            );
                        }
                    }
                    Err(_) => {}
                }
                match seq.ctx(k) {
                    Ok(c) => {
                        if !inside(inp, c.raw_data()) {
                            return Out::Bad("slice-outside-input", "ctx result not inside input".into());
                        }
                    }
                    Err(_) => {}
                }
            }
            if any_ok {
                Out::Ok
            } else {
                Out::Err
            }
        }
        Err(_) => Out::Err,
    }),
    acc!("seq.scan_ctx", "seq-find", |e, inp| match e.container() {
        Ok(seq) => {
            let mut any_ok = false;
            let mut s = seq.clone();
            // ascending keys, as the ordered decoder does
            for k in [0u8, 1, 2, 3, 5, 0xFE, 0xFF] {
                match s.scan_ctx(k) {
                    Ok(c) => {
                        any_ok = true;
                        if !inside(inp, c.raw_data()) {
                            return Out::Bad("slice-outside-input", "scan_ctx result not inside input".into());
                        }
                    }
                    Err(_) => break,
                }
            }
            // scan_map with a closure that honours the documented contract (answers on the
            // empty element), bounded.
            let mut s = seq.clone();
            let bound = iter_bound(inp);
            let mut n = 0usize;
            let res = s.scan_map(|el| {
                n += 1;
                if el.is_empty() || n > bound {
                    Ok(Some(n))
                } else {
                    Ok(None)
                }
            });
            if n > bound {
                return Out::Bad(
                    "non-termination",
                    format!("scan_map visited more than {bound} elements"),
                );
            }
            any_ok |= res.is_ok();
            if any_ok {
                Out::Ok
            } else {
                Out::Err
            }
        }
        Err(_) => Out::Err,
    }),
    acc!("seq.fmt", "seq-fmt", |e, inp| match e.container() {
        Ok(seq) => {
            let mut all = true;
            for r in [
                fmt_checked(inp, "Display for TLVSequence", format_args!("{}", seq)),
                fmt_checked(inp, "Debug for TLVSequence", format_args!("{:?}", seq)),
                fmt_checked(inp, "Display for TLVSequenceIter", format_args!("{}", seq.iter())),
                fmt_checked(inp, "Debug for TLVSequenceIter", format_args!("{:?}", seq.iter())),
            ] {
                match r {
                    Ok(ok) => all &= ok,
                    Err(bad) => return bad,
                }
            }
            if all {
                Out::Ok
            } else {
                Out::Err
            }
        }
        Err(_) => Out::Err,
    }),
    acc!("TLVArray::new.iter", "container-checked", |e, inp| {
        set_stage("new");
        let mut any = false;
        if let Ok(c) = TLVArray::<TLVElement>::new(e.clone()) {
            any = true;
            if let Out::Bad(a, b) = container_iter_out(inp, &c) {
                return Out::Bad(a, b);
            }
        }
        set_stage("new");
        if let Ok(c) = TLVList::<u8>::new(e.clone()) {
            any = true;
            if let Out::Bad(a, b) = container_iter_out(inp, &c) {
                return Out::Bad(a, b);
            }
        }
        set_stage("new");
        if let Ok(c) = TLVStruct::<u64>::new(e.clone()) {
            any = true;
            if let Out::Bad(a, b) = container_iter_out(inp, &c) {
                return Out::Bad(a, b);
            }
        }
        set_stage("new");
        if let Ok(c) = TLVContainer::<&str, ()>::new(e.clone()) {
            any = true;
            if let Out::Bad(a, b) = container_iter_out(inp, &c) {
                return Out::Bad(a, b);
            }
            set_stage("debug");
            if let Err(bad) = fmt_checked(inp, "Debug for TLVContainer", format_args!("{:?}", c)) {
                return bad;
            }
        }
        if any {
            Out::Ok
        } else {
            Out::Err
        }
    }),
    // The FromTLV path of TLVArray (used by every derived struct with a TLVArray field and by
    // ReadReq::attr_requests() & co.) followed by iteration of the decoded value.
    acc!("TLVArray::from_tlv.iter", "container-fromtlv", |e, inp| {
        set_stage("from_tlv");
        match TLVArray::<TLVElement>::from_tlv(&e) {
            Ok(c) => container_iter_out(inp, &c),
            Err(_) => Out::Err,
        }
    }),
    acc!("Option<TLVArray>::from_tlv.iter", "container-fromtlv", |e, inp| {
        set_stage("from_tlv");
        match Option::<TLVArray<u16>>::from_tlv(&e) {
            Ok(Some(c)) => {
                let o = container_iter_out(inp, &c);
                set_stage("debug");
                if let Err(bad) = fmt_checked(inp, "Debug for TLVContainer", format_args!("{:?}", c)) {
                    return bad;
                }
                o
            }
            Ok(None) => Out::Ok,
            Err(_) => Out::Err,
        }
    }),
];

/// Exact encoded bytes of the element at the start of `e.raw_data()`, derived only from public
/// accessors: `raw_value()` is a sub-slice of `raw_data()`; the element ends where it ends.
pub fn elem_bytes<'a>(e: &TLVElement<'a>) -> Result<&'a [u8], String> {
    let data = e.raw_data();
    let val = e.raw_value().map_err(|er| format!("raw_value: {:?}", er.code()))?;
    if !inside(data, val) {
        return Err("raw_value outside raw_data".into());
    }
    let off = if val.is_empty() {
        // position of an empty value is not observable through the pointer; derive it from
        // the header: control + tag + length field
        let c = e.control().map_err(|er| format!("control: {:?}", er.code()))?;
        1 + c.tag_type.size() + c.value_type.variable_size_len()
    } else {
        val.as_ptr() as usize - data.as_ptr() as usize
    };
    data.get(..off + val.len())
        .ok_or_else(|| "element extent beyond raw_data".to_string())
}

/// Re-encode through `ToTLV for TLVElement` (both encoders).
pub fn reencode_to_tlv(e: &TLVElement<'_>, cap: usize) -> Result<Vec<u8>, String> {
    let tag = e.tag().map_err(|er| format!("tag: {:?}", er.code()))?;
    let mut buf = vec![0u8; cap];
    let mut wb = WriteBuf::new(&mut buf);
    e.to_tlv(&tag, &mut wb)
        .map_err(|er| format!("to_tlv: {:?}", er.code()))?;
    Ok(wb.as_slice().to_vec())
}

pub fn reencode_tlv_iter(e: &TLVElement<'_>, cap: usize) -> Result<Vec<u8>, String> {
    let tag = e.tag().map_err(|er| format!("tag: {:?}", er.code()))?;
    let mut out = Vec::new();
    for b in e.tlv_iter(tag).flat_map(TLV::result_into_bytes_iter) {
        out.push(b.map_err(|er| format!("tlv_iter: {:?}", er.code()))?);
        if out.len() > cap {
            return Err("tlv_iter output exceeds capacity".into());
        }
    }
    Ok(out)
}

/// Silence "unused" for TLVWrite (trait methods used through WriteBuf).
#[allow(dead_code)]
fn _uses<W: TLVWrite>(_w: W) {}
