#![allow(dead_code)]
//! C10 scenario runner: two real `Matter` nodes A and B (each: transport + a pool of acceptor
//! slots with a harness handler + harness clients that initiate exchanges towards the other
//! node) and a keyed hostile peer H (no `Matter` instance: it owns one secure session with each
//! node, real group keys at B, and can impersonate A / B for a single CloseSession).
//!
//! Everything that touches one `Matter` lives in ONE executor task (hard rule of the harness).
//! Task 0 = node A + the scenario script (clients of A, the injector, the phases);
//! task 1 = node B + its agent (clients of B, the B->A probe).
//!
//! The runner only *records*: application events (`Ev`), the exchange table of both nodes after
//! every poll of their task (`Watch`), the wire tap, the final snapshots. `c10.rs` judges.

use core::future::Future;
use core::num::NonZeroU8;
use core::pin::Pin;
use core::task::{Context, Poll};
use std::cell::{Cell, RefCell};
use std::collections::HashMap;
use std::panic::{catch_unwind, AssertUnwindSafe};

use embassy_futures::select::{select, Either};

use rs_matter::crypto::Crypto;
use rs_matter::dm::devices::test::{TEST_DEV_ATT, TEST_DEV_COMM, TEST_DEV_DET};
use rs_matter::error::{Error, ErrorCode};
use rs_matter::transport::exchange::{Exchange, MessageMeta};
use rs_matter::transport::network::Address;
use rs_matter::transport::packet::PacketHdr;
use rs_matter::transport::session::verif::VerifSession;
use rs_matter::transport::session::{ReservedSession, SessionMode};
use rs_matter::utils::storage::WriteBuf;
use rs_matter::Matter;

use crate::sim::exec::{self, BoxFut, Limits, RunStatus};
use crate::sim::net::{NetHub, RandomPolicy};
use crate::sim::node;
use crate::sim::rng::{subseed, Rng};
use crate::sim::{clock, wire};

use super::c03_codec::{build_hdr, encode, key_of, HdrParams, Key};
use super::c03_gen::{Keyring, GROUP_IDS, S_NODE};
use super::c03_node::build_keyring_and_node;
use super::c10_twins::*;

// ---------------------------------------------------------------------------------------------
// Constants
// ---------------------------------------------------------------------------------------------

pub const PROTO_H: u16 = 0xFFF1;
pub const OP_PING: u8 = 0x01;
pub const OP_PONG: u8 = 0x02;
pub const OP_HOSTILE: u8 = 0x03;

pub const A_NODE: u64 = 0xA11CE;
pub const B_NODE: u64 = 0xB0B;
pub const H_NODE: u64 = 0x4057;

/// Session tags carried in payloads / attached to handles.
pub const S_PROBE: u8 = 2;
pub const S_HOSTILE: u8 = 3;
pub const S_GROUP: u8 = 0xE0;
pub const S_UNSEC: u8 = 0xE1;
pub const S_UNKNOWN: u8 = 0xFF;

/// Local session ids: `SIDS[node][tag]`.
pub const SIDS: [[u16; 4]; 2] = [[0x1001, 0x1002, 0x1003, 0x1004], [0x2001, 0x2002, 0x2003, 0x2004]];
/// Local session ids of the replacement probe session (installed after the faults stop when the
/// original one did not survive the disturbance phase).
pub const SIDS_ALT: [u16; 2] = [0x1005, 0x2005];
/// Session ids H uses for itself (what the nodes put into the header when they talk to H).
pub const H_SIDS: [u16; 2] = [0x3001, 0x3002];

/// Handler waits this long for the next message of its exchange, then drops the exchange.
pub const T_HANDLER_RECV_MS: u64 = 2_500;
/// Client waits this long for an answer.
pub const T_CLIENT_RECV_MS: u64 = 3_000;
/// Harness-side guard around `send` (longer than a full MRP ladder; never expected to fire).
pub const T_SEND_MS: u64 = 8_000;
/// The acceptor profiles (late / never accept) only cover this much time from the start.
pub const PROFILE_MS: u64 = 6_000;
/// An exchange nobody accepts must be given up at rs-matter's accept deadline (1000 ms, swept
/// every 50 ms); seeing one accept-pending for longer than this is a violation (3x margin).
pub const ACCEPT_DEADLINE_BOUND_MS: u64 = 3_000;
/// Bounded-progress bound of the probe: rs-matter's accept timeout (1000 ms) + its sweeps
/// (50 / 100 ms) + one full MRP ladder in each direction (5 transmissions, base 300 ms, margin
/// 1.1, back-off 1.6, jitter 0.25: < 4.3 s each) is < 10 s; doubled and rounded up.
pub const PROBE_BOUND_MS: u64 = 30_000;
pub const IDLE_WAIT_MS: u64 = 60_000;
pub const TAIL_MS: u64 = 100_000;
pub const TAIL_WINDOW_MS: u64 = 30_000;
/// Built against rs-matter's smallest table configuration (3 sessions x 3 exchanges per session).
pub const SMALL_TABLES: bool = cfg!(feature = "small-tables");

// Handler behaviours (chosen by the sender of a message, carried in the payload)
pub const M_NORMAL: u8 = 0; // reliable answer
pub const M_ACK_FIRST: u8 = 1; // explicit standalone ack, then reliable answer
pub const M_HOLD: u8 = 2; // sleep hold_ms, then reliable answer
pub const M_PONG_UNREL: u8 = 3; // unreliable answer
pub const M_DROP: u8 = 4; // drop the exchange without answering
pub const M_ACK_DROP: u8 = 5; // explicit ack, then drop
pub const M_HOLD_RX: u8 = 6; // keep the RX message (the node's single RX slot) for hold_ms, then answer
pub const M_HOLD_DROP: u8 = 7; // sleep hold_ms holding the exchange, then drop it
pub const M_NEXT: u8 = 8; // no answer: wait for the next message of the exchange (a handshake-like responder)
pub const M_HOLD_NEXT: u8 = 9; // owner busy for hold_ms (not receiving), then waits for the next message

// ---------------------------------------------------------------------------------------------
// Parameters
// ---------------------------------------------------------------------------------------------

#[derive(Clone, Debug)]
pub struct ClientSpec {
    pub node: u8,
    /// 0 / 1 = disturbed sessions, 2 = probe session (bystander), 3 = the node's session with H
    pub sess: u8,
    pub rounds: u8,
    pub start_ms: u32,
    pub think_ms: u16,
    /// 0 harness data, 1 CASESigma1, 2 PBKDFParamRequest, 3 IM ReadRequest (opcode of the first message)
    pub first_op: u8,
    pub modes: Vec<u8>,
    pub hold_ms: u16,
    pub cancel: Option<u32>,
    pub final_ack: bool,
}

#[derive(Clone, Copy, Debug, PartialEq, Eq, Hash, PartialOrd, Ord)]
pub enum IdClass {
    Fresh,
    /// live responder-role exchange of the target on its H session (H opened it earlier)
    LiveResp,
    /// live initiator-role exchange of the target on its H session (a client of the target)
    LiveInit,
    /// a closed exchange of the target on its H session
    Stale,
    /// a live exchange of the target on ANOTHER session
    OtherSess,
}

#[derive(Clone, Copy, Debug, PartialEq, Eq, Hash, PartialOrd, Ord)]
pub enum OpClass {
    Data,
    Sack,
    StatusOther,
    StatusClose,
    Sigma1,
    Pbkdf,
    Im,
    /// MsgCounterSyncReq (a "control" opcode; with the C flag on group messages)
    Mcsp,
}

#[derive(Clone, Copy, Debug, PartialEq, Eq, Hash, PartialOrd, Ord)]
pub enum AckClass {
    None,
    Bogus,
    /// the newest counter the target sent to H (from the tap)
    Last,
}

#[derive(Clone, Copy, Debug, PartialEq, Eq, Hash, PartialOrd, Ord)]
pub enum InjSess {
    /// H's own session with the target
    Hostile,
    /// group message (target B only)
    Group,
    /// unsecured message (session id 0)
    Unsecured,
    /// impersonate the peer node on disturbed session 0 / 1 (CloseSession only)
    Legit(u8),
}

#[derive(Clone, Debug)]
pub struct Inj {
    pub t_ms: u32,
    pub node: u8,
    pub sess: InjSess,
    pub idc: IdClass,
    pub i: bool,
    pub r: bool,
    pub op: OpClass,
    pub ack: AckClass,
    pub mode: u8,
    pub hold_ms: u16,
    /// group oddities: control flag, unicast destination instead of group destination
    pub g_control: bool,
    pub g_dst_unicast: bool,
    /// with / without a tagged payload (standalone acks)
    pub payload: bool,
}

#[derive(Clone, Debug)]
pub struct Params {
    pub seed: u64,
    pub s1_pase: bool,
    pub sh_pase: bool,
    pub clients: Vec<ClientSpec>,
    pub injs: Vec<Inj>,
    /// per node: (duration ms, accept delay ms) windows from the start; after them delay 0
    pub profile: [Vec<(u32, u32)>; 2],
    /// per node: cancellation plan of the k-th accepted exchange (cyclic)
    pub hcancel: [Vec<Option<u32>>; 2],
    /// (drop %, dup %, delay %, max delay ms) during the disturbance phase
    pub net: (u32, u32, u32, u64),
    /// mark a session expired: (t_ms, node, session tag 0 / 1 / 3)
    pub expire: Option<(u32, u8, u8)>,
    pub group: bool,
    /// fill the session tables of both nodes (15 of 16) with idle sessions, and let every unsecured
    /// injection come from another ephemeral node: new unsecured sessions then evict idle ones
    pub fill: bool,
    pub shuffle: bool,
    pub slots: usize,
    /// the "twins" family: several peers open an exchange with the same id at one node (c10_twins.rs)
    pub twins: Option<TwinSpec>,
}

// ---------------------------------------------------------------------------------------------
// Tagged payloads
// ---------------------------------------------------------------------------------------------

const MAGIC: u8 = 0xCA;
const PAYLOAD_HDR: usize = 16;

#[derive(Clone, Copy, Debug, PartialEq, Eq)]
pub struct Tag {
    /// peer code of the sender: 0 = A, 1 = B, 2 = H, 3 = H2, 0x10 + k = unsecured twin peer k
    pub src: u8,
    pub dst: u8,
    pub sess: u8,
    pub exch_id: u16,
    /// the I flag of the message = its sender is the initiator of the exchange
    pub i: bool,
    /// client index / injection index
    pub app: u8,
    pub seq: u16,
    pub mode: u8,
    pub last: bool,
    pub hold_ms: u16,
    /// 0 request, 1 answer
    pub dir: u8,
}

pub fn make_payload(t: &Tag, fill: usize) -> Vec<u8> {
    let mut v = vec![
        MAGIC,
        t.src,
        t.dst,
        t.sess,
        t.exch_id as u8,
        (t.exch_id >> 8) as u8,
        t.i as u8,
        t.app,
        t.seq as u8,
        (t.seq >> 8) as u8,
        t.mode,
        t.last as u8,
        t.hold_ms as u8,
        (t.hold_ms >> 8) as u8,
        t.dir,
        0x5A,
    ];
    for k in 0..fill {
        v.push((k as u8) ^ t.app.wrapping_mul(31) ^ (t.seq as u8));
    }
    v
}

fn parse_at(b: &[u8]) -> Option<Tag> {
    if b.len() < PAYLOAD_HDR || b[0] != MAGIC || b[15] != 0x5A {
        return None;
    }
    Some(Tag {
        src: b[1],
        dst: b[2],
        sess: b[3],
        exch_id: u16::from_le_bytes([b[4], b[5]]),
        i: b[6] != 0,
        app: b[7],
        seq: u16::from_le_bytes([b[8], b[9]]),
        mode: b[10],
        last: b[11] != 0,
        hold_ms: u16::from_le_bytes([b[12], b[13]]),
        dir: b[14],
    })
}

/// The tag sits at offset 0, or - inside a status report - after the 8-byte report header.
pub fn parse_payload(b: &[u8]) -> Option<Tag> {
    parse_at(b).or_else(|| b.get(8..).and_then(parse_at))
}

// ---------------------------------------------------------------------------------------------
// Events
// ---------------------------------------------------------------------------------------------

#[derive(Clone, Copy, Debug, PartialEq, Eq)]
pub struct HandleInfo {
    pub node: u8,
    pub sess: u8,
    pub local_sid: u16,
    pub exch_id: u16,
    pub initiator: bool,
    /// peer code of the other end of the handle's SESSION, read from the session's peer address
    /// (and, for unsecured sessions, its peer node id) in the verif snapshot; `P_UNKNOWN` for groups
    pub peer: u8,
}

#[derive(Clone, Copy, Debug, PartialEq, Eq)]
pub enum Why {
    Done,
    Cancelled,
    RecvTimeout,
    RecvErr(ErrorCode),
    SendErr(ErrorCode),
    SendStuck,
    BadPayload,
    InitFail(ErrorCode),
}

#[derive(Clone, Debug)]
pub enum EvKind {
    /// a client initiated an exchange
    Init { hid: u32, client: u8, h: Option<HandleInfo> },
    InitFail { client: u8, code: ErrorCode },
    /// an acceptor slot accepted an exchange (`delay` = its accept delay at that moment)
    Accept { hid: u32, slot: u8, h: Option<HandleInfo>, delay: u32, cancel: Option<u32> },
    Recv { hid: u32, tag: Option<Tag>, proto: u16, opcode: u8, len: usize },
    /// the exchange owner starts waiting for a message
    RecvWait { hid: u32 },
    SendCall { hid: u32, seq: u16, tag: Tag, reliable: bool },
    SendRet { hid: u32, seq: u16, res: Result<(), ErrorCode> },
    Closed { hid: u32, why: Why },
    /// what the injector actually put on the wire
    Inject {
        idx: u8,
        node: u8,
        sess: u8,
        exch_id: u16,
        i: bool,
        r: bool,
        op: OpClass,
        ack: Option<u32>,
        /// the id class actually realised (falls back to Fresh when no such exchange exists)
        idc: IdClass,
        ctr: u32,
        skipped: Option<&'static str>,
    },
    /// what a twin peer put on the wire (c10_twins.rs)
    Twin {
        k: u8,
        peer: u8,
        kind: TwinKind,
        sess: u8,
        exch_id: u16,
        seq: u16,
        opener: bool,
        /// the standalone ack sent ahead of a follow-up
        sack: bool,
        op: OpClass,
        r: bool,
        ack: Option<u32>,
        ctr: u32,
        skipped: Option<&'static str>,
    },
    Expire { node: u8, sess: u8, done: bool },
    Phase(u8),
    /// the probe session did not survive the disturbance phase; a fresh one was installed (or not)
    ProbeSessionReplaced { lost_at: u8, expired: bool, installed: bool },
    Probe { dir: u8, attempt: u8, ok: bool, stage: &'static str, ms: u64 },
}

#[derive(Clone, Debug)]
pub struct Ev {
    pub t: u64,
    pub node: u8,
    pub kind: EvKind,
}

// ---------------------------------------------------------------------------------------------
// Exchange-table watcher (fed after every poll of a node's task)
// ---------------------------------------------------------------------------------------------

#[derive(Clone, Copy, Debug, PartialEq, Eq, Hash, PartialOrd, Ord)]
pub struct ExKey {
    pub sess: u8,
    pub local_sid: u16,
    pub exch_id: u16,
    pub initiator: bool,
    /// rs-matter's internal id of the session instance (0 in keys built by the judge): unsecured
    /// sessions all have local session id 0, group sessions share ids - exchanges with the same
    /// exchange id on two of them are two exchanges
    pub sess_uid: u32,
}

#[derive(Clone, Copy, Debug)]
pub struct Interval {
    pub first: u64,
    pub last: u64,
    pub accept_pending_seen: bool,
    /// last time the exchange was seen in the accept-pending state
    pub ap_last: u64,
    pub owned_seen: bool,
    pub dropped_seen: bool,
    /// longest uninterrupted accept-pending episode (consecutive snapshots): (start, length).
    /// An exchange that is closed and re-opened with the same id between two snapshots (a message
    /// arriving the moment its handler gives up) is one interval with several episodes.
    pub ap_longest: (u64, u64),
    ap_since: Option<u64>,
    mark: u64,
}

#[derive(Clone, Copy, Debug, Default)]
pub struct SessWatch {
    pub first_seen: u64,
    pub last_seen: u64,
    pub expired_at: Option<u64>,
    pub gone_at: Option<u64>,
    /// number of exchanges the session had in the last snapshot it was seen in
    pub exch_at_last: usize,
    mark: u64,
}

#[derive(Default)]
pub struct Watch {
    pub open: HashMap<ExKey, Interval>,
    pub closed: Vec<(ExKey, Interval)>,
    /// by internal session id
    pub sessions: HashMap<u32, (u8, SessWatch)>,
    pub polls: u64,
    pub enabled: bool,
    /// longest time the RX slot was seen occupied without interruption (sampled after every poll)
    pub rx_held_max: u64,
    rx_held_since: Option<u64>,
}

pub fn sess_tag(node: usize, s: &VerifSession) -> u8 {
    if matches!(s.mode, SessionMode::Group { .. }) {
        return S_GROUP;
    }
    if !s.encrypted {
        return S_UNSEC;
    }
    for (k, sid) in SIDS[node].iter().enumerate() {
        if *sid == s.local_sess_id {
            return k as u8;
        }
    }
    if s.local_sess_id == SIDS_ALT[node] {
        return S_PROBE;
    }
    if s.local_sess_id == SIDS_H2[node] {
        return S_HOSTILE2;
    }
    S_UNKNOWN
}

/// Who is at the other end of a session, by its peer address (and peer node id for the
/// unsecured twin peers).
pub fn peer_code(s: &VerifSession) -> u8 {
    if matches!(s.mode, SessionMode::Group { .. }) {
        return P_UNKNOWN;
    }
    let a = s.peer_addr.canonical();
    for n in 0..3usize {
        if a == crate::sim::net::node_addr(n).canonical() {
            return n as u8;
        }
    }
    if a == h2_addr().canonical() {
        return if s.encrypted { P_H2 } else { P_UNKNOWN };
    }
    if !s.encrypted && (0..3u8).any(|j| a == twin_addr(j).canonical()) {
        for k in 0..3u8 {
            if s.peer_nodeid == Some(twin_node(k)) {
                return P_TWIN0 + k;
            }
        }
    }
    P_UNKNOWN
}

impl Watch {
    pub fn observe_rx(&mut self, occupied: bool) {
        let now = clock::now();
        match (occupied, self.rx_held_since) {
            (true, None) => self.rx_held_since = Some(now),
            (true, Some(t)) => self.rx_held_max = self.rx_held_max.max(now - t),
            (false, _) => self.rx_held_since = None,
        }
    }

    pub fn observe(&mut self, node: usize, snap: &[VerifSession]) {
        if !self.enabled {
            return;
        }
        self.polls += 1;
        let mark = self.polls;
        let now = clock::now();
        for s in snap {
            if s.reserved {
                continue;
            }
            let tag = sess_tag(node, s);
            let e = self.sessions.entry(s.id).or_insert_with(|| {
                (
                    tag,
                    SessWatch {
                        first_seen: now,
                        ..Default::default()
                    },
                )
            });
            e.1.last_seen = now;
            e.1.mark = mark;
            e.1.exch_at_last = s.exchanges.len();
            if s.expired && e.1.expired_at.is_none() {
                e.1.expired_at = Some(now);
            }
            for x in &s.exchanges {
                let key = ExKey {
                    sess: tag,
                    local_sid: s.local_sess_id,
                    exch_id: x.exch_id,
                    initiator: x.initiator,
                    sess_uid: s.id,
                };
                let iv = self.open.entry(key).or_insert(Interval {
                    first: now,
                    last: now,
                    accept_pending_seen: false,
                    ap_last: now,
                    owned_seen: false,
                    dropped_seen: false,
                    ap_longest: (now, 0),
                    ap_since: None,
                    mark,
                });
                iv.last = now;
                iv.mark = mark;
                if x.accept_pending {
                    iv.accept_pending_seen = true;
                    iv.ap_last = now;
                    let since = *iv.ap_since.get_or_insert(now);
                    if now - since >= iv.ap_longest.1 {
                        iv.ap_longest = (since, now - since);
                    }
                } else if x.dropped {
                    iv.dropped_seen = true;
                    iv.ap_since = None;
                } else {
                    iv.owned_seen = true;
                    iv.ap_since = None;
                }
            }
        }
        if self.open.values().any(|iv| iv.mark != mark) {
            let gone: Vec<ExKey> = self.open.iter().filter(|(_, iv)| iv.mark != mark).map(|(k, _)| *k).collect();
            for k in gone {
                if let Some(iv) = self.open.remove(&k) {
                    self.closed.push((k, iv));
                }
            }
        }
        for (_, (_, sw)) in self.sessions.iter_mut() {
            if sw.mark != mark && sw.gone_at.is_none() {
                sw.gone_at = Some(now);
            }
        }
    }

    /// All intervals (closed and still open) of a key.
    pub fn intervals(&self, key: &ExKey) -> Vec<Interval> {
        let mut v: Vec<Interval> = self.closed.iter().filter(|(k, _)| k == key).map(|(_, iv)| *iv).collect();
        if let Some(iv) = self.open.get(key) {
            v.push(*iv);
        }
        v
    }

    pub fn all(&self) -> Vec<(ExKey, Interval)> {
        let mut v = self.closed.clone();
        v.extend(self.open.iter().map(|(k, iv)| (*k, *iv)));
        v
    }
}

/// Polls `inner`, then calls `after` (state of the node is consistent between polls).
struct Watched<'a, F: FnMut()> {
    inner: BoxFut<'a>,
    after: F,
}

impl<F: FnMut() + Unpin> Future for Watched<'_, F> {
    type Output = ();
    fn poll(self: Pin<&mut Self>, cx: &mut Context<'_>) -> Poll<()> {
        let this = self.get_mut();
        let r = this.inner.as_mut().poll(cx);
        (this.after)();
        r
    }
}

/// Polls all children (seeded shuffled order) until all have completed.
struct JoinAll<'a> {
    children: Vec<Option<BoxFut<'a>>>,
    rng: Rng,
    order: Vec<usize>,
    shuffle: bool,
}

impl<'a> JoinAll<'a> {
    fn new(seed: u64, shuffle: bool, children: Vec<BoxFut<'a>>) -> Self {
        let order = (0..children.len()).collect();
        Self {
            children: children.into_iter().map(Some).collect(),
            rng: Rng::new(seed),
            order,
            shuffle,
        }
    }
}

impl Future for JoinAll<'_> {
    type Output = ();
    fn poll(self: Pin<&mut Self>, cx: &mut Context<'_>) -> Poll<()> {
        let this = self.get_mut();
        if this.shuffle {
            this.rng.shuffle(&mut this.order);
        }
        let mut pending = false;
        for k in 0..this.order.len() {
            let i = this.order[k];
            if let Some(f) = this.children[i].as_mut() {
                match f.as_mut().poll(cx) {
                    Poll::Ready(()) => this.children[i] = None,
                    Poll::Pending => pending = true,
                }
            }
        }
        if pending {
            Poll::Pending
        } else {
            Poll::Ready(())
        }
    }
}

// ---------------------------------------------------------------------------------------------
// Shared state of one scenario
// ---------------------------------------------------------------------------------------------

struct Shared {
    log: RefCell<Vec<Ev>>,
    next_hid: Cell<u32>,
    busy: [Cell<u32>; 2],
    accepted: [Cell<u32>; 2],
    t0: u64,
    /// 0 disturbance, 2 quiet, 3 probe B->A requested, 4 probe B->A done
    phase: Cell<u8>,
    b_clients_done: Cell<bool>,
    watch: [RefCell<Watch>; 2],
}

impl Shared {
    fn log(&self, node: usize, kind: EvKind) {
        self.log.borrow_mut().push(Ev {
            t: clock::now(),
            node: node as u8,
            kind,
        });
    }
    fn hid(&self) -> u32 {
        let h = self.next_hid.get();
        self.next_hid.set(h + 1);
        h
    }
}

struct NodeCtx<'m, C> {
    idx: usize,
    m: &'m Matter<'m>,
    crypto: &'m C,
    /// internal session ids of the sessions with tags 0..3
    sess: Cell<[Option<u32>; 4]>,
    /// absolute (start, end, delay ms)
    profile: Vec<(u64, u64, u32)>,
    hcancel: Vec<Option<u32>>,
    sh: &'m Shared,
}

impl<C> NodeCtx<'_, C> {
    /// (accept delay in ms, absolute time until which it applies)
    fn accept_delay(&self, now: u64) -> (u32, u64) {
        for (s, e, d) in &self.profile {
            if now >= *s && now < *e {
                return (*d, *e);
            }
        }
        (0, u64::MAX)
    }
}

fn handle_info(node: usize, m: &Matter<'_>, idstr: &str) -> Option<HandleInfo> {
    let mut it = idstr.split("::");
    let sid: u32 = it.next()?.parse().ok()?;
    let idx: usize = it.next()?.parse().ok()?;
    let snap = node::snapshot(m);
    let s = snap.iter().find(|s| s.id == sid)?;
    let x = s.exchanges.iter().find(|e| e.index == idx)?;
    Some(HandleInfo {
        node: node as u8,
        sess: sess_tag(node, s),
        local_sid: s.local_sess_id,
        exch_id: x.exch_id,
        initiator: x.initiator,
        peer: peer_code(s),
    })
}

async fn sleep_opt(ms: u64) {
    if ms > 0 {
        exec::sleep_ms(ms).await;
    }
}

async fn sleep_until(t: u64) {
    embassy_time::Timer::at(embassy_time::Instant::from_ticks(t)).await
}

// ---------------------------------------------------------------------------------------------
// Responder side: acceptor slots + handler
// ---------------------------------------------------------------------------------------------

async fn handler<C: Crypto>(nc: &NodeCtx<'_, C>, mut ex: Exchange<'_>, hid: u32, hinfo: Option<HandleInfo>) -> Why {
    let me = nc.idx;
    loop {
        nc.sh.log(me, EvKind::RecvWait { hid });
        let got = {
            let r = exec::with_timeout(T_HANDLER_RECV_MS, ex.recv_fetch()).await;
            match r {
                None => None,
                Some(Err(e)) => Some(Err(e.code())),
                Some(Ok(rx)) => Some(Ok((rx.meta(), rx.payload().to_vec()))),
            }
        };
        let (meta, bytes) = match got {
            None => return Why::RecvTimeout,
            Some(Err(c)) => return Why::RecvErr(c),
            Some(Ok(x)) => x,
        };
        let tag = parse_payload(&bytes);
        nc.sh.log(
            me,
            EvKind::Recv {
                hid,
                tag,
                proto: meta.proto_id,
                opcode: meta.proto_opcode,
                len: bytes.len(),
            },
        );
        let Some(t) = tag else {
            let _ = ex.rx_done();
            return Why::BadPayload;
        };
        if t.mode == M_HOLD_RX {
            // keeps the node's single RX slot occupied (documented, legitimate use of recv_fetch)
            sleep_opt(t.hold_ms.min(400) as u64).await;
        }
        let _ = ex.rx_done();
        match t.mode {
            M_DROP => return Why::Done,
            M_ACK_DROP => {
                let _ = exec::with_timeout(T_SEND_MS, ex.acknowledge()).await;
                return Why::Done;
            }
            M_HOLD_DROP => {
                sleep_opt(t.hold_ms as u64).await;
                return Why::Done;
            }
            M_NEXT | M_HOLD_NEXT => {
                if t.mode == M_HOLD_NEXT {
                    sleep_opt(t.hold_ms as u64).await;
                }
                if t.last {
                    return Why::Done;
                }
                continue;
            }
            M_HOLD => sleep_opt(t.hold_ms as u64).await,
            M_ACK_FIRST => match exec::with_timeout(T_SEND_MS, ex.acknowledge()).await {
                Some(Ok(())) => {}
                Some(Err(e)) => return Why::SendErr(e.code()),
                None => return Why::SendStuck,
            },
            _ => {}
        }
        let reliable = t.mode != M_PONG_UNREL;
        let ans = Tag {
            src: me as u8,
            dst: t.src,
            sess: hinfo.map(|h| h.sess).unwrap_or(t.sess),
            exch_id: hinfo.map(|h| h.exch_id).unwrap_or(t.exch_id),
            i: hinfo.map(|h| h.initiator).unwrap_or(false),
            app: t.app,
            seq: t.seq,
            mode: M_NORMAL,
            last: t.last,
            hold_ms: 0,
            dir: 1,
        };
        let payload = make_payload(&ans, (t.seq as usize * 7 + t.app as usize) % 40);
        nc.sh.log(me, EvKind::SendCall { hid, seq: t.seq, tag: ans, reliable });
        let r = exec::with_timeout(T_SEND_MS, ex.send(MessageMeta::new(PROTO_H, OP_PONG, reliable), &payload)).await;
        let res = match &r {
            Some(Ok(())) => Ok(()),
            Some(Err(e)) => Err(e.code()),
            None => Err(ErrorCode::Busy),
        };
        nc.sh.log(me, EvKind::SendRet { hid, seq: t.seq, res });
        match r {
            Some(Ok(())) => {}
            Some(Err(e)) => return Why::SendErr(e.code()),
            None => return Why::SendStuck,
        }
        if t.last {
            return Why::Done;
        }
    }
}

async fn slot<C: Crypto>(nc: &NodeCtx<'_, C>, k: usize) {
    let me = nc.idx;
    loop {
        let (d, until) = nc.accept_delay(clock::now());
        let ex = if until == u64::MAX {
            Exchange::accept_after(nc.m, d).await
        } else {
            match select(Exchange::accept_after(nc.m, d), sleep_until(until)).await {
                Either::First(r) => r,
                Either::Second(_) => continue,
            }
        };
        let Ok(ex) = ex else {
            continue;
        };
        let hid = nc.sh.hid();
        let hinfo = handle_info(me, nc.m, &format!("{}", ex.id()));
        let n = nc.sh.accepted[me].get();
        nc.sh.accepted[me].set(n + 1);
        let cancel = if hinfo.map(|h| h.sess == S_PROBE).unwrap_or(false) || nc.sh.phase.get() != 0 || nc.hcancel.is_empty() {
            None
        } else {
            nc.hcancel[n as usize % nc.hcancel.len()]
        };
        nc.sh.log(
            me,
            EvKind::Accept {
                hid,
                slot: k as u8,
                h: hinfo,
                delay: d,
                cancel,
            },
        );
        nc.sh.busy[me].set(nc.sh.busy[me].get() + 1);
        let why = match cancel {
            Some(n) => exec::CancelAfter::new(handler(nc, ex, hid, hinfo), n).await.unwrap_or(Why::Cancelled),
            None => handler(nc, ex, hid, hinfo).await,
        };
        nc.sh.log(me, EvKind::Closed { hid, why });
        nc.sh.busy[me].set(nc.sh.busy[me].get() - 1);
    }
}

/// Samples the occupancy of the RX slot every 100 ms while the watcher is enabled. (Not from the
/// per-poll watcher: `verif_slots` locks and unlocks the slot, which wakes the slot's waiter -
/// the node's own task - so calling it after every poll would keep the task spinning.)
async fn rx_sampler<C: Crypto>(nc: &NodeCtx<'_, C>) {
    loop {
        exec::sleep_ms(100).await;
        if !nc.sh.watch[nc.idx].borrow().enabled {
            core::future::pending::<()>().await;
        }
        let occ = nc.m.transport().verif_slots().rx_occupied;
        nc.sh.watch[nc.idx].borrow_mut().observe_rx(occ);
    }
}

// ---------------------------------------------------------------------------------------------
// Initiator side: clients and the probe
// ---------------------------------------------------------------------------------------------

fn first_meta(op: u8) -> MessageMeta {
    match op {
        1 => MessageMeta::new(0, 0x30, true),
        2 => MessageMeta::new(0, 0x20, true),
        3 => MessageMeta::new(1, 0x02, true),
        _ => MessageMeta::new(PROTO_H, OP_PING, true),
    }
}

async fn client_body<C: Crypto>(
    nc: &NodeCtx<'_, C>,
    mut ex: Exchange<'_>,
    hid: u32,
    hinfo: Option<HandleInfo>,
    ci: u8,
    spec: &ClientSpec,
) -> Why {
    let me = nc.idx;
    let peer = if spec.sess == S_HOSTILE { 2 } else { 1 - me as u8 };
    for seq in 0..spec.rounds as u16 {
        sleep_opt(spec.think_ms as u64).await;
        let last = seq + 1 == spec.rounds as u16;
        let t = Tag {
            src: me as u8,
            dst: peer,
            sess: spec.sess,
            exch_id: hinfo.map(|h| h.exch_id).unwrap_or(0),
            i: true,
            app: ci,
            seq,
            mode: spec.modes[seq as usize % spec.modes.len()],
            last,
            hold_ms: spec.hold_ms,
            dir: 0,
        };
        let payload = make_payload(&t, (ci as usize * 13 + seq as usize * 5) % 64);
        let meta = if seq == 0 { first_meta(spec.first_op) } else { MessageMeta::new(PROTO_H, OP_PING, true) };
        nc.sh.log(me, EvKind::SendCall { hid, seq, tag: t, reliable: true });
        let r = exec::with_timeout(T_SEND_MS, ex.send(meta, &payload)).await;
        let res = match &r {
            Some(Ok(())) => Ok(()),
            Some(Err(e)) => Err(e.code()),
            None => Err(ErrorCode::Busy),
        };
        nc.sh.log(me, EvKind::SendRet { hid, seq, res });
        match r {
            Some(Ok(())) => {}
            Some(Err(e)) => return Why::SendErr(e.code()),
            None => return Why::SendStuck,
        }
        if matches!(t.mode, M_DROP | M_ACK_DROP | M_HOLD_DROP) {
            // no answer expected: the handler drops the exchange
            continue;
        }
        // wait for the answer; anything else surfacing on this handle is logged and skipped
        let mut extra = 0;
        loop {
            nc.sh.log(me, EvKind::RecvWait { hid });
            let got = {
                let r = exec::with_timeout(T_CLIENT_RECV_MS, ex.recv()).await;
                match r {
                    None => None,
                    Some(Err(e)) => Some(Err(e.code())),
                    Some(Ok(rx)) => Some(Ok((rx.meta(), rx.payload().to_vec()))),
                }
            };
            let (meta, bytes) = match got {
                None => return Why::RecvTimeout,
                Some(Err(c)) => return Why::RecvErr(c),
                Some(Ok(x)) => x,
            };
            let tag = parse_payload(&bytes);
            nc.sh.log(
                me,
                EvKind::Recv {
                    hid,
                    tag,
                    proto: meta.proto_id,
                    opcode: meta.proto_opcode,
                    len: bytes.len(),
                },
            );
            match tag {
                Some(a) if a.dir == 1 && a.app == ci && a.seq == seq && a.src != 2 => break,
                _ => {
                    extra += 1;
                    if extra > 6 {
                        return Why::BadPayload;
                    }
                }
            }
        }
    }
    if spec.final_ack {
        let _ = exec::with_timeout(T_SEND_MS, ex.acknowledge()).await;
    }
    Why::Done
}

async fn client<C: Crypto>(nc: &NodeCtx<'_, C>, ci: u8, spec: &ClientSpec) {
    let me = nc.idx;
    sleep_opt(spec.start_ms as u64).await;
    let Some(sid) = nc.sess.get()[spec.sess as usize] else {
        nc.sh.log(me, EvKind::InitFail { client: ci, code: ErrorCode::NoSession });
        return;
    };
    let ex = match Exchange::initiate_for_session(nc.m, nc.crypto, sid) {
        Ok(ex) => ex,
        Err(e) => {
            nc.sh.log(me, EvKind::InitFail { client: ci, code: e.code() });
            return;
        }
    };
    let hid = nc.sh.hid();
    let hinfo = handle_info(me, nc.m, &format!("{}", ex.id()));
    nc.sh.log(me, EvKind::Init { hid, client: ci, h: hinfo });
    let why = match spec.cancel {
        Some(n) => exec::CancelAfter::new(client_body(nc, ex, hid, hinfo, ci, spec), n).await.unwrap_or(Why::Cancelled),
        None => client_body(nc, ex, hid, hinfo, ci, spec).await,
    };
    nc.sh.log(me, EvKind::Closed { hid, why });
}

/// One request / answer on a fresh exchange of the probe session.
async fn probe<C: Crypto>(nc: &NodeCtx<'_, C>, attempt: u8) -> bool {
    let me = nc.idx;
    let t_start = clock::now();
    let spec = ClientSpec {
        node: me as u8,
        sess: S_PROBE,
        rounds: 1,
        start_ms: 0,
        think_ms: 0,
        first_op: 0,
        modes: vec![M_NORMAL],
        hold_ms: 0,
        cancel: None,
        final_ack: true,
    };
    let (ok, stage): (bool, &'static str) = async {
        let Some(sid) = nc.sess.get()[S_PROBE as usize] else {
            return (false, "no-session-id");
        };
        let ex = match Exchange::initiate_for_session(nc.m, nc.crypto, sid) {
            Ok(ex) => ex,
            Err(_) => return (false, "initiate-failed"),
        };
        let hid = nc.sh.hid();
        let hinfo = handle_info(me, nc.m, &format!("{}", ex.id()));
        nc.sh.log(me, EvKind::Init { hid, client: 0xF0 + attempt, h: hinfo });
        let r = exec::with_timeout(PROBE_BOUND_MS, client_body(nc, ex, hid, hinfo, 0xF0 + attempt, &spec)).await;
        let why = r.unwrap_or(Why::RecvTimeout);
        nc.sh.log(me, EvKind::Closed { hid, why });
        match (r, why) {
            (None, _) => (false, "bound-exceeded"),
            (_, Why::Done) => (true, "answered"),
            (_, Why::SendErr(_)) | (_, Why::SendStuck) => (false, "request-not-acknowledged"),
            (_, Why::RecvTimeout) => (false, "no-answer"),
            (_, Why::RecvErr(_)) => (false, "receive-error"),
            _ => (false, "other"),
        }
    }
    .await;
    nc.sh.log(
        me,
        EvKind::Probe {
            dir: me as u8,
            attempt,
            ok,
            stage,
            ms: (clock::now() - t_start) / 1000,
        },
    );
    ok
}

// ---------------------------------------------------------------------------------------------
// The hostile peer
// ---------------------------------------------------------------------------------------------

struct HSess {
    /// H -> node key (the node's decrypt key), node -> H key
    k_h2n: Key,
    k_n2h: Key,
    pase: bool,
    ctr: Cell<u32>,
}

fn encode_plain<C: Crypto>(crypto: &C, p: &HdrParams, payload: &[u8]) -> Result<Vec<u8>, Error> {
    let mut buf = vec![0u8; PacketHdr::HDR_RESERVE + payload.len() + 32];
    let (s, e) = {
        let mut wb = WriteBuf::new_with(&mut buf, PacketHdr::HDR_RESERVE, PacketHdr::HDR_RESERVE);
        wb.append(payload)?;
        build_hdr(p).encode(crypto, None, 0, &mut wb)?;
        (wb.get_start(), wb.get_tail())
    };
    Ok(buf[s..e].to_vec())
}

fn op_meta(op: OpClass) -> (u16, u8) {
    match op {
        OpClass::Data => (PROTO_H, OP_HOSTILE),
        OpClass::Sack => (0, 0x10),
        OpClass::StatusOther | OpClass::StatusClose => (0, 0x40),
        OpClass::Sigma1 => (0, 0x30),
        OpClass::Pbkdf => (0, 0x20),
        OpClass::Im => (1, 0x02),
        OpClass::Mcsp => (0, 0x00),
    }
}

fn op_payload(op: OpClass, tagged: &[u8]) -> Vec<u8> {
    match op {
        OpClass::StatusOther => {
            // general code 0 (success), protocol id 0, protocol code 0 + protocol data
            let mut v = vec![0u8, 0, 0, 0, 0, 0, 0, 0];
            v.extend_from_slice(tagged);
            v
        }
        OpClass::StatusClose => {
            let mut v = vec![0u8, 0, 0, 0, 0, 0, 3, 0];
            v.extend_from_slice(tagged);
            v
        }
        _ => tagged.to_vec(),
    }
}

struct Injector<'a, C> {
    hub: &'a NetHub,
    crypto: &'a C,
    sh: &'a Shared,
    matters: [&'a Matter<'a>; 2],
    hs: [HSess; 2],
    kr: Option<RefCell<Keyring>>,
    addr: [Address; 3],
    unsec_ctr: Cell<u32>,
    s1_pase: bool,
    fill: bool,
    /// H2's session with the twins' target node (twin scenarios that need it)
    hs2: Option<HSess>,
    /// message counters of the unsecured twin peers
    twin_ctr: [Cell<u32>; 3],
}

impl<C: Crypto> Injector<'_, C> {
    /// Live / closed handles of `node` per the application log.
    fn handles(&self, node: u8) -> Vec<(HandleInfo, bool)> {
        let log = self.sh.log.borrow();
        let mut v: Vec<(u32, HandleInfo, bool)> = Vec::new();
        for e in log.iter() {
            if e.node != node {
                continue;
            }
            match &e.kind {
                EvKind::Init { hid, h: Some(h), .. } | EvKind::Accept { hid, h: Some(h), .. } => v.push((*hid, *h, true)),
                EvKind::Closed { hid, .. } => {
                    for x in v.iter_mut() {
                        if x.0 == *hid {
                            x.2 = false;
                        }
                    }
                }
                _ => {}
            }
        }
        v.into_iter().map(|(_, h, live)| (h, live)).collect()
    }

    fn last_ctr_to_h(&self, node: u8) -> Option<u32> {
        let h_addr = self.addr[2];
        self.hub.with_tap(|t| {
            t.iter()
                .rev()
                .find(|e| !e.injected && e.dgram.src == node as usize && e.dgram.dst_addr == h_addr)
                .and_then(|e| wire::peek(&e.dgram.bytes))
                .map(|i| i.ctr)
        })
    }

    fn inject(&self, idx: usize, j: &Inj) {
        let node = j.node as usize;
        let from = self.addr[2];
        let mut skipped: Option<&'static str> = None;
        let mut idc = j.idc;
        let handles = self.handles(j.node);
        // ---- exchange id
        let fresh = 0x7000u16.wrapping_add(idx as u16 * 3 + 1);
        let pick = |f: &dyn Fn(&HandleInfo, bool) -> bool| handles.iter().rev().find(|(h, l)| f(h, *l)).map(|(h, _)| h.exch_id);
        let exch_id = match (j.sess, j.idc) {
            (InjSess::Hostile, IdClass::LiveResp) => pick(&|h, l| l && h.sess == S_HOSTILE && !h.initiator),
            (InjSess::Hostile, IdClass::LiveInit) => pick(&|h, l| l && h.sess == S_HOSTILE && h.initiator),
            (InjSess::Hostile, IdClass::Stale) => pick(&|h, l| !l && h.sess == S_HOSTILE && h.initiator != j.i).or_else(|| pick(&|h, l| !l && h.sess == S_HOSTILE)),
            // a CloseSession in the peer's name is only honoured on an exchange the target knows
            (InjSess::Legit(s), _) => pick(&|h, l| l && h.sess == s && h.initiator != j.i),
            (_, IdClass::OtherSess) => pick(&|h, l| l && h.sess <= S_PROBE),
            (InjSess::Group, IdClass::LiveResp) => pick(&|h, l| l && h.sess == S_GROUP),
            (InjSess::Unsecured, IdClass::LiveResp) => pick(&|h, l| l && h.sess == S_UNSEC),
            _ => None,
        };
        let exch_id = match exch_id {
            Some(x) => {
                if let InjSess::Legit(_) = j.sess {
                    idc = if j.i { IdClass::LiveResp } else { IdClass::LiveInit };
                }
                x
            }
            None => {
                idc = IdClass::Fresh;
                fresh
            }
        };
        let ack = match j.ack {
            AckClass::None => None,
            AckClass::Bogus => Some(0x0bad_0000 + idx as u32),
            AckClass::Last => self.last_ctr_to_h(j.node),
        };
        let (proto_id, opcode) = op_meta(j.op);
        let stag = match j.sess {
            InjSess::Hostile => S_HOSTILE,
            InjSess::Group => S_GROUP,
            InjSess::Unsecured => S_UNSEC,
            InjSess::Legit(s) => s,
        };
        let tag = Tag {
            src: 2,
            dst: j.node,
            sess: stag,
            exch_id,
            i: j.i,
            app: idx as u8,
            seq: 0,
            mode: j.mode,
            last: true,
            hold_ms: j.hold_ms,
            dir: 0,
        };
        let tagged = if j.payload { make_payload(&tag, idx % 24) } else { Vec::new() };
        let payload = op_payload(j.op, &tagged);
        let mut hp = HdrParams {
            sess_id: 0,
            ctr: 0,
            group: false,
            control: false,
            src: None,
            dst_uni: None,
            dst_grp: None,
            exch_id,
            proto_id,
            opcode,
            initiator: j.i,
            reliable: j.r,
            ack,
            vendor: None,
        };
        let bytes: Option<Vec<u8>> = match j.sess {
            InjSess::Hostile => {
                let hs = &self.hs[node];
                let c = hs.ctr.get();
                hs.ctr.set(c.wrapping_add(1));
                hp.sess_id = SIDS[node][S_HOSTILE as usize];
                hp.ctr = c;
                encode(self.crypto, &hp, &hs.k_h2n, if hs.pase { 0 } else { H_NODE }, &payload).ok()
            }
            InjSess::Group => match &self.kr {
                Some(kr) if node == 1 => {
                    let mut kr = kr.borrow_mut();
                    let gk = kr.gk[idx % kr.gk.len()].clone();
                    let c = kr.group_ctr[0];
                    kr.group_ctr[0] = c.wrapping_add(1);
                    hp.sess_id = gk.sid;
                    hp.ctr = c;
                    hp.group = true;
                    hp.control = j.g_control;
                    hp.src = Some(S_NODE);
                    if j.g_dst_unicast {
                        hp.dst_uni = Some(super::c03_gen::R_NODE);
                    } else {
                        hp.dst_grp = Some(if gk.key_set == 0 { GROUP_IDS[0] } else { GROUP_IDS[1] });
                    }
                    encode(self.crypto, &hp, &gk.op_key, S_NODE, &payload).ok()
                }
                _ => {
                    skipped = Some("no-group-keys");
                    None
                }
            },
            InjSess::Unsecured => {
                let c = self.unsec_ctr.get();
                self.unsec_ctr.set(c.wrapping_add(1));
                hp.sess_id = 0;
                hp.ctr = c;
                // one ephemeral initiator node id per scenario: later messages hit the same unsecured session
                hp.src = Some(0x00C1_0000_0000_0001 + if self.fill { idx as u64 } else { 0 });
                encode_plain(self.crypto, &hp, &payload).ok()
            }
            InjSess::Legit(s) => {
                // impersonate the peer node: its own view of the session gives key, nonce and counter
                let peer = 1 - node;
                let peer_snap = node::snapshot(self.matters[peer]);
                let mine = node::snapshot(self.matters[node]);
                let my_sid = SIDS[node][s as usize];
                let pase = s == 1 && self.s1_pase;
                let nonce = if pase {
                    0
                } else if peer == 0 {
                    A_NODE
                } else {
                    B_NODE
                };
                if let Some(ps) = peer_snap.iter().find(|x| x.encrypted && x.local_sess_id == SIDS[peer][s as usize]) {
                    hp.sess_id = my_sid;
                    hp.ctr = ps.msg_ctr.wrapping_add(2);
                    encode(self.crypto, &hp, &ps.enc_key, nonce, &payload).ok()
                } else if let Some(ms) = mine.iter().find(|x| x.encrypted && x.local_sess_id == my_sid) {
                    // the peer has already lost the session: far-ahead counter
                    hp.sess_id = my_sid;
                    hp.ctr = 0x0800_0000 + idx as u32;
                    encode(self.crypto, &hp, &ms.dec_key, nonce, &payload).ok()
                } else {
                    skipped = Some("session-gone-at-both-ends");
                    None
                }
            }
        };
        let from = if let InjSess::Legit(_) = j.sess { self.addr[1 - node] } else { from };
        if bytes.is_none() && skipped.is_none() {
            skipped = Some("encode-failed");
        }
        self.sh.log(
            node,
            EvKind::Inject {
                idx: idx as u8,
                node: j.node,
                sess: stag,
                exch_id,
                i: j.i,
                r: j.r,
                op: j.op,
                ack,
                idc,
                ctr: hp.ctr,
                skipped,
            },
        );
        if let Some(b) = bytes {
            self.hub.inject(node, from, b, 0);
        }
    }
}

// ---------------------------------------------------------------------------------------------
// The twin peers (family "twins", see c10_twins.rs)
// ---------------------------------------------------------------------------------------------

impl<C: Crypto> Injector<'_, C> {
    /// The counter of the newest message the node sent to twin peer `k` (from the tap).
    fn last_ctr_to_twin(&self, tw: &TwinSpec, k: usize) -> Option<u32> {
        let pe = &tw.peers[k];
        let (addr, unsec) = match pe.kind {
            TwinKind::Unsec => (twin_addr(pe.addr_k), true),
            TwinKind::SecH => (self.addr[2], false),
            TwinKind::SecH2 => (h2_addr(), false),
        };
        let node = tw.node as usize;
        self.hub.with_tap(|t| {
            t.iter()
                .rev()
                .filter(|e| !e.injected && e.dgram.src == node && e.dgram.dst_addr == addr)
                .filter_map(|e| wire::peek(&e.dgram.bytes))
                .find(|i| {
                    if unsec {
                        i.session_id == 0 && i.dst_node.map(|d| d == twin_node(k as u8)).unwrap_or(true)
                    } else {
                        i.session_id != 0
                    }
                })
                .map(|i| i.ctr)
        })
    }

    /// Encodes one message of twin peer `k` and puts it on the wire.
    #[allow(clippy::too_many_arguments)]
    fn twin_wire(&self, tw: &TwinSpec, k: usize, seq: u16, opener: bool, sack: bool, op: OpClass, meta: (u16, u8), r: bool, ack: Option<u32>, payload: &[u8]) {
        let node = tw.node as usize;
        let pe = &tw.peers[k];
        let mut hp = HdrParams {
            sess_id: 0,
            ctr: 0,
            group: false,
            control: false,
            src: None,
            dst_uni: None,
            dst_grp: None,
            exch_id: pe.exch_id,
            proto_id: meta.0,
            opcode: meta.1,
            initiator: true,
            reliable: r,
            ack,
            vendor: None,
        };
        let mut skipped: Option<&'static str> = None;
        let (bytes, from): (Option<Vec<u8>>, Address) = match pe.kind {
            TwinKind::Unsec => {
                let c = self.twin_ctr[k].get();
                self.twin_ctr[k].set(c.wrapping_add(1));
                hp.ctr = c;
                hp.src = Some(twin_node(k as u8));
                (encode_plain(self.crypto, &hp, payload).ok(), twin_addr(pe.addr_k))
            }
            TwinKind::SecH => {
                let hs = &self.hs[node];
                let c = hs.ctr.get();
                hs.ctr.set(c.wrapping_add(1));
                hp.sess_id = SIDS[node][S_HOSTILE as usize];
                hp.ctr = c;
                (encode(self.crypto, &hp, &hs.k_h2n, if hs.pase { 0 } else { H_NODE }, payload).ok(), self.addr[2])
            }
            TwinKind::SecH2 => match &self.hs2 {
                Some(hs) => {
                    let c = hs.ctr.get();
                    hs.ctr.set(c.wrapping_add(1));
                    hp.sess_id = SIDS_H2[node];
                    hp.ctr = c;
                    (encode(self.crypto, &hp, &hs.k_h2n, if hs.pase { 0 } else { H2_NODE }, payload).ok(), h2_addr())
                }
                None => {
                    skipped = Some("no-h2-session");
                    (None, h2_addr())
                }
            },
        };
        if bytes.is_none() && skipped.is_none() {
            skipped = Some("encode-failed");
        }
        self.sh.log(
            node,
            EvKind::Twin {
                k: k as u8,
                peer: tw.code(k),
                kind: pe.kind,
                sess: pe.kind.sess_tag(),
                exch_id: pe.exch_id,
                seq,
                opener,
                sack,
                op,
                r,
                ack,
                ctr: hp.ctr,
                skipped,
            },
        );
        if let Some(b) = bytes {
            self.hub.inject(node, from, b, 0);
        }
    }

    #[allow(clippy::too_many_arguments)]
    fn twin_send(&self, tw: &TwinSpec, k: usize, seq: u16, opener: bool, op: OpClass, meta: (u16, u8), r: bool, ack: TwinAck, mode: u8, hold_ms: u16, last: bool) {
        let pe = &tw.peers[k];
        let tag = Tag {
            src: tw.code(k),
            dst: tw.node,
            sess: pe.kind.sess_tag(),
            exch_id: pe.exch_id,
            i: true,
            app: TWIN_APP0 + k as u8,
            seq,
            mode,
            last,
            hold_ms,
            dir: 0,
        };
        let payload = op_payload(op, &make_payload(&tag, (k * 11 + seq as usize * 3) % 32));
        let ack = match ack {
            TwinAck::None => None,
            TwinAck::Bogus => Some(0x0bad_1000 + seq as u32),
            TwinAck::Piggy => self.last_ctr_to_twin(tw, k),
            TwinAck::SackFirst => {
                if let Some(c) = self.last_ctr_to_twin(tw, k) {
                    self.twin_wire(tw, k, seq, false, true, OpClass::Sack, (0, 0x10), false, Some(c), &[]);
                }
                None
            }
        };
        self.twin_wire(tw, k, seq, opener, false, op, meta, r, ack, &payload);
    }

    /// Plays the twin peers' timeline (opening messages and follow-ups at their times).
    async fn run_twins(&self, tw: &TwinSpec) {
        // (time, order, peer, Some(step index) / None = opening message)
        let mut tl: Vec<(u32, usize, usize, Option<usize>)> = Vec::new();
        for (k, pe) in tw.peers.iter().enumerate() {
            tl.push((pe.open_ms, k, k, None));
        }
        for (i, s) in tw.steps.iter().enumerate() {
            tl.push((s.at_ms, 8 + i, s.peer as usize, Some(i)));
        }
        tl.sort();
        let mut seq = [0u16; 3];
        for (at, _, k, step) in tl {
            if k >= tw.peers.len() || k >= 3 {
                continue;
            }
            let t = self.sh.t0 + (tw.t_ms + at) as u64 * 1000;
            if t > clock::now() {
                sleep_until(t).await;
            }
            let pe = &tw.peers[k];
            match step {
                None => self.twin_send(tw, k, 0, true, pe.open_op, op_meta(pe.open_op), pe.open_r, TwinAck::None, pe.open_mode, pe.hold_ms, false),
                Some(i) => {
                    let s = &tw.steps[i];
                    seq[k] += 1;
                    let (op, meta) = match (s.op, pe.open_op, pe.kind) {
                        (0, OpClass::Pbkdf, _) => (OpClass::Data, (0u16, 0x22u8)), // PASEPake1
                        (0, OpClass::Sigma1, _) => (OpClass::Data, (0, 0x32)),   // CASESigma3
                        (2, _, _) => (OpClass::StatusOther, op_meta(OpClass::StatusOther)),
                        _ => (OpClass::Data, op_meta(OpClass::Data)),
                    };
                    self.twin_send(tw, k, seq[k], false, op, meta, s.r, s.ack, s.mode, s.hold_ms, s.last);
                }
            }
        }
    }
}

// ---------------------------------------------------------------------------------------------
// Outcome
// ---------------------------------------------------------------------------------------------

#[derive(Clone, Debug, Default)]
pub struct FinalNode {
    pub sessions: Vec<VerifSession>,
    pub rx_occupied: bool,
    pub tx_occupied: bool,
}

#[derive(Default)]
pub struct Outcome {
    pub events: Vec<Ev>,
    pub watch: [Watch; 2],
    pub status: Option<RunStatus>,
    pub end_time: u64,
    pub polls: u64,
    pub sched_hash: u64,
    pub panic: Option<String>,
    pub setup_error: Option<String>,
    pub t0: u64,
    pub fin: Option<[FinalNode; 2]>,
    /// datagrams sent by A / B in the last `TAIL_WINDOW_MS` of the quiet tail
    pub tail_datagrams: Option<usize>,
    pub tail_sample: Vec<String>,
    pub idle_reached: bool,
    pub datagrams: usize,
    pub net_stats: (u64, u64, u64, u64, u64),
    pub group_ready: bool,
    /// every datagram a node put on the wire: (time, source node, session id in the header, counter)
    pub wire: Vec<(u64, u8, u16, u32)>,
}

fn install_session<C: Crypto>(
    m: &Matter<'_>,
    crypto: &C,
    local_node: u64,
    peer_node: u64,
    peer_sid: u16,
    local_sid: u16,
    peer_addr: Address,
    mode: SessionMode,
    dec: &Key,
    enc: &Key,
) -> Result<u32, String> {
    let mut s = ReservedSession::reserve_now(m, crypto).map_err(|e| format!("reserve {:?}", e.code()))?;
    s.update(
        local_node,
        peer_node,
        peer_sid,
        local_sid,
        peer_addr,
        mode,
        Some(key_of(dec).reference()),
        Some(key_of(enc).reference()),
        None,
        None,
    )
    .map_err(|e| format!("update {:?}", e.code()))?;
    s.complete();
    drop(s);
    node::session_id_by_local(m, local_sid).ok_or_else(|| "session not found after install".to_string())
}

pub fn run_case(p: &Params) -> Outcome {
    clock::reset(1_000_000);
    let t0 = clock::now();
    let mut out = Outcome {
        t0,
        ..Default::default()
    };
    let mut rng = Rng::new(p.seed);
    let crypto_a = node::crypto(rng.fork());
    let crypto_b = node::crypto(rng.fork());
    let crypto_h = node::crypto(rng.fork());
    let crypto_s = node::crypto(rng.fork());

    let ma: Box<Matter<'static>> = Box::new(Matter::new(&TEST_DEV_DET, TEST_DEV_COMM, &TEST_DEV_ATT, 5540));
    let mb: Box<Matter<'static>> = Box::new(Matter::new(&TEST_DEV_DET, TEST_DEV_COMM, &TEST_DEV_ATT, 5540));
    for m in [&ma, &mb] {
        for _ in 0..2 {
            let r = m.with_state(|s| s.fabrics.add_with_post_init(|_| Ok(())).map(|_| ()));
            if let Err(e) = r {
                out.setup_error = Some(format!("fabric: {:?}", e.code()));
                return out;
            }
        }
    }
    let fab1 = NonZeroU8::new(1).unwrap();
    let fab2 = NonZeroU8::new(2).unwrap();

    let hub = NetHub::new(rng.u64(), 3);
    hub.set_up(2, false);
    let addr = [hub.addr(0), hub.addr(1), hub.addr(2)];

    // ---- the smallest table configuration (cargo feature `small-tables`: 3 sessions x 3 exchanges):
    // the world is cut down to what fits - disturbed session 0, the probe session and the session
    // with H (a full table); a twins scenario keeps only the probe session, which leaves two entries
    // for the unsecured twin peers. No group key ring, no filler sessions.
    let small = SMALL_TABLES;
    let twin_small = small && p.twins.is_some();
    let install_tags: &[usize] = if !small {
        &[0, 1, 2]
    } else if twin_small {
        &[2]
    } else {
        &[0, 2]
    };
    let install_h = !twin_small;

    // ---- group keys at B (real fabric, via the C03 key ring builder)
    let mut kr: Option<Keyring> = None;
    if p.group && !small {
        let mut grng = rng.fork();
        match catch_unwind(AssertUnwindSafe(|| build_keyring_and_node(&mut grng, &mb, &crypto_s, addr[2]))) {
            Ok(Ok(k)) => {
                let mut mine: Vec<u16> = SIDS[1].to_vec();
                if p.twins.as_ref().map(|t| t.needs_h2()).unwrap_or(false) {
                    mine.push(SIDS_H2[1]);
                }
                let clash = k.gk.iter().any(|g| mine.contains(&g.sid)) || k.uni.iter().any(|u| mine.contains(&u.local_sid));
                if clash {
                    out.setup_error = Some("session-id-clash-with-group-keyring".into());
                    return out;
                }
                kr = Some(k);
            }
            Ok(Err(e)) => {
                out.setup_error = Some(format!("group-setup: {}", e));
                return out;
            }
            Err(_) => {
                out.setup_error = Some("group-setup: panic".into());
                return out;
            }
        }
    }
    out.group_ready = kr.is_some();

    // ---- sessions A <-> B (tags 0, 1, 2)
    let mut sess_a: [Option<u32>; 4] = [None; 4];
    let mut sess_b: [Option<u32>; 4] = [None; 4];
    for tag in 0..3usize {
        let mut k1 = [0u8; 16];
        let mut k2 = [0u8; 16];
        rand_core::RngCore::fill_bytes(&mut rng, &mut k1);
        rand_core::RngCore::fill_bytes(&mut rng, &mut k2);
        if !install_tags.contains(&tag) {
            continue;
        }
        let pase = tag == 1 && p.s1_pase;
        let (an, bn) = if pase { (0, 0) } else { (A_NODE, B_NODE) };
        let mode = || {
            if pase {
                SessionMode::Pase { fab_idx: 0 }
            } else {
                SessionMode::Case {
                    fab_idx: fab1,
                    cat_ids: Default::default(),
                }
            }
        };
        match node::mirrored_sessions(&ma, &mb, &crypto_s, addr[0], addr[1], an, bn, SIDS[0][tag], SIDS[1][tag], mode(), mode(), &k1, &k2) {
            Ok((ia, ib)) => {
                sess_a[tag] = Some(ia);
                sess_b[tag] = Some(ib);
            }
            Err(e) => {
                out.setup_error = Some(format!("mirrored_sessions: {:?}", e.code()));
                return out;
            }
        }
    }
    // ---- sessions with H (tag 3)
    let mut hs: Vec<HSess> = Vec::new();
    for n in 0..2usize {
        let mut k_h2n = [0u8; 16];
        let mut k_n2h = [0u8; 16];
        rand_core::RngCore::fill_bytes(&mut rng, &mut k_h2n);
        rand_core::RngCore::fill_bytes(&mut rng, &mut k_n2h);
        let m: &Matter<'_> = if n == 0 { &ma } else { &mb };
        let (ln, pn, mode) = if p.sh_pase {
            (0, 0, SessionMode::Pase { fab_idx: 0 })
        } else {
            (
                if n == 0 { A_NODE } else { B_NODE },
                H_NODE,
                SessionMode::Case {
                    fab_idx: fab2,
                    cat_ids: Default::default(),
                },
            )
        };
        if !install_h {
            hs.push(HSess {
                k_h2n,
                k_n2h,
                pase: p.sh_pase,
                ctr: Cell::new(1 + rng.below(1 << 27) as u32),
            });
            continue;
        }
        match install_session(m, &crypto_s, ln, pn, H_SIDS[n], SIDS[n][3], addr[2], mode, &k_h2n, &k_n2h) {
            Ok(id) => {
                if n == 0 {
                    sess_a[3] = Some(id)
                } else {
                    sess_b[3] = Some(id)
                }
            }
            Err(e) => {
                out.setup_error = Some(format!("hostile session: {}", e));
                return out;
            }
        }
        hs.push(HSess {
            k_h2n,
            k_n2h,
            pase: p.sh_pase,
            ctr: Cell::new(1 + rng.below(1 << 27) as u32),
        });
    }
    // ---- H2's session with the twins' target node (twin scenarios with a second secure peer)
    let mut trng = Rng::new(subseed(p.seed, &[31]));
    let mut hs2: Option<HSess> = None;
    if let Some(tw) = p.twins.as_ref().filter(|t| t.needs_h2()) {
        let n = (tw.node as usize).min(1);
        let mut k_h2n = [0u8; 16];
        let mut k_n2h = [0u8; 16];
        rand_core::RngCore::fill_bytes(&mut trng, &mut k_h2n);
        rand_core::RngCore::fill_bytes(&mut trng, &mut k_n2h);
        let m: &Matter<'_> = if n == 0 { &ma } else { &mb };
        let (ln, pn, mode) = if p.sh_pase {
            (0, 0, SessionMode::Pase { fab_idx: 0 })
        } else {
            (
                if n == 0 { A_NODE } else { B_NODE },
                H2_NODE,
                SessionMode::Case {
                    fab_idx: fab2,
                    cat_ids: Default::default(),
                },
            )
        };
        // (when the table has no room the H2 twin peer stays silent: its messages are logged as skipped)
        if install_session(m, &crypto_s, ln, pn, H2_SIDS[n], SIDS_H2[n], h2_addr(), mode, &k_h2n, &k_n2h).is_ok() {
            hs2 = Some(HSess {
                k_h2n,
                k_n2h,
                pase: p.sh_pase,
                ctr: Cell::new(1 + trng.below(1 << 27) as u32),
            });
        }
    }
    let twin_ctr0 = [1 + trng.below(1 << 27) as u32, 1 + trng.below(1 << 27) as u32, 1 + trng.below(1 << 27) as u32];
    // ---- idle filler sessions
    let mut dummies: [Vec<u32>; 2] = [Vec::new(), Vec::new()];
    if p.fill && !small {
        for n in 0..2usize {
            let m: &Matter<'_> = if n == 0 { &ma } else { &mb };
            let mut k = 0u16;
            while node::snapshot(m).len() < 15 && k < 16 {
                let mut k1 = [0u8; 16];
                let mut k2 = [0u8; 16];
                rand_core::RngCore::fill_bytes(&mut rng, &mut k1);
                rand_core::RngCore::fill_bytes(&mut rng, &mut k2);
                let mode = SessionMode::Case {
                    fab_idx: fab1,
                    cat_ids: Default::default(),
                };
                match install_session(m, &crypto_s, if n == 0 { A_NODE } else { B_NODE }, 0xD000 + k as u64, 0x6000 + k, 0x5000 + 0x100 * n as u16 + k, addr[2], mode, &k1, &k2) {
                    Ok(id) => dummies[n].push(id),
                    Err(e) => {
                        out.setup_error = Some(format!("filler session: {}", e));
                        return out;
                    }
                }
                k += 1;
            }
        }
    }

    // ---- adversary for the disturbance phase
    {
        let (dr, du, de, md) = p.net;
        let pol = RandomPolicy {
            drop_pct: dr,
            dup_pct: du,
            delay_pct: de,
            max_delay_ms: md,
        };
        let pol_probe = RandomPolicy { drop_pct: 0, ..pol };
        let h_addr = addr[2];
        hub.set_adversary(Some(Box::new(move |d, rng| {
            if d.dst_addr == h_addr {
                return vec![crate::sim::net::Delivery::normal()];
            }
            let probe_sess = wire::peek(&d.bytes).map(|i| i.session_id == SIDS[0][2] || i.session_id == SIDS[1][2]).unwrap_or(false);
            if probe_sess {
                pol_probe.decide(rng)
            } else {
                pol.decide(rng)
            }
        })));
    }

    let shared = Shared {
        log: RefCell::new(Vec::new()),
        next_hid: Cell::new(1),
        busy: [Cell::new(0), Cell::new(0)],
        accepted: [Cell::new(0), Cell::new(0)],
        t0,
        phase: Cell::new(0),
        b_clients_done: Cell::new(false),
        watch: [RefCell::new(Watch::default()), RefCell::new(Watch::default())],
    };
    shared.watch[0].borrow_mut().enabled = true;
    shared.watch[1].borrow_mut().enabled = true;

    let mk_profile = |n: usize| {
        let mut v = Vec::new();
        let mut t = t0;
        for (dur, d) in &p.profile[n] {
            let e = (t + *dur as u64 * 1000).min(t0 + PROFILE_MS * 1000);
            if e > t {
                v.push((t, e, *d));
            }
            t = e;
        }
        v
    };

    let limits = Limits {
        max_polls: 400_000,
        horizon: t0 + 900 * clock::TICKS_PER_SEC,
        shuffle: p.shuffle,
    };
    let fin: RefCell<Option<[FinalNode; 2]>> = RefCell::new(None);
    let tail: RefCell<Option<(usize, Vec<String>)>> = RefCell::new(None);
    let idle_reached = Cell::new(false);

    let run = {
        let ma: &Matter<'_> = &ma;
        let mb: &Matter<'_> = &mb;
        let sh = &shared;
        let nca = NodeCtx {
            idx: 0,
            m: ma,
            crypto: &crypto_a,
            sess: Cell::new(sess_a),
            profile: mk_profile(0),
            hcancel: p.hcancel[0].clone(),
            sh,
        };
        let ncb = NodeCtx {
            idx: 1,
            m: mb,
            crypto: &crypto_b,
            sess: Cell::new(sess_b),
            profile: mk_profile(1),
            hcancel: p.hcancel[1].clone(),
            sh,
        };
        let mut hs_it = hs.into_iter();
        let inj = Injector {
            hub: &hub,
            crypto: &crypto_h,
            sh,
            matters: [ma, mb],
            hs: [hs_it.next().unwrap(), hs_it.next().unwrap()],
            kr: kr.map(RefCell::new),
            addr,
            unsec_ctr: Cell::new(1 + rng.below(1 << 27) as u32),
            s1_pase: p.s1_pase,
            fill: p.fill && !small,
            hs2,
            twin_ctr: [Cell::new(twin_ctr0[0]), Cell::new(twin_ctr0[1]), Cell::new(twin_ctr0[2])],
        };
        let seed = p.seed;
        let shuffle = p.shuffle;
        let mut exec_rng = Rng::new(subseed(seed, &[7]));
        let hub_ref = &hub;
        let probe_crypto = &crypto_s;
        let dummies = &dummies;
        let fin = &fin;
        let tail = &tail;
        let idle_reached = &idle_reached;
        let nca = &nca;
        let ncb = &ncb;
        let inj = &inj;
        catch_unwind(AssertUnwindSafe(move || {
            // ---------------- script (node A's task)
            let script: BoxFut = Box::pin(async move {
                let mut kids: Vec<BoxFut> = Vec::new();
                for (ci, spec) in p.clients.iter().enumerate() {
                    if spec.node == 0 {
                        kids.push(Box::pin(client(nca, ci as u8, spec)));
                    }
                }
                // the injector and the expiry
                kids.push(Box::pin(async move {
                    let mut order: Vec<usize> = (0..p.injs.len()).collect();
                    order.sort_by_key(|i| p.injs[*i].t_ms);
                    for i in order {
                        let at = sh.t0 + p.injs[i].t_ms as u64 * 1000;
                        if at > clock::now() {
                            sleep_until(at).await;
                        }
                        inj.inject(i, &p.injs[i]);
                    }
                }));
                if let Some(tw) = p.twins.as_ref() {
                    kids.push(Box::pin(inj.run_twins(tw)));
                }
                if let Some((t_ms, n, s)) = p.expire {
                    kids.push(Box::pin(async move {
                        sleep_until(sh.t0 + t_ms as u64 * 1000).await;
                        let nc_sess = if n == 0 { nca.sess.get() } else { ncb.sess.get() };
                        let m = if n == 0 { nca.m } else { ncb.m };
                        let done = match nc_sess[s as usize] {
                            Some(id) => {
                                // what RemoveFabric does for the session the command arrived on
                                m.with_state(|st| st.verif_sessions_mut().remove_for_fabric(NonZeroU8::new(7).unwrap(), Some(id)));
                                node::snapshot(m).iter().any(|x| x.id == id && x.expired)
                            }
                            None => false,
                        };
                        sh.log(n as usize, EvKind::Expire { node: n, sess: s, done });
                    }));
                }
                JoinAll::new(subseed(seed, &[13]), shuffle, kids).await;
                // B's clients
                for _ in 0..6000 {
                    if sh.b_clients_done.get() {
                        break;
                    }
                    exec::sleep_ms(20).await;
                }
                // the acceptor profiles (late / never accept) are part of the disturbance
                let profile_end = sh.t0 + (PROFILE_MS + 10) * 1000;
                if clock::now() < profile_end {
                    sleep_until(profile_end).await;
                }
                // ---- faults stop
                hub_ref.set_adversary(None);
                sh.phase.set(2);
                sh.log(0, EvKind::Phase(2));
                // idle = no handler running for a whole second: datagrams of the disturbance phase may
                // still be queued in front of a node whose RX slot was held until this very moment (a
                // message for an owned exchange whose owner was sending); they are accepted - and their
                // handlers start - only now
                let mut idle_for = 0;
                for _ in 0..(IDLE_WAIT_MS / 50) {
                    if sh.busy[0].get() == 0 && sh.busy[1].get() == 0 {
                        idle_for += 1;
                        if idle_for > 20 {
                            idle_reached.set(true);
                            break;
                        }
                    } else {
                        idle_for = 0;
                    }
                    exec::sleep_ms(50).await;
                }
                // ---- probes on the unaffected session. Nothing in the workload touches the probe
                // session, but it may still have been lost to the disturbance (its CASE session
                // expires when a send runs out of retransmissions while the node's single RX slot
                // is held by somebody else's message): then a brand-new session is as unaffected.
                {
                    let st = |nc: &NodeCtx<'_, _>| {
                        let id = nc.sess.get()[S_PROBE as usize];
                        node::snapshot(nc.m).iter().find(|s| Some(s.id) == id).map(|s| s.expired)
                    };
                    let (sa, sb) = (st(nca), st(ncb));
                    if sa != Some(false) || sb != Some(false) {
                        // make room in a filled table (an idle filler session has no waiters)
                        // (as many as it takes: unsecured sessions of the disturbance phase may have
                        // evicted the first filler and taken its place)
                        if small {
                            // no fillers: idle unsecured sessions and expired sessions without
                            // exchanges give way
                            for nc in [nca, ncb] {
                                let old_probe = nc.sess.get()[S_PROBE as usize];
                                for s in node::snapshot(nc.m) {
                                    // (the surviving half of the lost probe session is of no use either)
                                    if s.exchanges.is_empty() && !s.reserved && (!s.encrypted || s.expired || Some(s.id) == old_probe) {
                                        nc.m.with_state(|st| {
                                            st.verif_sessions_mut().remove(s.id);
                                        });
                                    }
                                }
                            }
                        }
                        for (nc, d) in [(nca, &dummies[0]), (ncb, &dummies[1])] {
                            for id in d.iter() {
                                let snap = node::snapshot(nc.m);
                                if snap.len() < 15 {
                                    break;
                                }
                                if snap.iter().any(|s| s.id == *id) {
                                    nc.m.with_state(|st| {
                                        st.verif_sessions_mut().remove(*id);
                                    });
                                }
                            }
                        }
                        let mut krng = Rng::new(subseed(seed, &[21]));
                        let mut k1 = [0u8; 16];
                        let mut k2 = [0u8; 16];
                        rand_core::RngCore::fill_bytes(&mut krng, &mut k1);
                        rand_core::RngCore::fill_bytes(&mut krng, &mut k2);
                        let mode = || SessionMode::Case {
                            fab_idx: NonZeroU8::new(1).unwrap(),
                            cat_ids: Default::default(),
                        };
                        let r = node::mirrored_sessions(nca.m, ncb.m, probe_crypto, addr[0], addr[1], A_NODE, B_NODE, SIDS_ALT[0], SIDS_ALT[1], mode(), mode(), &k1, &k2);
                        if let Ok((ia, ib)) = &r {
                            let mut x = nca.sess.get();
                            x[S_PROBE as usize] = Some(*ia);
                            nca.sess.set(x);
                            let mut x = ncb.sess.get();
                            x[S_PROBE as usize] = Some(*ib);
                            ncb.sess.set(x);
                        }
                        sh.log(
                            0,
                            EvKind::ProbeSessionReplaced {
                                lost_at: if sa != Some(false) { 0 } else { 1 },
                                expired: sa == Some(true) || sb == Some(true),
                                installed: r.is_ok(),
                            },
                        );
                    }
                }
                probe(nca, 0).await;
                sh.phase.set(3);
                for _ in 0..((PROBE_BOUND_MS + 10_000) / 20) {
                    if sh.phase.get() == 4 {
                        break;
                    }
                    exec::sleep_ms(20).await;
                }
                sh.log(0, EvKind::Phase(5));
                // ---- quiet tail
                exec::sleep_ms(5_000).await;
                sh.watch[0].borrow_mut().enabled = false;
                sh.watch[1].borrow_mut().enabled = false;
                exec::sleep_ms(TAIL_MS - TAIL_WINDOW_MS - 5_000).await;
                let mark = hub_ref.tap_len();
                exec::sleep_ms(TAIL_WINDOW_MS).await;
                let (n, sample) = hub_ref.with_tap(|t| {
                    let late: Vec<&crate::sim::net::WireEvent> = t[mark..].iter().filter(|e| !e.injected).collect();
                    let sample = late
                        .iter()
                        .take(6)
                        .map(|e| {
                            let i = wire::peek(&e.dgram.bytes);
                            format!(
                                "t={}ms src={} len={} sess={:#06x} ctr={:?}",
                                (e.dgram.t - sh.t0) / 1000,
                                e.dgram.src,
                                e.dgram.bytes.len(),
                                i.as_ref().map(|i| i.session_id).unwrap_or(0),
                                i.as_ref().map(|i| i.ctr)
                            )
                        })
                        .collect();
                    (late.len(), sample)
                });
                *tail.borrow_mut() = Some((n, sample));
                let f = |m: &Matter<'_>| {
                    let s = m.transport().verif_slots();
                    FinalNode {
                        sessions: node::snapshot(m),
                        rx_occupied: s.rx_occupied,
                        tx_occupied: s.tx_occupied,
                    }
                };
                *fin.borrow_mut() = Some([f(nca.m), f(ncb.m)]);
            });

            // ---------------- node A
            let node_a: BoxFut = {
                let ep = hub_ref.endpoint(0);
                let mut kids: Vec<BoxFut> = vec![script];
                kids.push(Box::pin(async move {
                    let _ = nca.m.run(nca.crypto, ep.clone(), ep.clone(), ep.clone()).await;
                }));
                for k in 0..p.slots {
                    kids.push(Box::pin(slot(nca, k)));
                }
                kids.push(Box::pin(rx_sampler(nca)));
                let inner: BoxFut = Box::pin(exec::ShuffleSelect::new(subseed(seed, &[11]), shuffle, kids));
                Box::pin(Watched {
                    inner,
                    after: move || {
                        if sh.watch[0].borrow().enabled {
                            let snap = node::snapshot(nca.m);
                            sh.watch[0].borrow_mut().observe(0, &snap);
                        }
                    },
                })
            };
            // ---------------- node B
            let node_b: BoxFut = {
                let ep = hub_ref.endpoint(1);
                let mut kids: Vec<BoxFut> = Vec::new();
                kids.push(Box::pin(async move {
                    let _ = ncb.m.run(ncb.crypto, ep.clone(), ep.clone(), ep.clone()).await;
                }));
                for k in 0..p.slots {
                    kids.push(Box::pin(slot(ncb, k)));
                }
                kids.push(Box::pin(rx_sampler(ncb)));
                kids.push(Box::pin(async move {
                    let mut cl: Vec<BoxFut> = Vec::new();
                    for (ci, spec) in p.clients.iter().enumerate() {
                        if spec.node == 1 {
                            cl.push(Box::pin(client(ncb, ci as u8, spec)));
                        }
                    }
                    JoinAll::new(subseed(seed, &[14]), shuffle, cl).await;
                    sh.b_clients_done.set(true);
                    loop {
                        if sh.phase.get() == 3 {
                            break;
                        }
                        exec::sleep_ms(20).await;
                    }
                    probe(ncb, 0).await;
                    sh.phase.set(4);
                    core::future::pending::<()>().await;
                }));
                let inner: BoxFut = Box::pin(exec::ShuffleSelect::new(subseed(seed, &[12]), shuffle, kids));
                Box::pin(Watched {
                    inner,
                    after: move || {
                        if sh.watch[1].borrow().enabled {
                            let snap = node::snapshot(ncb.m);
                            sh.watch[1].borrow_mut().observe(1, &snap);
                        }
                    },
                })
            };
            exec::run(&mut exec_rng, limits, vec![node_a, node_b])
        }))
    };

    hub.set_adversary(None);
    match run {
        Ok(o) => {
            out.status = Some(o.status);
            out.sched_hash = o.sched_hash;
            out.end_time = o.end_time;
            out.polls = o.polls;
        }
        Err(e) => {
            out.panic = Some(crate::util::panic_msg(&e));
            out.end_time = clock::now();
        }
    }
    out.events = shared.log.borrow().clone();
    out.watch = [shared.watch[0].take(), shared.watch[1].take()];
    out.fin = fin.into_inner();
    if let Some((n, s)) = tail.into_inner() {
        out.tail_datagrams = Some(n);
        out.tail_sample = s;
    }
    out.idle_reached = idle_reached.get();
    out.datagrams = hub.tap_len();
    out.wire = hub.with_tap(|t| {
        t.iter()
            .filter(|e| !e.injected)
            .filter_map(|e| wire::peek(&e.dgram.bytes).map(|i| (e.dgram.t, e.dgram.src as u8, i.session_id, i.ctr)))
            .collect()
    });
    out.net_stats = hub.stats();

    if std::env::var("RSMV_TRACE").is_ok() {
        dump_trace(p, &out, &hub);
    }
    out
}

fn dump_trace(p: &Params, o: &Outcome, hub: &NetHub) {
    eprintln!("=== C10 scenario: {:?}", p);
    eprintln!("=== status {:?} end {} polls {} panic {:?} setup {:?} idle {}", o.status, o.end_time, o.polls, o.panic, o.setup_error, o.idle_reached);
    let mut lines: Vec<(u64, u8, String)> = Vec::new();
    for e in &o.events {
        lines.push((e.t, 1, format!("APP  {} {:?}", ["A", "B", "H"][e.node.min(2) as usize], e.kind)));
    }
    hub.with_tap(|t| {
        for ev in t {
            let i = wire::peek(&ev.dgram.bytes);
            lines.push((
                ev.dgram.t,
                0,
                format!(
                    "WIRE {}>{:?} len={:>3} sess={:#06x} ctr={:?} deliveries={:?}{}",
                    if ev.injected { "H".to_string() } else { ["A", "B", "H"][ev.dgram.src.min(2)].to_string() },
                    ev.dgram.dst,
                    ev.dgram.bytes.len(),
                    i.as_ref().map(|i| i.session_id).unwrap_or(0),
                    i.as_ref().map(|i| i.ctr),
                    ev.deliveries,
                    if ev.injected { " [injected]" } else { "" }
                ),
            ));
        }
    });
    lines.sort_by_key(|l| (l.0, l.1));
    for (t, _, s) in lines {
        eprintln!("t={:>10} {}", t.saturating_sub(o.t0), s);
    }
    for n in 0..2 {
        let mut all = o.watch[n].all();
        all.sort_by_key(|(_, iv)| iv.first);
        for (k, iv) in all {
            eprintln!(
                "EXCH node {} {:?} first {} last {} ap {} owned {} dropped {}",
                n,
                k,
                iv.first.saturating_sub(o.t0),
                iv.last.saturating_sub(o.t0),
                iv.accept_pending_seen,
                iv.owned_seen,
                iv.dropped_seen
            );
        }
        for (id, (tag, sw)) in &o.watch[n].sessions {
            eprintln!("SESS node {} id {} tag {:#x} {:?}", n, id, tag, sw);
        }
    }
    if let Some(f) = &o.fin {
        for (n, x) in f.iter().enumerate() {
            eprintln!("FINAL node {} rx_occupied {} tx_occupied {}", n, x.rx_occupied, x.tx_occupied);
            for s in &x.sessions {
                eprintln!("   session {} sid {:#06x} expired {} exchanges {:?}", s.id, s.local_sess_id, s.expired, s.exchanges);
            }
        }
    }
    eprintln!("TAIL datagrams in last window: {:?} {:?}", o.tail_datagrams, o.tail_sample);
}
