//! C13 — device side: a data model whose attribute VALUES ARE VERSION NUMBERS, the
//! device life cycle (boot / run / restart from the same key-value store) and the
//! device-side script (attribute changes, events, restarts) with its log.

use core::num::NonZeroU8;
use std::cell::{Cell, RefCell};
use std::collections::BTreeMap;

use embassy_time::{Instant, Timer};

use rs_matter::acl::{AclEntry, AuthMode};
use rs_matter::dm::clusters::net_comm::DummyNetworks;
use rs_matter::dm::devices::DEV_TYPE_ON_OFF_LIGHT;
use rs_matter::dm::{
    Access, AsyncHandler, AttrChangeNotifier, Attribute, Cluster, Dataver, Endpoint, Event,
    EventEmitter, MatchContext, Node, Privilege, Quality, ReadContext, ReadReply, Reply,
};
use rs_matter::error::Error;
use rs_matter::im::events::EVENT_DATA_TAG;
use rs_matter::im::{EventPriority, InteractionModel, InteractionModelState};
use rs_matter::respond::Responder;
use rs_matter::tlv::{Octets, TLVWrite};
use rs_matter::transport::exchange::MatterBuffers;
use rs_matter::transport::network::mdns::{DottedName, MdnsRemoteService};
use rs_matter::transport::network::{Address, MatterRemoteService};
use rs_matter::Matter;
use rs_matter::{attributes, events, with};

use crate::sim::exec::{self, BoxFut};
use crate::sim::kv::SimKv;
use crate::sim::net::NetHub;
use crate::sim::node::{self, FabricCa, NodeCreds};
use crate::sim::rng::{subseed, Rng};
use crate::sim::clock;

pub const DEV_NODE: u64 = 0xD001;
pub const SUB_NODE_BASE: u64 = 0x5000;

pub const EPS: [u16; 2] = [1, 2];
pub const CLUSTERS: [u32; 2] = [0xAB01, 0xAB02];
pub const N_ATTRS: u32 = 8;
pub const EVENT_IDS: [u32; 2] = [1, 2];
/// Encoded size of one attribute value (octet string); chosen so that the 32 attributes
/// need at least 3 ReportData chunks.
pub const VALUE_LEN: usize = 40;

/// Subscription table size and events buffer (per priority ring) of the device.
pub const NS: usize = 8;
pub const NE: usize = 4096;

/// (endpoint, cluster, attribute)
pub type Path = (u16, u32, u32);

pub fn all_paths() -> Vec<Path> {
    let mut v = Vec::new();
    for ep in EPS {
        for cl in CLUSTERS {
            for a in 0..N_ATTRS {
                v.push((ep, cl, a));
            }
        }
    }
    v
}

macro_rules! ver_cluster {
    ($id:expr) => {
        Cluster {
            id: $id,
            revision: 1,
            feature_map: 0,
            attributes: attributes!(
                Attribute::new(0, Access::RV, Quality::NONE),
                Attribute::new(1, Access::RV, Quality::NONE),
                Attribute::new(2, Access::RV, Quality::NONE),
                Attribute::new(3, Access::RV, Quality::NONE),
                Attribute::new(4, Access::RV, Quality::NONE),
                Attribute::new(5, Access::RV, Quality::NONE),
                Attribute::new(6, Access::RV, Quality::NONE),
                Attribute::new(7, Access::RV, Quality::NONE),
            ),
            commands: &[],
            events: events!(Event::new(1, Access::RV), Event::new(2, Access::RV),),
            with_attrs: with!(all),
            with_cmds: with!(all),
            with_events: with!(all),
        }
    };
}

pub const CLUSTER_A: Cluster<'static> = ver_cluster!(0xAB01);
pub const CLUSTER_B: Cluster<'static> = ver_cluster!(0xAB02);

pub const NODE: Node<'static> = Node {
    endpoints: &[
        Endpoint::new(1, &[DEV_TYPE_ON_OFF_LIGHT], &[CLUSTER_A, CLUSTER_B]),
        Endpoint::new(2, &[DEV_TYPE_ON_OFF_LIGHT], &[CLUSTER_A, CLUSTER_B]),
    ],
};

/// How the harness tells the Interaction Model about a change.
#[derive(Clone, Copy, Debug, PartialEq, Eq)]
pub enum Notify {
    Attr,
    Cluster,
    Endpoint,
    All,
}

#[derive(Clone, Debug)]
pub enum DevAct {
    /// Bump the version of every path, then notify.
    Bump { paths: Vec<Path>, notify: Notify },
    Emit { ep: u16, cluster: u32, event: u32 },
    /// Drop every rs-matter object of the device, stay down, then rebuild from the same KV.
    Restart { down_ms: u64 },
}

#[derive(Clone, Debug)]
pub struct DevStep {
    /// Virtual ms after scenario start.
    pub t_ms: u64,
    pub act: DevAct,
}

#[derive(Clone, Debug)]
pub enum DevEv {
    Boot { t: u64, boot: u32, resumed_records: usize },
    Down { t: u64 },
    Change { t: u64, path: Path, version: u32, notify: Notify, boot: u32 },
    Event { t: u64, ep: u16, cluster: u32, event: u32, number: Option<u64>, payload: u64, boot: u32 },
    Error { t: u64, what: String },
}

impl DevEv {
    pub fn t(&self) -> u64 {
        match self {
            DevEv::Boot { t, .. }
            | DevEv::Down { t }
            | DevEv::Change { t, .. }
            | DevEv::Event { t, .. }
            | DevEv::Error { t, .. } => *t,
        }
    }
}

/// Application state of the device that survives a restart (the "flash" of the app):
/// attribute versions; plus the device log.
pub struct DevStore {
    pub versions: RefCell<BTreeMap<Path, u32>>,
    pub log: RefCell<Vec<DevEv>>,
    pub next_payload: Cell<u64>,
    pub reads: Cell<u64>,
    pub boot: Cell<u32>,
}

impl DevStore {
    pub fn new() -> Self {
        let mut versions = BTreeMap::new();
        for p in all_paths() {
            versions.insert(p, 0u32);
        }
        Self {
            versions: RefCell::new(versions),
            log: RefCell::new(Vec::new()),
            next_payload: Cell::new(1),
            reads: Cell::new(0),
            boot: Cell::new(0),
        }
    }

    pub fn version(&self, p: &Path) -> u32 {
        self.versions.borrow().get(p).copied().unwrap_or(0)
    }
}

pub fn encode_value(p: &Path, version: u32) -> [u8; VALUE_LEN] {
    let mut b = [0xA5u8; VALUE_LEN];
    b[0..4].copy_from_slice(&version.to_le_bytes());
    b[4..6].copy_from_slice(&p.0.to_le_bytes());
    b[6..10].copy_from_slice(&p.1.to_le_bytes());
    b[10..14].copy_from_slice(&p.2.to_le_bytes());
    b
}

/// Returns (version, path encoded in the value) or None if the value is not one of ours.
pub fn decode_value(b: &[u8]) -> Option<(u32, Path)> {
    if b.len() != VALUE_LEN {
        return None;
    }
    let v = u32::from_le_bytes(b[0..4].try_into().ok()?);
    let ep = u16::from_le_bytes(b[4..6].try_into().ok()?);
    let cl = u32::from_le_bytes(b[6..10].try_into().ok()?);
    let at = u32::from_le_bytes(b[10..14].try_into().ok()?);
    if b[14..].iter().any(|x| *x != 0xA5) {
        return None;
    }
    Some((v, (ep, cl, at)))
}

/// The cluster handler: value of an attribute = its current version.
pub struct VerHandler<'a> {
    store: &'a DevStore,
    dataver: [[Dataver; 2]; 2],
}

impl<'a> VerHandler<'a> {
    pub fn new(store: &'a DevStore, rng: &mut Rng) -> Self {
        Self {
            store,
            dataver: [
                [Dataver::new(rng.u32()), Dataver::new(rng.u32())],
                [Dataver::new(rng.u32()), Dataver::new(rng.u32())],
            ],
        }
    }

    fn dv(&self, ep: u16, cl: u32) -> Option<&Dataver> {
        let e = EPS.iter().position(|x| *x == ep)?;
        let c = CLUSTERS.iter().position(|x| *x == cl)?;
        Some(&self.dataver[e][c])
    }
}

impl AsyncHandler for VerHandler<'_> {
    fn read_awaits(&self, _ctx: impl ReadContext) -> bool {
        false
    }

    async fn read(&self, ctx: impl ReadContext, reply: impl ReadReply) -> Result<(), Error> {
        let attr = ctx.attr();
        let Some(dv) = self.dv(attr.endpoint_id, attr.cluster_id) else {
            return Err(rs_matter::error::ErrorCode::ClusterNotFound.into());
        };
        if let Some(writer) = reply.with_dataver(dv.get())? {
            if attr.is_system() {
                let cl = if attr.cluster_id == CLUSTER_A.id { &CLUSTER_A } else { &CLUSTER_B };
                cl.read(attr, writer)
            } else {
                let p = (attr.endpoint_id, attr.cluster_id, attr.attr_id);
                let v = self.store.version(&p);
                self.store.reads.set(self.store.reads.get() + 1);
                let val = encode_value(&p, v);
                writer.set(Octets(&val[..]))
            }
        } else {
            Ok(())
        }
    }

    fn bump_dataver(&self, ctx: impl MatchContext) {
        for (ei, ep) in EPS.iter().enumerate() {
            for (ci, cl) in CLUSTERS.iter().enumerate() {
                let ep_ok = ctx.endpt().map(|e| e == *ep).unwrap_or(true);
                let cl_ok = ctx.cluster().map(|c| c == *cl).unwrap_or(true);
                if ep_ok && cl_ok {
                    self.dataver[ei][ci].changed();
                }
            }
        }
    }
}

/// Everything the device task needs; lives outside the boots.
pub struct DevEnv<'e> {
    pub hub: NetHub,
    pub kv: SimKv,
    pub store: &'e DevStore,
    pub ca: &'e FabricCa,
    pub creds: &'e NodeCreds,
    pub n_subs: usize,
    pub seed: u64,
    pub shuffle: bool,
    pub steps: &'e [DevStep],
    /// Virtual time (ticks) of scenario start.
    pub t0: u64,
    pub now_matter_secs: u32,
}

pub fn sub_node_id(idx: usize) -> u64 {
    SUB_NODE_BASE + idx as u64
}

/// Install the fabric (device credentials) + one ACL entry granting Administer to every
/// subscriber node id.
pub fn install_device_fabric(
    env: &DevEnv<'_>,
    matter: &Matter<'_>,
    crypto: &impl rs_matter::crypto::Crypto,
) -> Result<NonZeroU8, Error> {
    let fab = env.ca.install(matter, crypto, env.creds, sub_node_id(1))?;
    matter.with_state(|state| {
        let f = state.fabrics.fabric_mut(fab)?;
        for i in 2..=env.n_subs {
            let mut e = AclEntry::new(None, Privilege::ADMIN, AuthMode::Case);
            e.add_subject(sub_node_id(i))?;
            f.acl_add(e)?;
        }
        Ok::<_, Error>(())
    })?;
    Ok(fab)
}

pub fn set_rtc(matter: &Matter<'_>, now_matter_secs: u32) {
    matter.with_rtc(|rtc| {
        rtc.set_utc_time(
            now_matter_secs as u64 * 1_000_000,
            rs_matter::dm::clusters::time_sync::GranularityEnum::SecondsGranularity,
            rs_matter::dm::clusters::time_sync::TimeSourceEnum::Admin,
            &(),
        );
    });
}

/// The device task: boots until the script is exhausted; after the last step it keeps the
/// last boot running forever (the executor ends the run when the director completes).
pub async fn device_task(env: DevEnv<'_>, first: Box<Matter<'static>>) {
    let mut matter = first;
    let mut step_idx = 0usize;
    let mut boot = 0u32;
    loop {
        env.store.boot.set(boot);
        let next = run_boot(&env, &matter, boot, &mut step_idx).await;
        drop(matter);
        match next {
            Some(down_ms) => {
                env.hub.set_up(0, false);
                env.store.log.borrow_mut().push(DevEv::Down { t: clock::now() });
                exec::sleep_ms(down_ms).await;
                env.hub.set_up(0, true);
                matter = node::new_matter();
                set_rtc(&matter, env.now_matter_secs);
                boot += 1;
            }
            None => {
                // A boot ended without a restart request: an rs-matter run loop returned
                // (error). Record and idle.
                env.store.log.borrow_mut().push(DevEv::Error {
                    t: clock::now(),
                    what: "device run loop ended".into(),
                });
                core::future::pending::<()>().await;
                unreachable!()
            }
        }
    }
}

async fn run_boot(
    env: &DevEnv<'_>,
    matter: &Matter<'static>,
    boot: u32,
    step_idx: &mut usize,
) -> Option<u64> {
    let crypto = node::crypto(Rng::new(subseed(env.seed, &[0xD0, boot as u64])));
    let kv = matter.kv(env.kv.clone());

    let err = |what: String| {
        env.store.log.borrow_mut().push(DevEv::Error { t: clock::now(), what });
    };

    if boot > 0 {
        if let Err(e) = matter.startup(&kv) {
            err(format!("Matter::startup: {:?}", e));
        }
        let have_fabric = matter.with_state(|s| s.fabrics.iter().count() > 0);
        if !have_fabric {
            // Fabric persistence is not what this monitor is about (C11): re-install the
            // same credentials, which yields the same fabric index 1.
            if let Err(e) = install_device_fabric(env, matter, &crypto) {
                err(format!("install fabric after restart: {:?}", e));
            }
        }
    }

    let state: Box<InteractionModelState<DummyNetworks, NS, NE>> =
        Box::new(InteractionModelState::new(DummyNetworks));
    state.suppress_start_up_event();
    let buffers: Box<MatterBuffers<16>> = Box::new(MatterBuffers::new());
    let mut hrng = Rng::new(subseed(env.seed, &[0xD1, boot as u64]));
    let handler = VerHandler::new(env.store, &mut hrng);

    let dm = InteractionModel::new(matter, &crypto, &*buffers, (NODE, &handler), &kv, &*state);

    let mut resumed = 0usize;
    if boot > 0 {
        resumed = env
            .kv
            .map()
            .keys()
            .filter(|k| {
                **k >= rs_matter::persist::PERSISTENT_SUBSCRIPTIONS_START
                    && **k < rs_matter::persist::PERSISTENT_SUBSCRIPTIONS_START + NS as u16
            })
            .count();
        if let Err(e) = dm.startup().await {
            err(format!("InteractionModel::startup: {:?}", e));
        }
    }
    env.store.log.borrow_mut().push(DevEv::Boot {
        t: clock::now(),
        boot,
        resumed_records: resumed,
    });

    let responder = Responder::new_default(&dm);
    let restart: Cell<Option<u64>> = Cell::new(None);

    {
        let ep = env.hub.endpoint(0);
        let crypto = &crypto;
        let dm = &dm;
        let responder = &responder;
        let restart = &restart;
        let hub = &env.hub;

        let transport: BoxFut = Box::pin(async move {
            let _ = matter.run(crypto, ep.clone(), ep.clone(), ep.clone()).await;
        });
        let resp: BoxFut = Box::pin(async move {
            let _ = responder.run::<6>().await;
        });
        let dmrun: BoxFut = Box::pin(async move {
            let _ = dm.run().await;
        });
        let mdns: BoxFut = Box::pin(async move {
            fake_mdns(matter, hub).await;
        });
        let script: BoxFut = Box::pin(async move {
            loop {
                let Some(step) = env.steps.get(*step_idx) else {
                    core::future::pending::<()>().await;
                    unreachable!()
                };
                let at = env.t0 + step.t_ms * clock::TICKS_PER_MS;
                if at > clock::now() {
                    Timer::at(Instant::from_ticks(at)).await;
                }
                *step_idx += 1;
                match &step.act {
                    DevAct::Bump { paths, notify } => {
                        for p in paths {
                            let v = {
                                let mut vs = env.store.versions.borrow_mut();
                                let e = vs.entry(*p).or_insert(0);
                                *e += 1;
                                *e
                            };
                            env.store.log.borrow_mut().push(DevEv::Change {
                                t: clock::now(),
                                path: *p,
                                version: v,
                                notify: *notify,
                                boot,
                            });
                        }
                        match notify {
                            Notify::Attr => {
                                for p in paths {
                                    dm.notify_attr_changed(p.0, p.1, p.2);
                                }
                            }
                            Notify::Cluster => {
                                let mut seen: Vec<(u16, u32)> = Vec::new();
                                for p in paths {
                                    if !seen.contains(&(p.0, p.1)) {
                                        seen.push((p.0, p.1));
                                        dm.notify_cluster_changed(p.0, p.1);
                                    }
                                }
                            }
                            Notify::Endpoint => {
                                let mut seen: Vec<u16> = Vec::new();
                                for p in paths {
                                    if !seen.contains(&p.0) {
                                        seen.push(p.0);
                                        dm.notify_endpoint_changed(p.0);
                                    }
                                }
                            }
                            Notify::All => dm.notify_all_changed(),
                        }
                    }
                    DevAct::Emit { ep, cluster, event } => {
                        let payload = env.store.next_payload.get();
                        env.store.next_payload.set(payload + 1);
                        let r = dm.emit_event(*ep, *cluster, *event, EventPriority::Critical, |mut tw| {
                            tw.u64(&EVENT_DATA_TAG, payload)
                        });
                        env.store.log.borrow_mut().push(DevEv::Event {
                            t: clock::now(),
                            ep: *ep,
                            cluster: *cluster,
                            event: *event,
                            number: r.ok(),
                            payload,
                            boot,
                        });
                    }
                    DevAct::Restart { down_ms } => {
                        restart.set(Some(*down_ms));
                        return;
                    }
                }
            }
        });

        exec::ShuffleSelect::new(
            subseed(env.seed, &[0xD2, boot as u64]),
            env.shuffle,
            vec![script, transport, resp, dmrun, mdns],
        )
        .await;
    }

    restart.get()
}

/// Stand-in for the mDNS responder: answers operational resolve requests of the device
/// with the simulated address of the subscriber node (public responder contract of
/// `Transport`: `wait_mdns_resolve_request` / `try_deposit_mdns_resolve`).
async fn fake_mdns(matter: &Matter<'_>, hub: &NetHub) {
    loop {
        let svc = matter.transport().wait_mdns_resolve_request().await;
        // a little latency, as a real resolver has
        exec::sleep_ms(5).await;
        if let MatterRemoteService::Operational { node_id, .. } = &svc {
            let idx = node_id.wrapping_sub(SUB_NODE_BASE) as usize;
            if idx >= 1 && *node_id >= SUB_NODE_BASE && idx < 64 {
                let mut name = heapless::String::<128>::new();
                svc.instance_name(&mut name);
                if let Address::Udp(sa) = hub.addr(idx) {
                    let answer = MdnsRemoteService {
                        instance_name: DottedName(name.as_str()),
                        port: Some(sa.port()),
                        addrs: [sa.ip()].into_iter(),
                        txt: [("SII", "300"), ("SAI", "300"), ("SAT", "4000")].into_iter(),
                        scope_id: 0,
                    };
                    matter.transport().try_deposit_mdns_resolve(&answer, &[]);
                }
            }
        }
    }
}
