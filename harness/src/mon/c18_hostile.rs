//! C18 workload 2 — a hostile peer feeds arbitrary segments to a real `Btp`, before and
//! after the handshake, in either role. Oracles (from the statement):
//!  * no call into rs-matter panics (overflow checks are on);
//!  * a segment that breaks one of the rules the statement names (wrong sequence number,
//!    window overrun, acknowledgement of something never sent, inconsistent length/flags)
//!    is refused with an error;
//!  * whatever the application receives is a complete, well-formed message carried by the
//!    segments rs-matter accepted (a refused segment must not leak into delivered data).

use std::panic::{catch_unwind, AssertUnwindSafe};
use std::task::Poll;

use serde_json::{json, Value};

use rs_matter::transport::network::btp::Btp;
use rs_matter::transport::network::BtAddr;

use crate::report::Report;
use crate::sim::clock;
use crate::sim::rng::{Fnv, Rng};

use super::c18::{hex, report_finding, take_panic, truncate, unhex, Finding};
use super::c18_ref::*;

pub const PEER_ADDR: BtAddr = BtAddr([1, 2, 3, 4, 5, 6]);

/// Generation classes with a coverage floor.
pub const FLOOR_CLASSES: &[&str] = &[
    "pre:data-before-handshake",
    "pre:hs-mtu-0..3",
    "pre:hs-window-0",
    "pre:hs-malformed",
    "pre:random",
    "wrong-seq",
    "bad-ack",
    "window-overrun",
    "second-handshake",
    "length-mismatch",
    "begin-inside-message",
    "continuation-without-beginning",
    "ending-with-remaining",
    "exceeds-remaining",
    "size-rules",
    "flags-garbage",
    "random-bytes",
    "truncated-header",
    "valid",
];

#[derive(Clone, Debug, PartialEq, Eq)]
pub enum Step {
    In(Vec<u8>),
    Out,
    Recv,
    Send(usize),
    Sleep(u64),
    Reset,
}

#[derive(Clone, Copy, Debug)]
pub struct HCfg {
    pub initiator: bool,
    pub relaxed: bool,
    pub att: Option<u16>,
}

impl HCfg {
    fn role(&self) -> &'static str {
        if self.initiator {
            "rs-central"
        } else {
            "rs-peripheral"
        }
    }
}

pub fn steps_json(cfg: &HCfg, steps: &[Step]) -> Value {
    let st: Vec<Value> = steps
        .iter()
        .map(|s| match s {
            Step::In(b) => json!({"in": hex(b)}),
            Step::Out => json!({"out": 1}),
            Step::Recv => json!({"recv": 1}),
            Step::Send(n) => json!({"send": n}),
            Step::Sleep(ms) => json!({"sleep_ms": ms}),
            Step::Reset => json!({"reset": 1}),
        })
        .collect();
    json!({"check": "C18", "kind": "hostile", "initiator": cfg.initiator, "relaxed": cfg.relaxed,
           "att_mtu": cfg.att, "steps": st})
}

fn steps_from_json(v: &Value) -> (HCfg, Vec<Step>) {
    let cfg = HCfg {
        initiator: v["initiator"].as_bool().unwrap_or(false),
        relaxed: v["relaxed"].as_bool().unwrap_or(false),
        att: v["att_mtu"].as_u64().map(|x| x as u16),
    };
    let mut steps = Vec::new();
    for s in v["steps"].as_array().cloned().unwrap_or_default() {
        if let Some(h) = s["in"].as_str() {
            steps.push(Step::In(unhex(h)));
        } else if s.get("out").is_some() {
            steps.push(Step::Out);
        } else if s.get("recv").is_some() {
            steps.push(Step::Recv);
        } else if let Some(n) = s["send"].as_u64() {
            steps.push(Step::Send(n as usize));
        } else if let Some(n) = s["sleep_ms"].as_u64() {
            steps.push(Step::Sleep(n));
        } else if s.get("reset").is_some() {
            steps.push(Step::Reset);
        }
    }
    (cfg, steps)
}

fn steps_text(steps: &[Step]) -> String {
    steps
        .iter()
        .map(|s| match s {
            Step::In(b) => format!("IN[{}]", hex(b)),
            Step::Out => "OUT".into(),
            Step::Recv => "RECV".into(),
            Step::Send(n) => format!("SEND({}B)", n),
            Step::Sleep(ms) => format!("SLEEP({}ms)", ms),
            Step::Reset => "RESET".into(),
        })
        .collect::<Vec<_>>()
        .join(" ")
}

fn verdict_name(v: &Verdict) -> &'static str {
    match v {
        Verdict::Valid => "valid",
        Verdict::MustReject(x) => x,
        Verdict::Any(x, _) => x,
    }
}

/// Class of a handshake-flagged segment, by its parameters (no raw values).
fn hs_class(b: &[u8], initiator: bool) -> String {
    if initiator {
        match HsResp::decode(b) {
            Some(r) => format!(
                "hs-resp/{}/{}",
                match r.seg {
                    0..=4 => "seg<5",
                    5..=19 => "seg<20",
                    20..=244 => "seg-ok",
                    _ => "seg>244",
                },
                match r.window {
                    0 => "win=0",
                    1 => "win=1",
                    _ => "win-ok",
                }
            ),
            None => "hs-malformed".into(),
        }
    } else {
        match HsReq::decode(b) {
            Some(r) => format!(
                "hs-req/{}/{}",
                match r.mtu {
                    0 => "mtu=0",
                    1..=3 => "mtu=1..3",
                    4..=22 => "mtu=4..22",
                    23..=247 => "mtu-ok",
                    _ => "mtu>247",
                },
                match r.window {
                    0 => "win=0",
                    1 => "win=1",
                    _ => "win-ok",
                }
            ),
            None => "hs-malformed".into(),
        }
    }
}

/// Coarse, value-free class used in signatures.
fn coarse(class: &str) -> String {
    let c = class.strip_prefix("after:").unwrap_or(class);
    if c.starts_with("second-") {
        return "second-handshake".into();
    }
    if c.starts_with("hs-req/") || c.starts_with("hs-resp/") {
        let r = if c.contains("win=0") {
            "handshake-window-0"
        } else if c.contains("mtu=1..3") || c.contains("mtu=4..22") {
            "handshake-mtu-below-23"
        } else if c.contains("seg<5") || c.contains("seg<20") {
            "handshake-segment-size-below-20"
        } else if c.contains("mtu>247") || c.contains("seg>244") {
            "handshake-size-above-max"
        } else if c.contains("win=1") {
            "handshake-window-1"
        } else {
            "handshake-ordinary"
        };
        return r.into();
    }
    c.to_string()
}

pub struct HRun {
    pub cfg: HCfg,
    btp: Option<Box<Btp>>,
    dead: bool,
    lost_cause: Option<String>,
    /// Reference model of the rs-matter end, fed from what it accepted / emitted.
    pub view: End,
    /// The model no longer knows rs-matter's state (only the no-panic oracle applies).
    pub uncertain: bool,
    pending_req: Option<HsReq>,
    pub refused_before: bool,
    last_in_class: String,
    send_ctr: u8,
    /// (class, outcome) per executed step, for counters / distinct hash.
    pub trace: Vec<(String, &'static str)>,
    pub notes: Vec<String>,
}

impl HRun {
    pub fn new(cfg: HCfg) -> Self {
        clock::reset(1_000_000);
        let btp = Box::new(Btp::new());
        btp.set_relaxed_mtu_nego(cfg.relaxed);
        if cfg.initiator {
            btp.set_initiator(true);
        }
        Self {
            cfg,
            btp: Some(btp),
            dead: false,
            lost_cause: None,
            view: End::default(),
            uncertain: false,
            pending_req: None,
            refused_before: false,
            last_in_class: "none".into(),
            send_ctr: 0,
            trace: Vec::new(),
            notes: Vec::new(),
        }
    }

    fn phase(&self) -> &'static str {
        if !self.view.established {
            "pre-handshake"
        } else if self.uncertain {
            "established-unmodelled"
        } else {
            "established"
        }
    }

    fn history(&self) -> &'static str {
        if self.refused_before {
            "after-refused-segment"
        } else {
            "clean-history"
        }
    }

    fn panic_finding(&mut self, step: &'static str, class: &str) -> Finding {
        let p = take_panic();
        self.dead = true; // never touch this instance again
        self.trace.push((class.to_string(), "panic"));
        if p.in_harness() {
            return Finding {
                rule: "harness-self-check".into(),
                sig: "C18/hostile/harness-panic".into(),
                detail: p.describe(),
                inconclusive: true,
            };
        }
        // Value-free trigger class: the statement's named violations and the handshake
        // classes keep their name, everything else is folded.
        let named = |c: &str| -> Option<String> {
            let c = coarse(c);
            match c.as_str() {
                "wrong-seq" | "window-overrun" | "ack-never-sent" | "begin-inside-message"
                | "continuation-without-beginning" | "ending-with-remaining-length"
                | "payload-exceeds-remaining" | "single-length-mismatch"
                | "data-before-handshake" | "handshake-window-0" | "handshake-mtu-below-23"
                | "handshake-segment-size-below-20" | "second-handshake" => Some(c),
                _ => None,
            }
        };
        let trigger = if self.view.established && self.uncertain {
            // (what made the model give up is in the detail: a repeated or degenerate handshake,
            // or an odd segment rs-matter accepted)
            "unmodelled-state".to_string()
        } else if step == "process_incoming" {
            named(class).unwrap_or_else(|| "other-segment".into())
        } else {
            match named(&self.last_in_class) {
                Some(h) if h.starts_with("handshake-") || h == "second-handshake" => format!("after:{}", h),
                _ if self.refused_before => "after:refused-or-odd-segment".to_string(),
                _ => "after:conformant-traffic".to_string(),
            }
        };
        Finding {
            rule: "hostile/no-panic".into(),
            sig: format!("C18/hostile/panic/{}/{}/{}", step, p.kind(), trigger),
            detail: format!(
                "{} during {} (segment class {}, phase {}{}, {}): the statement requires that hostile segments can not crash the node",
                p.describe(),
                step,
                class,
                self.phase(),
                self.lost_cause.as_ref().map(|c| format!(" since a {} was accepted", c)).unwrap_or_default(),
                self.history()
            ),
            inconclusive: false,
        }
    }

    /// Execute one step; `Some(finding)` ends the sequence.
    pub fn step(&mut self, st: &Step) -> Option<Finding> {
        let Some(btp) = self.btp.take() else {
            return None;
        };
        let r = self.step_inner(&btp, st);
        if self.uncertain && self.lost_cause.is_none() {
            self.lost_cause = Some(coarse(&self.last_in_class));
        }
        if !self.uncertain {
            self.lost_cause = None;
        }
        if !self.dead {
            self.btp = Some(btp);
        }
        r
    }

    fn step_inner(&mut self, btp: &Btp, st: &Step) -> Option<Finding> {
        let now = clock::now();
        match st {
            Step::Sleep(ms) => {
                clock::advance_to(now + ms * 1000);
                None
            }
            Step::Reset => {
                let r = catch_unwind(AssertUnwindSafe(|| btp.reset()));
                if r.is_err() {
                    let c = format!("after:{}", self.last_in_class);
                    return Some(self.panic_finding("reset", &c));
                }
                self.view = End::default();
                self.uncertain = false;
                self.pending_req = None;
                self.refused_before = false;
                self.trace.push(("reset".into(), "ok"));
                None
            }
            Step::Send(n) => {
                self.send_ctr = self.send_ctr.wrapping_add(1);
                let data: Vec<u8> = (0..*n).map(|i| (i as u8) ^ self.send_ctr).collect();
                let r = catch_unwind(AssertUnwindSafe(|| {
                    embassy_futures::poll_once(btp.send(&data, PEER_ADDR))
                }));
                match r {
                    Err(_) => {
                        let c = format!("after:{}", self.last_in_class);
                        Some(self.panic_finding("send", &c))
                    }
                    Ok(p) => {
                        self.trace.push((
                            "send".into(),
                            match p {
                                Poll::Ready(Ok(())) => "ok",
                                Poll::Ready(Err(_)) => "err",
                                Poll::Pending => "pending",
                            },
                        ));
                        None
                    }
                }
            }
            Step::Recv => {
                let mut buf = vec![0u8; 4096];
                let r = catch_unwind(AssertUnwindSafe(|| {
                    embassy_futures::poll_once(btp.recv(&mut buf))
                }));
                match r {
                    Err(_) => {
                        let c = format!("after:{}", self.last_in_class);
                        Some(self.panic_finding("recv", &c))
                    }
                    Ok(Poll::Ready(Ok((n, _addr)))) => {
                        let got = &buf[..n];
                        if self.uncertain {
                            self.trace.push(("recv".into(), "delivered-unmodelled"));
                            return None;
                        }
                        while self
                            .view
                            .completed
                            .front()
                            .map(|m| m.is_empty() && !got.is_empty())
                            .unwrap_or(false)
                        {
                            self.view.completed.pop_front();
                            self.notes.push("zero_len_sdu_from_peer:swallowed".into());
                        }
                        let exp = self.view.completed.pop_front();
                        if exp.as_deref() == Some(got) {
                            self.trace.push(("recv".into(), "delivered-ok"));
                            None
                        } else {
                            self.trace.push(("recv".into(), "delivered-corrupt"));
                            Some(Finding {
                                rule: "hostile/no-corrupted-delivery".into(),
                                sig: format!("C18/hostile/corrupted-delivery/{}", self.history()),
                                detail: format!(
                                    "the application received {} bytes [{}] but the segments rs-matter accepted carry {}; the statement requires that refused/violating segments can not make the node deliver corrupted data",
                                    got.len(),
                                    truncate(&hex(got), 120),
                                    match &exp {
                                        Some(e) => format!("the complete message [{}] ({} bytes) next", truncate(&hex(e), 120), e.len()),
                                        None => "no complete message at all".to_string(),
                                    }
                                ),
                                inconclusive: false,
                            })
                        }
                    }
                    Ok(Poll::Ready(Err(_))) => {
                        self.trace.push(("recv".into(), "err"));
                        None
                    }
                    Ok(Poll::Pending) => {
                        if !self.uncertain
                            && self.view.completed.iter().any(|m| !m.is_empty())
                        {
                            self.notes.push(format!(
                                "hostile_complete_message_not_available/{}",
                                self.history()
                            ));
                        }
                        self.trace.push(("recv".into(), "pending"));
                        None
                    }
                }
            }
            Step::Out => {
                let mut buf = [0u8; 600];
                let att = self.cfg.att;
                let r = catch_unwind(AssertUnwindSafe(|| btp.process_outgoing(att, &mut buf)));
                match r {
                    Err(_) => {
                        let c = format!("after:{}", self.last_in_class);
                        Some(self.panic_finding("process_outgoing", &c))
                    }
                    Ok(Err(_)) => {
                        self.trace.push(("out".into(), "err"));
                        None
                    }
                    Ok(Ok(0)) => {
                        self.trace.push(("out".into(), "nothing"));
                        None
                    }
                    Ok(Ok(n)) => {
                        let b = &buf[..n];
                        self.on_emission(b, now);
                        None
                    }
                }
            }
            Step::In(bytes) => self.step_in(btp, bytes, now),
        }
    }

    fn on_emission(&mut self, b: &[u8], now: u64) {
        let Ok(s) = Seg::decode(b) else {
            self.notes.push("hostile_emission:undecodable".into());
            self.uncertain = true;
            return;
        };
        if s.is(F_H) {
            if self.cfg.initiator {
                self.trace.push(("out".into(), "hs-request"));
                if HsReq::decode(b).is_none() {
                    self.notes.push("hostile_emission:malformed-hs-request".into());
                }
            } else {
                self.trace.push(("out".into(), "hs-response"));
                match HsResp::decode(b) {
                    Some(r) => {
                        let sane = (20..=244).contains(&r.seg) && r.window >= 1;
                        if !sane {
                            self.notes
                                .push("hostile_emission:hs-response-out-of-range".into());
                        }
                        let second = self.view.established;
                        self.view
                            .establish_peripheral(r.seg as usize, r.window as u64);
                        if second || !sane {
                            self.uncertain = true;
                        }
                        self.pending_req = None;
                    }
                    None => {
                        self.notes.push("hostile_emission:malformed-hs-response".into());
                        self.uncertain = true;
                    }
                }
            }
            return;
        }
        self.trace.push(("out".into(), "segment"));
        if self.view.established && !self.uncertain {
            if let Err(rule) = self.view.note_outgoing(&s, now) {
                self.notes
                    .push(format!("hostile_emission:{}/{}", rule, self.history()));
                self.uncertain = true;
            }
        }
    }

    fn step_in(&mut self, btp: &Btp, bytes: &[u8], now: u64) -> Option<Finding> {
        let dec = Seg::decode(bytes);
        let mut verdict = Verdict::Any("unjudged", false);
        let mut is_hs = false;
        let class: String = match &dec {
            Err(_) => "undecodable".into(),
            Ok(s) if s.is(F_H) => {
                is_hs = true;
                let c = hs_class(bytes, self.cfg.initiator);
                if self.view.established {
                    format!("second-{}", c)
                } else {
                    c
                }
            }
            Ok(s) => {
                if !self.view.established {
                    "data-before-handshake".into()
                } else if self.uncertain {
                    "unmodelled".into()
                } else {
                    verdict = self.view.classify_incoming(s);
                    verdict_name(&verdict).to_string()
                }
            }
        };
        self.last_in_class = class.clone();
        let att = self.cfg.att;
        let r = catch_unwind(AssertUnwindSafe(|| {
            btp.process_incoming(att, PEER_ADDR, bytes)
        }));
        match r {
            Err(_) => Some(self.panic_finding("process_incoming", &class)),
            Ok(Err(_)) => {
                if matches!(verdict, Verdict::Valid) {
                    let big = self.view.in_msg.as_ref().map(|(l, _)| *l > 1232).unwrap_or(false)
                        || dec.as_ref().ok().and_then(|s| s.msg_len).map(|l| l > 1232).unwrap_or(false);
                    self.notes.push(format!(
                        "hostile_valid_segment_refused/{}/{}",
                        self.history(),
                        if big { "message-longer-than-1232" } else { "message-up-to-1232" }
                    ));
                    if std::env::var_os("C18_TRACE").is_some() && !self.refused_before && !big {
                        eprintln!("valid refused: [{}] seg {} win {} pending {} rem {:?}", hex(bytes), self.view.seg, self.view.win, self.view.in_pending(), self.view.in_remaining());
                    }
                }
                self.refused_before = true;
                self.trace.push((class, "refused"));
                None
            }
            Ok(Ok(())) => {
                self.trace.push((class.clone(), "accepted"));
                if is_hs {
                    self.on_hs_accepted(bytes, now);
                    return None;
                }
                let Ok(s) = dec else {
                    self.notes.push("undecodable-accepted".into());
                    self.uncertain = true;
                    return None;
                };
                if !self.view.established || self.uncertain {
                    return None;
                }
                match verdict {
                    Verdict::Valid => {
                        self.view.apply_incoming(&s, now);
                        None
                    }
                    Verdict::Any(_, clear) => {
                        if clear {
                            self.view.apply_incoming(&s, now);
                        } else {
                            self.uncertain = true;
                        }
                        None
                    }
                    Verdict::MustReject(rule) => Some(Finding {
                        rule: "hostile/violating-segment-refused".into(),
                        sig: format!("C18/hostile/accepted/{}/{}", rule, self.history()),
                        detail: format!(
                            "segment [{}] breaks the protocol ({}: expected seq {}, {} of window {} unacknowledged, outstanding own segments {}..{}, message remaining {:?}) but process_incoming returned Ok; the statement requires it to be refused with an error",
                            truncate(&hex(bytes), 160),
                            rule,
                            self.view.next_in_seq(),
                            self.view.in_pending(),
                            self.view.win,
                            self.view.out_acked,
                            self.view.out_count,
                            self.view.in_remaining()
                        ),
                        inconclusive: false,
                    }),
                }
            }
        }
    }

    fn on_hs_accepted(&mut self, bytes: &[u8], now: u64) {
        if self.cfg.initiator {
            match HsResp::decode(bytes) {
                Some(r) => {
                    let sane = (20..=244).contains(&r.seg) && r.window >= 1;
                    let second = self.view.established;
                    self.view
                        .establish_central(r.seg as usize, r.window as u64, now);
                    if !sane {
                        self.notes.push("degenerate-hs-response-accepted".into());
                    }
                    if !sane || second {
                        self.uncertain = true;
                    }
                }
                None => {
                    self.notes.push("malformed-hs-response-accepted".into());
                    self.view.established = true;
                    self.uncertain = true;
                }
            }
        } else {
            if self.view.established {
                self.uncertain = true;
            }
            match HsReq::decode(bytes) {
                Some(r) => self.pending_req = Some(r),
                None => {
                    self.notes.push("malformed-hs-request-accepted".into());
                    self.uncertain = true;
                }
            }
        }
    }
}

/// Run a fixed step list; returns the first finding and how many steps were executed.
pub fn run_steps(cfg: HCfg, steps: &[Step]) -> (Option<Finding>, usize, HRun) {
    let mut run = HRun::new(cfg);
    for (i, st) in steps.iter().enumerate() {
        if let Some(f) = run.step(st) {
            return (Some(f), i + 1, run);
        }
    }
    (None, steps.len(), run)
}

/// Greedy one-step-removal minimisation preserving the signature.
fn minimise(cfg: HCfg, steps: &[Step], sig: &str) -> Vec<Step> {
    let mut cur: Vec<Step> = steps.to_vec();
    let mut changed = true;
    let mut passes = 0;
    while changed && passes < 4 {
        changed = false;
        passes += 1;
        let mut i = cur.len();
        while i > 0 {
            i -= 1;
            if cur.len() <= 1 {
                break;
            }
            for renumber in [false, true] {
                let mut cand = cur.clone();
                let removed = cand.remove(i);
                if renumber {
                    // removing a sequence-numbered segment: shift the later ones down
                    let Step::In(rb) = &removed else { break };
                    match Seg::decode(rb) {
                        Ok(rs) if !rs.is(F_H) => {}
                        _ => break,
                    }
                    for st in cand.iter_mut().skip(i) {
                        if let Step::In(b) = st {
                            if let Ok(mut sg) = Seg::decode(b) {
                                if let (false, Some(q)) = (sg.is(F_H), sg.seq) {
                                    sg.seq = Some(q.wrapping_sub(1));
                                    *b = sg.encode();
                                }
                            }
                        }
                    }
                }
                let (f, used, _) = run_steps(cfg, &cand);
                if f.map(|f| f.sig == sig).unwrap_or(false) {
                    cand.truncate(used);
                    cur = cand;
                    changed = true;
                    if i > cur.len() {
                        i = cur.len();
                    }
                    break;
                }
            }
        }
    }
    // Shrink the content of individual segments (smaller equivalent forms).
    for i in 0..cur.len() {
        let Step::In(b) = &cur[i] else { continue };
        let Ok(seg) = Seg::decode(b) else { continue };
        if seg.is(F_H) {
            continue;
        }
        let mut cands: Vec<Vec<u8>> = Vec::new();
        if let (Some(a), Some(q)) = (seg.ack, seg.seq) {
            cands.push(vec![F_A, a, q]);
        }
        if let (true, Some(q)) = (seg.is(F_B) && seg.is(F_E), seg.seq) {
            let mut t = Seg {
                flags: seg.flags & (F_A | F_B | F_E),
                ack: seg.ack,
                seq: Some(q),
                msg_len: Some(1),
                payload: vec![0xaa],
                ..Default::default()
            };
            cands.push(t.encode());
            t.flags &= !F_A;
            t.ack = None;
            cands.push(t.encode());
        }
        if !seg.payload.is_empty() && seg.ack.is_some() {
            let mut t = seg.clone();
            t.flags &= !F_A;
            t.ack = None;
            // keep the total size (segment-size rule) by padding the payload
            t.payload.push(0);
            if !t.is(F_B) || !t.is(F_E) {
                cands.push(t.encode());
            }
        }
        for c in cands {
            if c.len() >= b.len() {
                continue;
            }
            let mut cand = cur.clone();
            cand[i] = Step::In(c);
            let (f, used, _) = run_steps(cfg, &cand);
            if used == cand.len() && f.map(|f| f.sig == sig).unwrap_or(false) {
                cur = cand;
                break;
            }
        }
    }
    cur
}

// ---------------------------------------------------------------------------------------
// Generator
// ---------------------------------------------------------------------------------------

struct Gen<'a> {
    rng: &'a mut Rng,
    run: HRun,
    steps: Vec<Step>,
    classes: Vec<&'static str>,
    hostile_segments: u64,
    finding: Option<Finding>,
}

impl Gen<'_> {
    fn exec(&mut self, st: Step, gen_class: &'static str) -> bool {
        if self.finding.is_some() {
            return false;
        }
        if matches!(st, Step::In(_)) {
            self.classes.push(gen_class);
            if gen_class != "valid" && gen_class != "handshake" {
                self.hostile_segments += 1;
            }
        }
        let f = self.run.step(&st);
        self.steps.push(st);
        if let Some(f) = f {
            self.finding = Some(f);
            return false;
        }
        true
    }

    fn last_refused(&self) -> bool {
        self.run
            .trace
            .last()
            .map(|(_, o)| *o == "refused")
            .unwrap_or(false)
    }

    fn valid_ack(&mut self) -> Option<u8> {
        let v = &self.run.view;
        if v.out_unacked() > 0 {
            let abs = if self.rng.chance(3, 4) {
                v.out_count - 1
            } else {
                v.out_acked + self.rng.below(v.out_unacked())
            };
            Some((abs % 256) as u8)
        } else {
            None
        }
    }

    /// A conformant segment for the current model state (continues the message in
    /// progress, or starts a new one of `len` bytes).
    fn valid_seg(&mut self, len: usize, with_ack: bool) -> Seg {
        let ack = if with_ack { self.valid_ack() } else { None };
        let v = &self.run.view;
        let mut s = Seg {
            seq: Some(v.next_in_seq()),
            ack,
            ..Default::default()
        };
        if ack.is_some() {
            s.flags |= F_A;
        }
        let rem = match v.in_remaining() {
            Some(rem) => {
                s.flags |= F_C;
                rem
            }
            None => {
                s.flags |= F_B;
                s.msg_len = Some(len as u16);
                len
            }
        };
        let cap = v.seg.saturating_sub(s.hdr_len());
        let n = rem.min(cap);
        s.payload = (0..n).map(|_| self.rng.u32() as u8).collect();
        if n == rem {
            s.flags |= F_E;
        }
        s
    }

    fn standalone_ack(&mut self) -> Option<Seg> {
        let ack = self.valid_ack()?;
        Some(Seg {
            flags: F_A,
            ack: Some(ack),
            seq: Some(self.run.view.next_in_seq()),
            ..Default::default()
        })
    }

    /// Let rs-matter emit whatever it wants to (acks), and drain delivered messages, so that
    /// the peer has window credit again.
    fn service(&mut self) {
        for _ in 0..4 {
            if !self.exec(Step::Recv, "") {
                return;
            }
            if !self.exec(Step::Out, "") {
                return;
            }
            if self.run.view.in_pending() == 0 {
                break;
            }
        }
    }

    fn has_credit(&self) -> bool {
        self.run.view.in_pending() + 1 < self.run.view.win
    }

    fn handshake(&mut self) {
        let att = self.run.cfg.att;
        if self.run.cfg.initiator {
            if !self.exec(Step::Out, "") {
                return;
            }
            let seg = *self.rng.pick(&[20u16, 21, 50, 100, 128, 200, 244]);
            let win = *self.rng.pick(&[2u8, 3, 4, 5, 6, 8, 16]);
            let r = HsResp {
                version: 4,
                seg,
                window: win,
            };
            self.exec(Step::In(r.encode()), "handshake");
        } else {
            let mtu = match self.rng.below(4) {
                0 => 0,
                1 => att.unwrap_or(23),
                2 => *self.rng.pick(&[23u16, 64, 100, 185, 247]),
                _ => att.unwrap_or(100).min(247),
            };
            let win = *self.rng.pick(&[2u8, 3, 4, 5, 6, 6, 8, 16, 80, 255]);
            let r = HsReq {
                versions: [4, 0, 0, 0],
                mtu,
                window: win,
            };
            if !self.exec(Step::In(r.encode()), "handshake") {
                return;
            }
            self.exec(Step::Out, "");
        }
    }

    fn pre_handshake_hostile(&mut self) {
        let initiator = self.run.cfg.initiator;
        let pick = self.rng.below(100);
        match pick {
            0..=29 => {
                // data before the handshake
                let seq = if self.rng.chance(2, 3) { 0 } else { self.rng.u32() as u8 };
                let s = match self.rng.below(5) {
                    0 => Seg { flags: F_A, ack: Some(self.rng.u32() as u8), seq: Some(seq), ..Default::default() },
                    1 => {
                        let n = self.rng.usize(20);
                        Seg { flags: F_B | F_E, seq: Some(seq), msg_len: Some(n as u16), payload: self.rng.bytes(n), ..Default::default() }
                    }
                    2 => Seg { flags: F_C, seq: Some(seq), payload: self.rng.bytes(self.rng.clone().usize(20)), ..Default::default() },
                    3 => Seg { flags: F_E, seq: Some(seq), payload: vec![], ..Default::default() },
                    _ => Seg { flags: F_B, seq: Some(seq), msg_len: Some(100), payload: self.rng.bytes(16), ..Default::default() },
                };
                self.exec(Step::In(s.encode()), "pre:data-before-handshake");
            }
            30..=49 => {
                if initiator {
                    let _ = self.exec(Step::Out, "");
                    let r = HsResp { version: 4, seg: self.rng.below(4) as u16, window: *self.rng.pick(&[0u8, 1, 6]) };
                    self.exec(Step::In(r.encode()), "pre:hs-mtu-0..3");
                } else {
                    let r = HsReq { versions: [4, 0, 0, 0], mtu: self.rng.below(4) as u16, window: *self.rng.pick(&[1u8, 6, 255]) };
                    self.exec(Step::In(r.encode()), "pre:hs-mtu-0..3");
                }
                let _ = self.exec(Step::Out, "");
            }
            50..=64 => {
                if initiator {
                    let _ = self.exec(Step::Out, "");
                    let r = HsResp { version: 4, seg: *self.rng.pick(&[20u16, 100, 244]), window: 0 };
                    self.exec(Step::In(r.encode()), "pre:hs-window-0");
                } else {
                    let r = HsReq { versions: [4, 0, 0, 0], mtu: *self.rng.pick(&[0u16, 23, 100, 247]), window: 0 };
                    self.exec(Step::In(r.encode()), "pre:hs-window-0");
                }
                let _ = self.exec(Step::Out, "");
            }
            65..=84 => {
                // malformed / odd handshakes
                let mut b = if initiator {
                    let _ = self.exec(Step::Out, "");
                    HsResp { version: self.rng.u32() as u8, seg: *self.rng.pick(&[4u16, 5, 19, 20, 245, 1000, 65535]), window: *self.rng.pick(&[1u8, 2, 255]) }.encode()
                } else {
                    HsReq { versions: [self.rng.u32() as u8, 0, 0, self.rng.u32() as u8], mtu: *self.rng.pick(&[4u16, 5, 19, 22, 248, 1000, 65535]), window: *self.rng.pick(&[1u8, 2, 255]) }.encode()
                };
                match self.rng.below(6) {
                    0 => { let n = self.rng.usize(b.len()); b.truncate(n); }
                    1 => { let extra = self.rng.bytes(1 + self.rng.clone().usize(8)); b.extend(extra); }
                    2 => { b[0] ^= *self.rng.pick(&[F_A, F_M, F_E, F_B, F_C, 0x80, 0x10]); }
                    3 => { b[1] = self.rng.u32() as u8; }
                    _ => {}
                }
                self.exec(Step::In(b), "pre:hs-malformed");
                let _ = self.exec(Step::Out, "");
            }
            _ => {
                let n = self.rng.usize(24);
                let b = self.rng.bytes(n);
                self.exec(Step::In(b), "pre:random");
            }
        }
    }

    fn established_action(&mut self) {
        let pick = self.rng.below(100);
        let seg = self.run.view.seg.max(6);
        match pick {
            0..=21 => {
                // valid traffic
                if !self.has_credit() {
                    self.service();
                    if self.finding.is_some() || !self.has_credit() {
                        return;
                    }
                }
                if self.rng.chance(1, 6) {
                    if let Some(s) = self.standalone_ack() {
                        self.exec(Step::In(s.encode()), "valid");
                        return;
                    }
                }
                let len = match self.rng.below(6) {
                    0 => 0,
                    1 => 1,
                    2 => seg.saturating_sub(4 + self.rng.usize(3)),
                    3 => seg * 2 - self.rng.usize(6),
                    4 => self.rng.usize(1232) + 1,
                    _ => self.rng.usize(3 * seg) + 1,
                };
                let s = self.valid_seg(len, self.rng.clone().bool());
                self.exec(Step::In(s.encode()), "valid");
            }
            22..=29 => {
                let mut s = if self.rng.bool() {
                    self.standalone_ack().unwrap_or_else(|| self.valid_seg(3, false))
                } else {
                    self.valid_seg(1 + self.rng.clone().usize(2 * seg), true)
                };
                let w = self.run.view.win as u8;
                let d = *self.rng.pick(&[1u8, 255, 2, 254, w, 0u8.wrapping_sub(w), 128, 127, 129]);
                s.seq = Some(s.seq.unwrap().wrapping_add(d));
                self.exec(Step::In(s.encode()), "wrong-seq");
            }
            30..=38 => {
                // acknowledgement of a number that is not outstanding: every value
                let a = self.rng.u32() as u8;
                let v = &self.run.view;
                let outstanding = (v.out_acked..v.out_count).any(|x| (x % 256) as u8 == a);
                if outstanding {
                    return;
                }
                let mut s = if self.rng.chance(2, 3) {
                    Seg { flags: F_A, seq: Some(v.next_in_seq()), ..Default::default() }
                } else {
                    self.valid_seg(1 + self.rng.clone().usize(seg), false)
                };
                s.flags |= F_A;
                s.ack = Some(a);
                if s.is(F_B) || s.is(F_C) {
                    // keep the segment size rule intact after adding the ack byte
                    let cap = self.run.view.seg.saturating_sub(s.hdr_len());
                    if s.payload.len() > cap {
                        let cut = s.payload.len() - cap;
                        s.payload.truncate(cap);
                        if s.is(F_E) {
                            if let Some(l) = s.msg_len.as_mut() { *l -= cut as u16; }
                        }
                    }
                }
                self.exec(Step::In(s.encode()), "bad-ack");
            }
            39..=44 => {
                // fill the window without letting rs-matter acknowledge, then overrun by 1..3
                let extra = 1 + self.rng.below(3);
                let mut guard = 0;
                while self.run.view.in_pending() < self.run.view.win && guard < 300 {
                    guard += 1;
                    let s = if self.run.view.in_remaining().is_some() {
                        self.valid_seg(0, false)
                    } else {
                        self.valid_seg(1 + self.rng.clone().usize(3), false)
                    };
                    if !self.exec(Step::In(s.encode()), "valid") || self.last_refused() {
                        return;
                    }
                    if self.run.uncertain {
                        return;
                    }
                }
                for _ in 0..extra {
                    let s = if self.run.view.in_remaining().is_some() {
                        self.valid_seg(0, false)
                    } else {
                        self.valid_seg(1, false)
                    };
                    if !self.exec(Step::In(s.encode()), "window-overrun") {
                        return;
                    }
                }
            }
            45..=48 => {
                let b = if self.run.cfg.initiator {
                    HsResp { version: 4, seg: *self.rng.pick(&[20u16, 100, 244]), window: *self.rng.pick(&[2u8, 6, 255]) }.encode()
                } else {
                    HsReq { versions: [4, 0, 0, 0], mtu: *self.rng.pick(&[0u16, 23, 100, 247]), window: *self.rng.pick(&[1u8, 2, 6, 255]) }.encode()
                };
                if self.exec(Step::In(b), "second-handshake") {
                    let _ = self.exec(Step::Out, "");
                }
            }
            49..=55 => {
                if self.run.view.in_remaining().is_some() || !self.has_credit() {
                    return;
                }
                let n = self.rng.usize(seg.saturating_sub(5));
                let wrong = match self.rng.below(5) {
                    0 => n as u16 + 1,
                    1 => (n as u16).wrapping_sub(1),
                    2 => 0,
                    3 => 0xffff,
                    _ => n as u16 + 1 + self.rng.below(2000) as u16,
                };
                if wrong as usize == n {
                    return;
                }
                let s = Seg { flags: F_B | F_E, seq: Some(self.run.view.next_in_seq()), msg_len: Some(wrong), payload: self.rng.bytes(n), ..Default::default() };
                self.exec(Step::In(s.encode()), "length-mismatch");
            }
            56..=61 => {
                if !self.has_credit() {
                    return;
                }
                if self.run.view.in_remaining().is_none() {
                    let s = self.valid_seg(seg * 2 + self.rng.clone().usize(seg), false);
                    if !self.exec(Step::In(s.encode()), "valid") || self.last_refused() || self.run.uncertain {
                        return;
                    }
                }
                let n = 1 + self.rng.usize(seg.saturating_sub(5).max(1));
                let fin = self.rng.bool();
                let mut s = Seg { flags: F_B, seq: Some(self.run.view.next_in_seq()), msg_len: Some(n as u16), payload: self.rng.bytes(n), ..Default::default() };
                if fin {
                    s.flags |= F_E;
                } else {
                    s.msg_len = Some((seg * 3) as u16);
                    s.payload = self.rng.bytes(seg - 4);
                }
                self.exec(Step::In(s.encode()), "begin-inside-message");
            }
            62..=67 => {
                if self.run.view.in_remaining().is_some() {
                    return;
                }
                let n = if self.rng.chance(1, 4) { 0 } else { 1 + self.rng.usize(seg.saturating_sub(3)) };
                let flags = *self.rng.pick(&[F_C, F_C | F_E, F_E]);
                let payload = if flags & F_E == 0 { self.rng.bytes(seg - 2) } else { self.rng.bytes(n) };
                let s = Seg { flags, seq: Some(self.run.view.next_in_seq()), payload, ..Default::default() };
                self.exec(Step::In(s.encode()), "continuation-without-beginning");
            }
            68..=72 => {
                if !self.has_credit() {
                    return;
                }
                if self.run.view.in_remaining().is_none() {
                    let s = self.valid_seg(seg * 2 + 7, false);
                    if !self.exec(Step::In(s.encode()), "valid") || self.last_refused() || self.run.uncertain {
                        return;
                    }
                }
                let rem = self.run.view.in_remaining().unwrap_or(0);
                if rem < 2 {
                    return;
                }
                let n = self.rng.usize(rem.min(seg - 2));
                let s = Seg { flags: F_E | if self.rng.bool() { F_C } else { 0 }, seq: Some(self.run.view.next_in_seq()), payload: self.rng.bytes(n), ..Default::default() };
                self.exec(Step::In(s.encode()), "ending-with-remaining");
            }
            73..=77 => {
                if !self.has_credit() || self.run.view.in_remaining().is_some() || seg < 12 {
                    return;
                }
                // two full segments leave 1..4 bytes; then send more than that
                let left = 1 + self.rng.usize(4);
                let s = self.valid_seg(seg - 4 + seg - 2 + left, false);
                if !self.exec(Step::In(s.encode()), "valid") || self.last_refused() || self.run.uncertain {
                    return;
                }
                if !self.has_credit() {
                    return;
                }
                let s = self.valid_seg(0, false);
                if !self.exec(Step::In(s.encode()), "valid") || self.last_refused() || self.run.uncertain {
                    return;
                }
                if self.run.view.in_remaining() != Some(left) {
                    return;
                }
                let n = left + 1 + self.rng.usize(6);
                let s = Seg { flags: F_E | F_C, seq: Some(self.run.view.next_in_seq()), payload: self.rng.bytes(n), ..Default::default() };
                self.exec(Step::In(s.encode()), "exceeds-remaining");
            }
            78..=81 => {
                if !self.has_credit() || self.run.view.in_remaining().is_some() {
                    return;
                }
                let s = if self.rng.bool() {
                    // non-final, shorter than the segment size
                    let n = self.rng.usize(seg.saturating_sub(6));
                    Seg { flags: F_B, seq: Some(self.run.view.next_in_seq()), msg_len: Some((n + 50) as u16), payload: self.rng.bytes(n), ..Default::default() }
                } else {
                    // final, larger than the segment size
                    let n = seg + self.rng.usize(300);
                    Seg { flags: F_B | F_E, seq: Some(self.run.view.next_in_seq()), msg_len: Some(n as u16), payload: self.rng.bytes(n), ..Default::default() }
                };
                self.exec(Step::In(s.encode()), "size-rules");
            }
            82..=86 => {
                let flags = self.rng.u32() as u8;
                let mut s = Seg { flags, ..Default::default() };
                if flags & F_M != 0 { s.opcode = Some(if self.rng.bool() { HS_OPCODE } else { self.rng.u32() as u8 }); }
                if flags & F_A != 0 { s.ack = Some(self.valid_ack().unwrap_or(self.rng.u32() as u8)); }
                if flags & F_H == 0 {
                    s.seq = Some(self.run.view.next_in_seq());
                    if flags & F_B != 0 { s.msg_len = Some(self.rng.below(40) as u16); }
                }
                s.payload = self.rng.bytes(self.rng.clone().usize(seg));
                self.exec(Step::In(s.encode()), "flags-garbage");
            }
            87..=90 => {
                let n = if self.rng.chance(1, 5) { self.rng.usize(300) } else { self.rng.usize(12) };
                let b = self.rng.bytes(n);
                self.exec(Step::In(b), "random-bytes");
            }
            91..=93 => {
                let s = self.valid_seg(1 + self.rng.clone().usize(seg), true);
                let mut b = s.encode();
                let n = self.rng.usize(s.hdr_len());
                b.truncate(n);
                self.exec(Step::In(b), "truncated-header");
            }
            94..=95 => {
                self.exec(Step::Send(1 + self.rng.clone().usize(3 * seg)), "");
                let _ = self.exec(Step::Out, "");
            }
            96 => {
                let ms = *self.rng.pick(&[1u64, 1000, 14_999, 15_000, 16_000, 31_000]);
                self.exec(Step::Sleep(ms), "");
            }
            97 => {
                self.exec(Step::Reset, "");
            }
            _ => self.service(),
        }
    }
}

/// Generate and run one hostile sequence. Returns the number of hostile segments injected.
pub fn run_one(rep: &mut Report, seed: u64, sample: bool) -> u64 {
    let mut rng = Rng::new(seed);
    let cfg = HCfg {
        initiator: rng.chance(1, 4),
        relaxed: rng.chance(3, 10),
        att: *rng.pick(&[None, None, Some(23u16), Some(24), Some(50), Some(100), Some(185), Some(200), Some(247), Some(251), Some(512)]),
    };
    let target = 8 + rng.usize(50);
    let mut g = Gen {
        run: HRun::new(cfg),
        rng: &mut rng,
        steps: Vec::new(),
        classes: Vec::new(),
        hostile_segments: 0,
        finding: None,
    };
    let mut actions = 0;
    while g.finding.is_none() && actions < target && g.steps.len() < 600 {
        actions += 1;
        if !g.run.view.established {
            if g.rng.chance(35, 100) {
                g.pre_handshake_hostile();
            } else {
                g.handshake();
            }
        } else {
            g.established_action();
        }
        if g.finding.is_none() && g.last_refused() && g.rng.chance(2, 5) {
            // the driver closes the connection on an error; a new one starts
            g.exec(Step::Reset, "");
            rep.count("hostile_after_refusal:connection-reset");
        }
    }

    rep.evaluations += 1;
    rep.count("hostile_sequences");
    rep.count_n("hostile_segments", g.hostile_segments);
    rep.count(&format!("hostile_role:{}", cfg.role()));
    if cfg.relaxed {
        rep.count("hostile_relaxed_mtu_nego");
    }
    for c in &g.classes {
        rep.count(&format!("hostile_class:{}", c));
    }
    for (class, outcome) in &g.run.trace {
        rep.count(&format!("hostile_outcome:{}:{}", class, outcome));
    }
    for n in &g.run.notes {
        rep.note(n);
    }
    if g.hostile_segments > 0 {
        let mut h = Fnv::new();
        h.add(&[cfg.initiator as u8, cfg.relaxed as u8]);
        for (c, o) in &g.run.trace {
            h.add(c.as_bytes());
            h.add(o.as_bytes());
        }
        rep.distinct.insert(h.0);
    }
    if sample {
        rep.sample(json!({"kind": "hostile", "role": cfg.role(), "steps": truncate(&steps_text(&g.steps), 600),
            "trace": g.run.trace.iter().take(30).map(|(c, o)| format!("{}:{}", c, o)).collect::<Vec<_>>()}));
    }
    let hostile = g.hostile_segments;
    if let Some(f) = g.finding.take() {
        let steps = std::mem::take(&mut g.steps);
        emit_finding(rep, cfg, &steps, f);
    }
    hostile
}

fn emit_finding(rep: &mut Report, cfg: HCfg, steps: &[Step], f: Finding) {
    if f.inconclusive {
        report_finding(rep, &f, steps_json(&cfg, steps));
        return;
    }
    let known = rep.get(&format!("violation:{}", f.sig));
    let (steps_min, f_min) = if known < 3 {
        let m = minimise(cfg, steps, &f.sig);
        let (f2, _, _) = run_steps(cfg, &m);
        match f2 {
            Some(f2) if f2.sig == f.sig => (m, f2),
            _ => (steps.to_vec(), f.clone()),
        }
    } else {
        (steps.to_vec(), f.clone())
    };
    let detail = format!(
        "{} | role {}, relaxed_mtu_nego {}, local ATT MTU {:?} | minimal witness ({} steps): {}",
        f_min.detail,
        cfg.role(),
        cfg.relaxed,
        cfg.att,
        steps_min.len(),
        truncate(&steps_text(&steps_min), 1500)
    );
    let f_out = Finding { detail, ..f_min };
    report_finding(rep, &f_out, steps_json(&cfg, &steps_min));
}

pub fn replay(rep: &mut Report, v: &Value) {
    let (cfg, steps) = steps_from_json(v);
    rep.evaluations += 1;
    let (f, used, run) = run_steps(cfg, &steps);
    for (class, outcome) in &run.trace {
        rep.count(&format!("hostile_outcome:{}:{}", class, outcome));
    }
    for n in &run.notes {
        rep.note(n);
    }
    rep.count_n("replay_steps_executed", used as u64);
    if let Some(f) = f {
        let detail = format!("{} | witness: {}", f.detail, truncate(&steps_text(&steps[..used]), 1500));
        report_finding(rep, &Finding { detail, ..f }, steps_json(&cfg, &steps[..used]));
    }
}
