//! C12 driver for the ICD Check-In counter through the public `Icd` API.
//!
//! The harness is the application. The documented obligations it follows (app variant 0):
//!  * `CheckInCounter::new` / `Icd::new`: "the caller MUST immediately persist the returned boundary
//!    (`persist_value`)" -> after `Icd::new` + `load_counter` it calls `persist_counter` and does not send a
//!    Check-In until that store succeeded;
//!  * `CheckInCounter::advance`: "that value MUST be persisted before any further Check-In is sent" ->
//!    when `advance_counter` returns an error (store failed) it calls `persist_counter` until it succeeds
//!    before the next Check-In;
//!  * `invalidate_counter` returned `true` -> `persist_counter` before the next Check-In.
//! One Check-In = `next_counter()` (the value goes into the message = "used"), then `advance_counter(kv)`,
//! exactly the order of `Icd::send_check_in`. A crash point therefore falls *after* the value was used and
//! before/after the application's store, which the interface permits.

use rs_matter::dm::clusters::icd_mgmt::{Icd, IcdModeConfig};
use rs_matter::persist::ICD_CHECK_IN_COUNTER_KEY;
use rs_matter::sc::checkin::CheckInCounter;

use crate::sim::kv::{KvMap, KvOpKind, SimKv};
use crate::sim::rng::Rng;

use super::c12::{Hist, Op, RunOut, Yield};

fn mode() -> IcdModeConfig {
    IcdModeConfig {
        idle_mode_duration_s: 60,
        active_mode_duration_ms: 300,
        active_mode_threshold_ms: 500,
        user_active_mode_trigger_hint: 0,
        user_active_mode_trigger_instruction: "",
    }
}

fn durable(kv: &SimKv) -> Option<u64> {
    kv.get(ICD_CHECK_IN_COUNTER_KEY)
        .and_then(|v| <[u8; 4]>::try_from(v.as_slice()).ok())
        .map(|b| u32::from_le_bytes(b) as u64)
}

enum End {
    Restart,
    Crash,
    Done,
    Abort,
}

/// `persist_counter` until it succeeds (the application refuses to send before). Returns false on crash.
fn persist_until_ok(h: &Hist, kv: &SimKv, icd: &Icd, buf: &mut [u8], inc: u32, why: &str, out: &mut RunOut) -> Result<(), End> {
    for _ in 0..4 {
        let k = kv.mut_count() + 1;
        let crash = h.crash.filter(|c| c.at_store == k);
        if matches!(crash, Some(c) if !c.after) {
            kv.fail_at(Some(k));
        }
        let r = icd.persist_counter(kv.clone(), buf);
        if let Some(c) = crash {
            out.t(format!(
                "inc {} CRASH {} store #{} (persist_counter, {})",
                inc,
                if c.after { "after" } else { "before" },
                k,
                why
            ));
            return Err(End::Crash);
        }
        match r {
            Ok(()) => {
                out.t(format!("inc {} persist_counter ({}) -> stored {:?}", inc, why, durable(kv)));
                return Ok(());
            }
            Err(_) => {
                out.t(format!("inc {} persist_counter ({}) store #{} FAILED, application retries before sending", inc, why, k));
            }
        }
    }
    out.inconclusive = Some("persist-counter-keeps-failing".into());
    Err(End::Abort)
}

fn incarnation(h: &Hist, kv: &SimKv, rng: &mut Rng, op_i: &mut usize, inc: u32, out: &mut RunOut) -> End {
    let epoch = h.epoch.max(1);
    let init = if inc == 0 { h.init } else { rng.u32() };
    let icd = Icd::new(CheckInCounter::new(init, epoch), mode());
    let mut buf = [0u8; 64];
    let reseeded = kv.get(ICD_CHECK_IN_COUNTER_KEY).is_none();
    if let Err(e) = icd.load_counter(kv.clone(), epoch, &mut buf) {
        out.inconclusive = Some(format!("load-counter-error-{:?}", e.code()));
        return End::Abort;
    }
    out.t(format!(
        "inc {} boot: stored boundary {:?}, app initial {}, epoch {} -> next_counter {}",
        inc,
        durable(kv),
        init,
        epoch,
        icd.next_counter()
    ));
    let mut failed_pending = false;
    if h.app != 2 {
        if let Err(e) = persist_until_ok(h, kv, &icd, &mut buf, inc, "right after load_counter", out) {
            return e;
        }
    }

    while *op_i < h.ops.len() {
        let op = h.ops[*op_i].clone();
        let this_op = *op_i;
        *op_i += 1;
        match op {
            Op::Restart => {
                out.t(format!("inc {} op#{} restart", inc, this_op));
                return End::Restart;
            }
            Op::FailNextStore => kv.fail_at(Some(kv.mut_count() + 1)),
            Op::Invalidate(d) => {
                let moved = icd.invalidate_counter(d);
                out.t(format!(
                    "inc {} op#{} invalidate_counter({}) -> moved={} next_counter={}",
                    inc,
                    this_op,
                    d,
                    moved,
                    icd.next_counter()
                ));
                if moved {
                    if h.app == 0 {
                        if let Err(e) = persist_until_ok(h, kv, &icd, &mut buf, inc, "after invalidate_counter", out) {
                            return e;
                        }
                    } else {
                        // sloppy application: defers the persist (the interface allows deferring until before a restart)
                        let k = kv.mut_count() + 1;
                        let crash = h.crash.filter(|c| c.at_store == k);
                        if matches!(crash, Some(c) if !c.after) {
                            kv.fail_at(Some(k));
                        }
                        let r = icd.persist_counter(kv.clone(), &mut buf);
                        if crash.is_some() {
                            return End::Crash;
                        }
                        failed_pending = r.is_err();
                    }
                }
            }
            Op::Use(n) => {
                let from = out.yields.len();
                for _ in 0..n {
                    // the Check-In message is built with this value: it is used *now*
                    let c = icd.next_counter();
                    out.yields.push(Yield {
                        value: c as u64,
                        inc,
                        op: this_op,
                        durable: durable(kv),
                        mut_idx: kv.mut_count(),
                        failed_pending,
                        reseeded,
                    });
                    let k = kv.mut_count() + 1;
                    let crash = h.crash.filter(|c| c.at_store == k);
                    if matches!(crash, Some(c) if !c.after) {
                        kv.fail_at(Some(k));
                    }
                    let r = icd.advance_counter(kv.clone(), &mut buf);
                    let stored = kv.mut_count() >= k;
                    if stored {
                        if let Some(cr) = crash {
                            summarize(out, inc, this_op, &op, from);
                            out.t(format!(
                                "inc {} CRASH {} store #{} inside advance_counter (value {} already went out)",
                                inc,
                                if cr.after { "after" } else { "before" },
                                k,
                                c
                            ));
                            return End::Crash;
                        }
                    }
                    match r {
                        Ok(()) => {
                            if stored {
                                failed_pending = false;
                            }
                        }
                        Err(_) => {
                            out.t(format!(
                                "inc {} op#{}: advance_counter after value {} -> store #{} FAILED",
                                inc, this_op, c, k
                            ));
                            if h.app == 1 {
                                failed_pending = true;
                            } else {
                                if let Err(e) = persist_until_ok(h, kv, &icd, &mut buf, inc, "after failed advance_counter", out) {
                                    summarize(out, inc, this_op, &op, from);
                                    return e;
                                }
                            }
                        }
                    }
                }
                summarize(out, inc, this_op, &op, from);
            }
        }
    }
    End::Done
}

fn summarize(out: &mut RunOut, inc: u32, op_i: usize, op: &Op, from: usize) {
    let ys = &out.yields[from..];
    let line = if ys.is_empty() {
        format!("inc {} op#{} {:?}: no Check-In sent", inc, op_i, op)
    } else {
        format!(
            "inc {} op#{} {:?}: {} Check-In value(s) {}..={} (stored boundary at first {:?}, at last {:?})",
            inc,
            op_i,
            op,
            ys.len(),
            ys[0].value,
            ys[ys.len() - 1].value,
            ys[0].durable,
            ys[ys.len() - 1].durable
        )
    };
    out.t(line);
}

pub fn run(h: &Hist) -> RunOut {
    let mut out = RunOut::default();
    let mut map = KvMap::new();
    if let Some(b) = h.start {
        // Encoding read from `Icd::load_counter`: 4 bytes little endian.
        map.insert(ICD_CHECK_IN_COUNTER_KEY, (b as u32).to_le_bytes().to_vec());
    }
    let kv = SimKv::from_map(map, true);
    let mut rng = Rng::new(h.seed);
    let mut op_i = 0usize;
    let mut inc = 0u32;
    loop {
        match incarnation(h, &kv, &mut rng, &mut op_i, inc, &mut out) {
            End::Restart => {
                out.restarts += 1;
                inc += 1;
            }
            End::Crash => {
                out.crashed = true;
                inc += 1;
            }
            End::Done | End::Abort => break,
        }
    }
    out.kvlog = kv.log();
    out.stores = kv.mut_count();
    out.failed_stores = out
        .kvlog
        .iter()
        .filter(|o| o.kind != KvOpKind::Load && o.failed)
        .count();
    out
}
