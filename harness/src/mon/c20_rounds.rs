//! C20, commissioning-rounds family: a full rs-matter device (real system clusters) is
//! commissioned once and then put through up to 20 further commissioning rounds through a
//! window opened by its administrator; each round is completed or abandoned at some step.
//! Historic defect class: each round leaked the PASE session it ran on.
//!
//! Uses the commissioning world of C07 / C08 / C11 (`mon::commis`).

use serde_json::json;

use rs_matter::transport::session::SessionMode;

use crate::report::Report;
use crate::sim::exec::RunStatus;
use crate::sim::rng::Rng;

use super::commis::{self, Ctx as SCtx, Step, WorldParams};

#[derive(Clone, Copy, Debug, PartialEq, Eq)]
pub enum Round {
    /// full commissioning of a second fabric, which its own admin then removes again
    Complete,
    /// PASE + ArmFailSafe, then the administrator revokes the window
    AbandonRevoke,
    /// PASE + ArmFailSafe(3 s), then silence until the fail-safe expires
    AbandonExpire,
    /// PASE ... AddNOC, then silence until the fail-safe expires (fabric rolled back)
    AbandonAfterNoc,
    /// PASE + ArmFailSafe, then ArmFailSafe(0) (explicit disarm = rollback)
    AbandonDisarm,
}

pub const ROUNDS: &[Round] = &[
    Round::Complete,
    Round::AbandonRevoke,
    Round::AbandonExpire,
    Round::AbandonAfterNoc,
    Round::AbandonDisarm,
];

#[derive(Clone, Debug)]
pub struct Params {
    pub seed: u64,
    pub rounds: Vec<Round>,
    pub shuffle: bool,
}

pub fn gen_params(rng: &mut Rng, thorough: bool) -> Params {
    let n = if thorough && rng.chance(1, 4) { 40 } else { 20 };
    let mix = rng.below(4);
    let rounds = (0..n)
        .map(|_| match mix {
            0 => Round::Complete,
            1 => {
                if rng.bool() {
                    Round::Complete
                } else {
                    *rng.pick(ROUNDS)
                }
            }
            _ => *rng.pick(ROUNDS),
        })
        .collect();
    Params {
        seed: rng.u64(),
        rounds,
        shuffle: true,
    }
}

pub fn shape(p: &Params) -> String {
    let mut s = String::from("rounds|");
    for r in &p.rounds {
        s.push_str(&format!("{:?};", r));
    }
    s
}

const QUIESCE_SLEEP_MS: u32 = 160_000;

/// Steps of the scenario and, per round, the index of its last step.
fn steps_of(p: &Params) -> (Vec<Step>, Vec<(Round, usize, usize)>, usize) {
    let mut steps = commis::happy_path();
    let mut marks = vec![];
    for r in &p.rounds {
        let first = steps.len();
        steps.push(Step::OpenWindow { ctx: SCtx::CaseA });
        match r {
            Round::Complete => {
                steps.push(Step::Arm { ctx: SCtx::Pase, secs: 60 });
                steps.push(Step::Csr { ctx: SCtx::Pase, update: false });
                steps.push(Step::AddRoot { ctx: SCtx::Pase, fab_b: true });
                steps.push(Step::AddNoc { ctx: SCtx::Pase, fab_b: true });
                steps.push(Step::Case { fab_b: true });
                steps.push(Step::Complete { ctx: SCtx::CaseB });
                steps.push(Step::RemoveFabric { ctx: SCtx::CaseB, idx: 2 });
            }
            Round::AbandonRevoke => {
                steps.push(Step::Arm { ctx: SCtx::Pase, secs: 60 });
                steps.push(Step::Revoke { ctx: SCtx::CaseA });
            }
            Round::AbandonExpire => {
                steps.push(Step::Arm { ctx: SCtx::Pase, secs: 3 });
                steps.push(Step::Sleep { ms: 5_500 });
            }
            Round::AbandonAfterNoc => {
                steps.push(Step::Arm { ctx: SCtx::Pase, secs: 4 });
                steps.push(Step::Csr { ctx: SCtx::Pase, update: false });
                steps.push(Step::AddRoot { ctx: SCtx::Pase, fab_b: true });
                steps.push(Step::AddNoc { ctx: SCtx::Pase, fab_b: true });
                steps.push(Step::Sleep { ms: 6_500 });
            }
            Round::AbandonDisarm => {
                steps.push(Step::Arm { ctx: SCtx::Pase, secs: 60 });
                steps.push(Step::Arm { ctx: SCtx::Pase, secs: 0 });
                steps.push(Step::Revoke { ctx: SCtx::CaseA });
            }
        }
        marks.push((*r, first, steps.len() - 1));
    }
    let quiesce_at = steps.len();
    steps.push(Step::Sleep { ms: QUIESCE_SLEEP_MS });
    steps.push(Step::Case { fab_b: false });
    steps.push(Step::Probe { ctx: SCtx::CaseA });
    (steps, marks, quiesce_at)
}

pub fn run_and_judge(rep: &mut Report, p: &Params, replay: serde_json::Value, sample: bool) {
    let (steps, marks, quiesce_at) = steps_of(p);
    let wp = WorldParams {
        seed: p.seed,
        steps,
        shuffle: p.shuffle,
        kv_fail_at: None,
        chaos: 0,
    };
    let w = commis::run_world(&wp);
    rep.count("family:rounds");
    rep.interleavings.insert(w.sched);
    if let Some(msg) = &w.panic {
        rep.violation(
            "no-panic",
            &format!("C20/panic/rounds/{}", crate::util::panic_class(msg)),
            format!("panic during repeated commissioning rounds: {}; params {:?}", msg, p),
            replay,
        );
        return;
    }
    if w.setup_failed {
        rep.inconclusive("setup-failed");
        return;
    }
    if w.status != Some(RunStatus::Done) {
        rep.inconclusive(&format!("run-status-{:?}/rounds", w.status));
        return;
    }
    let by_index = |i: usize| w.log.iter().find(|l| l.index == i);

    // the first commissioning must have worked, else the scenario is void
    let first_ok = (0..commis::happy_path().len()).all(|i| by_index(i).map(|l| l.success).unwrap_or(false));
    if !first_ok {
        rep.inconclusive("rounds:first-commissioning-failed");
        return;
    }

    let mut occupancy: Vec<usize> = vec![];
    for (r, first, last) in &marks {
        let all_ok = (*first..=*last).all(|i| by_index(i).map(|l| l.success).unwrap_or(false));
        let Some(l) = by_index(*last) else { continue };
        occupancy.push(l.dev.sessions.len());
        match r {
            Round::Complete => {
                let cc_ok = (*first..=*last)
                    .find(|i| matches!(wp.steps[*i], Step::Complete { .. }))
                    .and_then(by_index)
                    .map(|l| l.success)
                    .unwrap_or(false);
                if cc_ok {
                    rep.count("rounds_completed");
                    if !all_ok {
                        rep.count("rounds_completed_with_a_failed_side_step");
                    }
                } else {
                    rep.count("rounds_complete_attempted_but_a_step_failed");
                }
                // CommissioningComplete succeeded => by Matter the PASE session of this round is
                // terminated: its slot does not belong to an established session any more.
                let cc = (*first..=*last).find(|i| matches!(wp.steps[*i], Step::Complete { .. }));
                if let Some(cc) = cc.and_then(by_index) {
                    if cc.success {
                        rep.count("rounds_pase_purge_checked");
                        let left: Vec<_> = cc
                            .dev
                            .sessions
                            .iter()
                            .filter(|s| matches!(s.mode, SessionMode::Pase { .. }) && !s.expired)
                            .collect();
                        if !left.is_empty() {
                            rep.violation(
                                "rounds/pase-session-survives-commissioning-complete",
                                "C20/rounds/pase-session-survives-commissioning-complete",
                                format!(
                                    "after a successful CommissioningComplete (step {}) the device still holds {} live PASE session(s) (ids {:?}): the slot of a terminated session must be free again; each further round adds one; params {:?}",
                                    cc.index, left.len(), left.iter().map(|s| s.id).collect::<Vec<_>>(), p
                                ),
                                replay.clone(),
                            );
                        }
                    }
                }
            }
            _ => {
                // "abandoned" is what the round is by construction once PASE was established
                let pase_ok = by_index(*first + 1).map(|l| l.success).unwrap_or(false);
                if pase_ok {
                    rep.count("rounds_abandoned");
                    rep.count(&format!("rounds_abandoned:{:?}", r));
                } else {
                    rep.count("rounds_abandon_attempted_but_pase_failed");
                }
            }
        }
    }

    // quiescence: 160 s after the last round (fail-safe 60 s, receive time-outs, MRP)
    if let Some(q) = by_index(quiesce_at) {
        rep.count("quiescence_checks");
        for s in &q.dev.sessions {
            if s.reserved {
                rep.violation(
                    "quiescence/reserved-session-left",
                    "C20/quiescence/reserved-session-left/device-after-rounds",
                    format!("{} s after {} commissioning rounds the device still holds reserved session {}; params {:?}", QUIESCE_SLEEP_MS / 1000, p.rounds.len(), s.id, p),
                    replay.clone(),
                );
            }
            if !s.exchanges.is_empty() {
                rep.violation(
                    "quiescence/exchange-slot-in-use",
                    &format!(
                        "C20/quiescence/exchange-slot-in-use/device-after-rounds/{}",
                        if s.exchanges.iter().any(|e| e.initiator) { "initiator" } else { "responder" }
                    ),
                    format!("{} s after {} commissioning rounds the device still has {} exchange slot(s) in use on session {}: {:?}; params {:?}", QUIESCE_SLEEP_MS / 1000, p.rounds.len(), s.exchanges.len(), s.id, s.exchanges, p),
                    replay.clone(),
                );
            }
            if matches!(s.mode, SessionMode::Pase { .. }) && !s.expired {
                // every round has ended by CommissioningComplete, RevokeCommissioning or the
                // expiry of its fail-safe: no PASE session is in use any more
                rep.violation(
                    "rounds/pase-session-survives-end-of-commissioning",
                    "C20/rounds/pase-session-left-at-quiescence",
                    format!("{} s after the last of {} commissioning rounds (all ended: completed, revoked or fail-safe expired) the device still holds live PASE session {}; params {:?}", QUIESCE_SLEEP_MS / 1000, p.rounds.len(), s.id, p),
                    replay.clone(),
                );
            }
        }
        if q.dev.window_open {
            rep.note("rounds:window-still-open-at-quiescence");
        }
    } else {
        rep.inconclusive("rounds:quiescence-step-not-reached");
        return;
    }

    // probe: a legitimate handshake + a read over it
    let case_ok = by_index(quiesce_at + 1).map(|l| l.success).unwrap_or(false);
    let read_ok = by_index(quiesce_at + 2).map(|l| l.success).unwrap_or(false);
    if case_ok && read_ok {
        rep.count("probe_handshakes_ok");
        rep.count("probe:rounds-quiescent:Case:ok");
    } else {
        let out = by_index(quiesce_at + 1).map(|l| l.out.clone()).unwrap_or_default();
        rep.violation(
            "probe/legitimate-handshake-fails-at-quiescence",
            &format!("C20/probe-fails/quiescent/rounds/{}", if case_ok { "read" } else { "case" }),
            format!("after {} commissioning rounds and quiescence the administrator's CASE handshake / read failed ({}); params {:?}", p.rounds.len(), out, p),
            replay.clone(),
        );
    }

    // occupancy trend: observed, not judged (lazily reclaimed unsecured sessions are allowed)
    if occupancy.len() >= 4 {
        let first = occupancy[1];
        let max = occupancy.iter().copied().max().unwrap_or(0);
        rep.count(&format!("rounds_occupancy_growth:{}", max.saturating_sub(first).min(9)));
    }
    if sample {
        rep.sample(json!({
            "family": "rounds",
            "rounds": p.rounds.iter().map(|r| format!("{:?}", r)).collect::<Vec<_>>(),
            "device_sessions_after_each_round": occupancy,
            "steps_failed": w.log.iter().filter(|l| !l.success).map(|l| format!("{}:{:?}:{}", l.index, l.step, l.out)).take(12).collect::<Vec<_>>(),
        }));
    }
}
