//! C18 workload 1 — well-behaved conversations on the virtual clock.
//!
//! Topologies: (0) harness peer as central <-> rs-matter `Btp` as peripheral,
//! (1) rs-matter `Btp` as central (initiator) <-> harness peer as peripheral,
//! (2) rs-matter central <-> rs-matter peripheral.
//! The rs-matter ends are driven exactly like the in-tree GATT drivers do: one task feeds
//! `process_incoming`, one loops `process_outgoing` / `wait_outgoing`, the application
//! tasks call `send` / `recv`, one watches `wait_timeout`.
//!
//! Oracles: delivered sequence == submitted sequence in both directions; from the tap at the
//! `Btp` API boundary, recomputed independently: unacknowledged segments never exceed the
//! negotiated window, every accepted segment is acknowledged before the 15 s deadline,
//! emitted segments are conformant, conformant segments are not refused; no panic.

use core::future::poll_fn;
use core::task::{Poll, Waker};
use std::cell::{Cell, RefCell};
use std::collections::VecDeque;
use std::panic::{catch_unwind, AssertUnwindSafe};

use embassy_futures::select::select;
use embassy_time::{Instant, Timer};
use serde_json::{json, Value};

use rs_matter::transport::network::btp::Btp;
use rs_matter::transport::network::BtAddr;

use crate::report::Report;
use crate::sim::clock;
use crate::sim::exec::{self, Limits, RunStatus};
use crate::sim::rng::{subseed, Fnv, Rng};

use super::c18::{hex, report_finding, take_panic, truncate, Finding};
use super::c18_ref::*;

const ADDR_CENTRAL: BtAddr = BtAddr([0xc1, 2, 3, 4, 5, 6]);
const ADDR_PERIPH: BtAddr = BtAddr([0xb2, 2, 3, 4, 5, 6]);
const MAX_SDU: usize = 1232;

pub const TOPO_NAMES: [&str; 3] = [
    "peer-central/rs-peripheral",
    "rs-central/peer-peripheral",
    "rs-central/rs-peripheral",
];

#[derive(Clone, Debug)]
pub struct ConvParams {
    pub seed: u64,
    pub topo: u8,
    /// Local ATT MTU reported to rs-matter by the "BLE stack" (both ends in topology 2).
    pub att_mtu: Option<u16>,
    /// ATT MTU field of the harness central's handshake request (topology 0).
    pub req_mtu: u16,
    /// Window field of the harness central's request (0) / cap chosen by the harness peripheral (1).
    pub req_win: u8,
    /// Segment size the harness peripheral would like to select (topology 1).
    pub resp_seg: u16,
    pub relaxed: bool,
    pub lat_min_us: u64,
    pub lat_max_us: u64,
    pub ack_timer_ms: u64,
    pub imm_thr: i64,
    pub c_on_last: bool,
    pub burst: u32,
    pub recv_delay_max_ms: u64,
    /// (gap before handing the message to the transport in ms, length), central -> peripheral.
    pub c2p: Vec<(u64, usize)>,
    pub p2c: Vec<(u64, usize)>,
}

impl ConvParams {
    pub fn to_json(&self) -> Value {
        json!({
            "check": "C18", "kind": "conv", "seed": self.seed, "topo": self.topo,
            "att_mtu": self.att_mtu, "req_mtu": self.req_mtu, "req_win": self.req_win,
            "resp_seg": self.resp_seg, "relaxed": self.relaxed,
            "lat_min_us": self.lat_min_us, "lat_max_us": self.lat_max_us,
            "ack_timer_ms": self.ack_timer_ms, "imm_thr": self.imm_thr, "c_on_last": self.c_on_last,
            "burst": self.burst, "recv_delay_max_ms": self.recv_delay_max_ms,
            "c2p": self.c2p.iter().map(|(g, l)| json!([g, l])).collect::<Vec<_>>(),
            "p2c": self.p2c.iter().map(|(g, l)| json!([g, l])).collect::<Vec<_>>(),
        })
    }

    pub fn from_json(v: &Value) -> Option<ConvParams> {
        let list = |k: &str| -> Vec<(u64, usize)> {
            v[k].as_array()
                .map(|a| {
                    a.iter()
                        .map(|e| (e[0].as_u64().unwrap_or(0), e[1].as_u64().unwrap_or(0) as usize))
                        .collect()
                })
                .unwrap_or_default()
        };
        Some(ConvParams {
            seed: v["seed"].as_u64()?,
            topo: v["topo"].as_u64()? as u8,
            att_mtu: v["att_mtu"].as_u64().map(|x| x as u16),
            req_mtu: v["req_mtu"].as_u64()? as u16,
            req_win: v["req_win"].as_u64()? as u8,
            resp_seg: v["resp_seg"].as_u64()? as u16,
            relaxed: v["relaxed"].as_bool()?,
            lat_min_us: v["lat_min_us"].as_u64()?,
            lat_max_us: v["lat_max_us"].as_u64()?,
            ack_timer_ms: v["ack_timer_ms"].as_u64()?,
            imm_thr: v["imm_thr"].as_i64()?,
            c_on_last: v["c_on_last"].as_bool()?,
            burst: v["burst"].as_u64()? as u32,
            recv_delay_max_ms: v["recv_delay_max_ms"].as_u64()?,
            c2p: list("c2p"),
            p2c: list("p2c"),
        })
    }
}

fn predicted_seg(p: &ConvParams) -> usize {
    let clamp = |m: u16| m.clamp(23, 247) as usize - 3;
    match p.topo {
        0 => {
            if p.req_mtu == 0 {
                clamp(p.att_mtu.unwrap_or(23))
            } else if p.att_mtu == Some(p.req_mtu) {
                clamp(p.req_mtu)
            } else if p.relaxed {
                clamp(p.req_mtu.min(p.att_mtu.unwrap_or(23)))
            } else {
                20
            }
        }
        1 => (p.resp_seg as usize).min(clamp(p.att_mtu.unwrap_or(23))),
        _ => clamp(p.att_mtu.unwrap_or(23)),
    }
}

fn pick_len(rng: &mut Rng, s: usize, allow_zero: bool) -> usize {
    let l = match rng.below(100) {
        0..=5 => 0,
        6..=11 => 1,
        12..=15 => 2,
        16..=35 => s.saturating_sub(7) + rng.usize(10),
        36..=50 => (2 * s).saturating_sub(10) + rng.usize(13),
        51..=54 => (3 * s).saturating_sub(12) + rng.usize(14),
        55..=59 => MAX_SDU - rng.usize(2),
        60..=62 => MAX_SDU - rng.usize(40),
        63..=80 => 1 + rng.usize(4 * s),
        _ => 1 + rng.usize(MAX_SDU),
    };
    let l = l.min(MAX_SDU);
    if l == 0 && !allow_zero {
        1
    } else {
        l
    }
}

pub fn gen_params(seed: u64, scale: f64) -> ConvParams {
    let mut rng = Rng::new(seed);
    let topo = match rng.below(10) {
        0..=5 => 0u8,
        6..=7 => 1,
        _ => 2,
    };
    let att_mtu = match rng.below(12) {
        0 | 1 => None,
        2 => Some(23),
        3 | 4 => Some(24 + rng.below(77) as u16),
        5 | 6 => Some(101 + rng.below(146) as u16),
        7 | 8 => Some(247),
        9 => Some(*rng.pick(&[248u16, 251, 512, 517])),
        10 => Some(*rng.pick(&[185u16, 100, 64, 50])),
        _ => Some(23 + rng.below(225) as u16),
    };
    let req_mtu = match rng.below(10) {
        0 | 1 => 0,
        2..=6 => att_mtu.unwrap_or(*rng.pick(&[23u16, 100, 247])),
        7 => *rng.pick(&[23u16, 64, 100, 185, 247, 300]),
        _ => att_mtu.map(|m| m.saturating_sub(1 + rng.below(5) as u16).max(23)).unwrap_or(185),
    };
    let req_win = *rng.pick(&[2u8, 3, 4, 5, 6, 6, 6, 8, 10, 16, 32, 79, 80, 128, 255]);
    let resp_seg = *rng.pick(&[20u16, 21, 33, 64, 100, 128, 182, 200, 243, 244]);
    let relaxed = rng.chance(3, 10);
    let (lat_min_us, lat_max_us) = *rng.pick(&[(0u64, 0u64), (0, 2_000), (1_000, 1_000), (7_500, 30_000), (100, 50_000), (20_000, 20_000)]);
    let ack_timer_ms = *rng.pick(&[200u64, 1000, 2500, 2500, 5000, 7000]);
    let c_on_last = rng.bool();
    let burst = 1 + rng.below(8) as u32;
    let recv_delay_max_ms = *rng.pick(&[0u64, 0, 5, 50]);

    let mut p = ConvParams {
        seed, topo, att_mtu, req_mtu, req_win, resp_seg, relaxed, lat_min_us, lat_max_us,
        ack_timer_ms, imm_thr: 1, c_on_last, burst, recv_delay_max_ms, c2p: vec![], p2c: vec![],
    };
    let s = predicted_seg(&p);
    // Immediate-ack threshold: small windows would ping-pong stand-alone acks forever.
    p.imm_thr = if req_win <= 2 { 0 } else { *rng.pick(&[0i64, 1, 1, 2]) };

    let large = rng.chance(if scale < 1.0 { 5 } else { 35 }, 100);
    let target_segments = if large { 300 + rng.usize(600) } else { 2 + rng.usize(60) };
    let idle_pct = if large { 1 } else { 18 };
    let per_seg = s.saturating_sub(3).max(1);
    let split = rng.below(5); // 0: only c2p, 1: only p2c, else both
    let mut est = [0usize; 2];
    let mut lists: [Vec<(u64, usize)>; 2] = [vec![], vec![]];
    loop {
        let d = match split {
            0 => 0,
            1 => 1,
            _ => rng.usize(2),
        };
        // rs-matter's send() refuses empty messages: hand it one only rarely.
        let len = pick_len(&mut rng, s, true);
        let gap = if rng.chance(idle_pct, 100) {
            *rng.pick(&[1_000u64, 5_000, 14_000, 14_900, 15_000, 16_000, 29_000, 31_000, 45_000])
        } else if rng.chance(1, 3) {
            rng.below(200)
        } else {
            0
        };
        est[d] += len / per_seg + 1;
        lists[d].push((gap, len));
        if est[0] + est[1] >= target_segments || lists[0].len() + lists[1].len() > 2000 {
            break;
        }
    }
    let [a, b] = lists;
    p.c2p = a;
    p.p2c = b;
    p
}

fn payload(seed: u64, dir: u8, idx: usize, len: usize) -> Vec<u8> {
    let mut r = Rng::new(subseed(seed, &[77, dir as u64, idx as u64]));
    let mut v = r.bytes(len);
    if len >= 1 {
        v[0] = (idx as u8).wrapping_mul(2).wrapping_add(dir);
    }
    if len >= 3 {
        v[1] = (idx >> 8) as u8;
        v[2] = idx as u8;
    }
    v
}

// ---------------------------------------------------------------------------------------
// Plumbing
// ---------------------------------------------------------------------------------------

struct Sig {
    flag: Cell<bool>,
    waker: RefCell<Option<Waker>>,
}

impl Sig {
    fn new() -> Self {
        Self { flag: Cell::new(false), waker: RefCell::new(None) }
    }
    fn set(&self) {
        self.flag.set(true);
        let w = self.waker.borrow_mut().take();
        if let Some(w) = w {
            w.wake();
        }
    }
    async fn wait(&self) {
        poll_fn(|cx| {
            if self.flag.replace(false) {
                Poll::Ready(())
            } else {
                *self.waker.borrow_mut() = Some(cx.waker().clone());
                Poll::Pending
            }
        })
        .await
    }
}

/// One direction of the GATT link: reliable, ordered, with latency.
struct Link {
    q: RefCell<VecDeque<(u64, Vec<u8>)>>,
    sig: Sig,
    last_at: Cell<u64>,
}

impl Link {
    fn new() -> Self {
        Self { q: RefCell::new(VecDeque::new()), sig: Sig::new(), last_at: Cell::new(0) }
    }
    fn push(&self, at: u64, b: Vec<u8>) {
        let at = at.max(self.last_at.get());
        self.last_at.set(at);
        self.q.borrow_mut().push_back((at, b));
        self.sig.set();
    }
    fn head_time(&self) -> Option<u64> {
        self.q.borrow().front().map(|(t, _)| *t)
    }
    fn pop_due(&self) -> Option<Vec<u8>> {
        let now = clock::now();
        let mut q = self.q.borrow_mut();
        if q.front().map(|(t, _)| *t <= now).unwrap_or(false) {
            q.pop_front().map(|(_, b)| b)
        } else {
            None
        }
    }
    async fn next(&self) -> Vec<u8> {
        loop {
            if let Some(b) = self.pop_due() {
                return b;
            }
            match self.head_time() {
                Some(t) => Timer::at(Instant::from_ticks(t)).await,
                None => self.sig.wait().await,
            }
        }
    }
}

struct Conv<'a> {
    p: &'a ConvParams,
    #[allow(dead_code)]
    topo: &'static str,
    findings: RefCell<Vec<Finding>>,
    counters: RefCell<Vec<(String, u64)>>,
    notes: RefCell<Vec<String>>,
    stop: Cell<bool>,
    closed: Cell<bool>,
    progress: Sig,
    rng: RefCell<Rng>,
    in_api: Cell<&'static str>,
    segments: Cell<u64>,
    /// Data segments emitted + messages submitted + messages delivered (liveness watch).
    progress_ctr: Cell<u64>,
    /// Messages of each direction: [0] central->peripheral, [1] peripheral->central.
    msgs: [Vec<Vec<u8>>; 2],
}

impl Conv<'_> {
    fn lat(&self) -> u64 {
        let (a, b) = (self.p.lat_min_us, self.p.lat_max_us);
        if b <= a {
            a
        } else {
            self.rng.borrow_mut().range(a, b)
        }
    }
    fn finding(&self, rule: &str, sig_tail: String, detail: String) {
        self.findings.borrow_mut().push(Finding {
            rule: rule.to_string(),
            sig: format!("C18/conv/{}", sig_tail),
            detail,
            inconclusive: false,
        });
        self.stop.set(true);
        self.progress.set();
    }
    /// Like `finding`, but the conversation goes on (used for the ack deadline, so that
    /// delivery and window accounting stay observable in idle-heavy conversations).
    fn finding_continue(&self, rule: &str, sig_tail: String, detail: String) {
        let sig = format!("C18/conv/{}", sig_tail);
        let mut f = self.findings.borrow_mut();
        if f.iter().any(|x| x.sig == sig) {
            return;
        }
        f.push(Finding { rule: rule.to_string(), sig, detail, inconclusive: false });
    }
    fn harness_issue(&self, what: &str, detail: String) {
        self.findings.borrow_mut().push(Finding {
            rule: "harness-self-check".into(),
            sig: format!("C18/conv/harness/{}", what),
            detail,
            inconclusive: true,
        });
        self.stop.set(true);
        self.progress.set();
    }
    fn count(&self, k: &str) {
        self.count_n(k, 1);
    }
    fn progressed(&self) {
        self.progress_ctr.set(self.progress_ctr.get() + 1);
    }
    fn count_n(&self, k: &str, n: u64) {
        self.counters.borrow_mut().push((k.to_string(), n));
    }
    fn note(&self, k: &str) {
        self.notes.borrow_mut().push(k.to_string());
    }
}

/// Receiver-side comparison of delivered messages with the submitted list.
struct Delivery {
    dir: &'static str,
    ptr: Cell<usize>,
    delivered: Cell<u64>,
}

impl Delivery {
    fn new(dir: &'static str) -> Self {
        Self { dir, ptr: Cell::new(0), delivered: Cell::new(0) }
    }

    /// `skip(i)`: message i is not expected to come out (refused at submission, or empty and
    /// the receiving end may swallow it).
    fn on_delivery(&self, c: &Conv, expected: &[Vec<u8>], may_skip: &dyn Fn(usize, &[u8]) -> bool, got: &[u8]) {
        let mut i = self.ptr.get();
        while i < expected.len() && expected[i] != got && may_skip(i, got) {
            i += 1;
        }
        if i < expected.len() && expected[i] == got {
            self.ptr.set(i + 1);
            self.delivered.set(self.delivered.get() + 1);
            c.progressed();
            c.progress.set();
            return;
        }
        let j = self.ptr.get();
        let kind = if j > 0 && expected[j - 1] == got {
            "duplicate"
        } else if expected.iter().skip(j).any(|m| m == got) {
            "reordered-or-lost"
        } else if expected.iter().any(|m| m == got) {
            "replayed"
        } else if j >= expected.len() {
            "extra"
        } else {
            "corrupted"
        };
        c.finding(
            "conv/delivery-exactly-once-in-order-unmodified",
            format!("delivery/{}/{}", self.dir, kind),
            format!(
                "direction {}: delivery #{} is {} bytes [{}] but the next submitted message (#{}) is {}; the statement requires every message to come out exactly once, unmodified and in order",
                self.dir,
                self.delivered.get(),
                got.len(),
                truncate(&hex(got), 80),
                j,
                expected.get(j).map(|m| format!("{} bytes [{}]", m.len(), truncate(&hex(m), 80))).unwrap_or("none (all delivered)".into())
            ),
        );
    }

    fn remaining(&self, expected: &[Vec<u8>], may_skip: &dyn Fn(usize) -> bool) -> usize {
        (self.ptr.get()..expected.len()).filter(|i| !may_skip(*i)).count()
    }
}

/// One real rs-matter end plus its tap model.
struct RsSide<'a> {
    label: &'static str,
    central: bool,
    btp: &'a Btp,
    view: RefCell<End>,
    att: Option<u16>,
    remote: BtAddr,
    inbox: Link,
    /// Index into `Conv::msgs` of the direction this end sends / receives.
    send_dir: usize,
    sends_done: Cell<bool>,
    send_refused: RefCell<Vec<usize>>,
    delivery: Delivery,
    hs_req: Cell<Option<HsReq>>,
}

impl<'a> RsSide<'a> {
    fn new(label: &'static str, central: bool, btp: &'a Btp, att: Option<u16>) -> Self {
        Self {
            label,
            central,
            btp,
            view: RefCell::new(End::default()),
            att,
            remote: if central { ADDR_PERIPH } else { ADDR_CENTRAL },
            inbox: Link::new(),
            send_dir: if central { 0 } else { 1 },
            sends_done: Cell::new(false),
            send_refused: RefCell::new(Vec::new()),
            delivery: Delivery::new(if central { "to-rs-central" } else { "to-rs-peripheral" }),
            hs_req: Cell::new(None),
        }
    }
}

fn check_acked(c: &Conv, me: &RsSide, acked: &[(u64, u64, &'static str)], now: u64) {
    for &(abs, t, kind) in acked {
        let late = now - t;
        if late >= ACK_DEADLINE_US {
            let when = if late == ACK_DEADLINE_US { "at-deadline" } else { "after-deadline" };
            c.count(&format!("ack_late:{}:{}:{}", me.label, kind, when));
            if late > 20_000_000 {
                c.count("ack_late_by_more_than_20s");
            }
            if late > 29_000_000 {
                c.count("ack_late_by_more_than_29s");
            }
            c.finding_continue(
                "conv/ack-before-deadline",
                format!("ack-deadline/{}/{}/{}", me.label, if kind == "handshake-response" { kind } else { "segment" }, when),
                format!(
                    "{} accepted the peer's segment #{} ({}) at t={}us and first acknowledged it at t={}us, {}us later; the statement requires an acknowledgement *before* the 15 s deadline (the peer's ack-received timer started no later than the receipt and has expired by then). The end was polled continuously (process_outgoing/wait_outgoing loop).",
                    me.label, abs, kind, t, now, late
                ),
            );
        } else {
            c.count("ack_in_time");
        }
    }
}

/// Tap + bookkeeping for a buffer rs-matter just emitted.
fn trace_on() -> bool {
    std::env::var_os("C18_TRACE").is_some()
}

fn on_rs_emission(c: &Conv, me: &RsSide, b: &[u8]) {
    let now = clock::now();
    if trace_on() {
        let v = me.view.borrow();
        eprintln!("t={:>10} {} EMIT [{}] out {}/{} in {}/{}", now, me.label, truncate(&hex(b), 16), v.out_acked, v.out_count, v.in_acked, v.in_count);
    }
    c.segments.set(c.segments.get() + 1);
    let Ok(s) = Seg::decode(b) else {
        c.finding("conv/emitted-conformant", format!("emitted-violating-segment/{}/undecodable", me.label), format!("{} emitted [{}]", me.label, hex(b)));
        return;
    };
    if s.is(F_H) {
        if me.central {
            match HsReq::decode(b) {
                Some(r) => me.hs_req.set(Some(r)),
                None => c.finding("conv/handshake", format!("handshake/{}/malformed-request", me.label), format!("emitted [{}]", hex(b))),
            }
        } else {
            match HsResp::decode(b) {
                Some(r) => {
                    let req = me.hs_req.get();
                    let mut bad: Option<&'static str> = None;
                    if !(20..=244).contains(&r.seg) {
                        bad = Some("segment-size-out-of-range");
                    } else if r.window == 0 {
                        bad = Some("window-0");
                    } else if let Some(q) = req {
                        if r.window > q.window {
                            bad = Some("window-above-requested");
                        } else if q.mtu >= 23 && r.seg > q.mtu - 3 {
                            bad = Some("segment-size-above-requested");
                        }
                    }
                    if bad.is_none() {
                        if let Some(a) = me.att {
                            if r.seg > a.max(23) - 3 {
                                bad = Some("segment-size-above-local-att-mtu");
                            }
                        }
                    }
                    if let Some(bad) = bad {
                        c.finding("conv/handshake", format!("handshake/{}/{}", me.label, bad),
                            format!("request {:?}, local ATT MTU {:?}, response {:?}", req, me.att, r));
                        return;
                    }
                    if r.version != 4 {
                        c.note("handshake_response_version_not_4");
                    }
                    me.view.borrow_mut().establish_peripheral(r.seg as usize, r.window as u64);
                }
                None => c.finding("conv/handshake", format!("handshake/{}/malformed-response", me.label), format!("emitted [{}]", hex(b))),
            }
        }
        return;
    }
    if s.is(F_B) || s.is(F_C) || s.is(F_E) {
        c.progressed();
    }
    let mut v = me.view.borrow_mut();
    if !v.established {
        drop(v);
        c.finding("conv/emitted-conformant", format!("emitted-violating-segment/{}/data-before-handshake", me.label), format!("{} emitted [{}] before the handshake completed", me.label, truncate(&hex(b), 80)));
        return;
    }
    let before = (v.out_count, v.out_acked, v.win);
    match v.note_outgoing(&s, now) {
        Ok(acked) => {
            drop(v);
            check_acked(c, me, &acked, now);
        }
        Err(rule) => {
            drop(v);
            let rule_name = if rule == "emitted-beyond-peer-window" { "conv/window-respected" } else { "conv/emitted-conformant" };
            c.finding(rule_name, format!("emitted-violating-segment/{}/{}", me.label, rule),
                format!("{} emitted [{}] (seq {:?}, ack {:?}) with {} own segments sent, {} acknowledged by the peer, negotiated window {}: {}",
                    me.label, truncate(&hex(b), 60), s.seq, s.ack, before.0, before.1, before.2, rule));
        }
    }
}

async fn rs_pump(c: &Conv<'_>, me: &RsSide<'_>, out: &Link) {
    let mut buf = [0u8; 600];
    loop {
        if c.stop.get() {
            return;
        }
        c.in_api.set("process_outgoing");
        let r = me.btp.process_outgoing(me.att, &mut buf);
        c.in_api.set("");
        match r {
            Ok(0) => me.btp.wait_outgoing().await,
            Ok(n) => {
                let b = buf[..n].to_vec();
                on_rs_emission(c, me, &b);
                if c.stop.get() {
                    return;
                }
                let lat = c.lat();
                out.push(clock::now() + lat, b);
                // the driver awaits the indication confirmation / write response
                let d = if lat == 0 { 0 } else { c.rng.borrow_mut().below(lat + 1) };
                if d > 0 {
                    exec::sleep_us(d).await;
                } else {
                    exec::yield_now().await;
                }
            }
            Err(e) => {
                c.finding("conv/no-error-between-well-behaved-ends", format!("process-outgoing-error/{}", me.label), format!("process_outgoing returned {:?}", e));
                return;
            }
        }
    }
}

async fn rs_rx(c: &Conv<'_>, me: &RsSide<'_>, from_model_peer: bool) {
    loop {
        let b = me.inbox.next().await;
        if c.stop.get() {
            return;
        }
        let now = clock::now();
        let dec = Seg::decode(&b);
        let is_hs = dec.as_ref().map(|s| s.is(F_H)).unwrap_or(false);
        let verdict = match &dec {
            Ok(s) if !is_hs && me.view.borrow().established => Some(me.view.borrow().classify_incoming(s)),
            _ => None,
        };
        c.in_api.set("process_incoming");
        let r = me.btp.process_incoming(me.att, me.remote, &b);
        c.in_api.set("");
        if trace_on() {
            let v = me.view.borrow();
            eprintln!("t={:>10} {} RECV [{}] -> {:?} out {}/{} in {}/{}", now, me.label, truncate(&hex(&b), 16), r.is_ok(), v.out_acked, v.out_count, v.in_acked, v.in_count);
        }
        if is_hs {
            match r {
                Ok(()) => {
                    if me.central {
                        if let Some(resp) = HsResp::decode(&b) {
                            me.view.borrow_mut().establish_central(resp.seg as usize, resp.window as u64, now);
                        }
                    } else {
                        me.hs_req.set(HsReq::decode(&b));
                    }
                }
                Err(e) => c.finding("conv/handshake", format!("handshake/{}/refused", me.label), format!("handshake [{}] refused: {:?}", hex(&b), e)),
            }
            continue;
        }
        let Some(verdict) = verdict else {
            c.harness_issue("segment-before-handshake", format!("[{}] delivered to {} before its handshake", hex(&b), me.label));
            return;
        };
        let s = dec.unwrap();
        match (verdict, r) {
            (Verdict::Valid, Ok(())) => me.view.borrow_mut().apply_incoming(&s, now),
            (Verdict::Valid, Err(e)) => {
                let v = me.view.borrow();
                let sub = if s.is(F_B) && !s.is(F_E) && s.msg_len.map(|l| l as usize <= v.seg).unwrap_or(false) {
                    "first-of-multi-segment-message-not-longer-than-segment-size"
                } else {
                    "other"
                };
                c.finding("conv/conformant-segment-accepted", format!("refused-conformant-segment/{}/{}", me.label, sub),
                    format!("{} refused the conformant segment [{}] with {:?} (expected seq {}, {} of window {} unacknowledged, message remaining {:?}, segment size {})",
                        me.label, truncate(&hex(&b), 80), e, v.next_in_seq(), v.in_pending(), v.win, v.in_remaining(), v.seg));
                return;
            }
            (other, r) => {
                if from_model_peer {
                    c.harness_issue("peer-nonconformant", format!("harness peer sent [{}] judged {:?} (rs result {:?})", truncate(&hex(&b), 80), other, r.is_ok()));
                } else {
                    // rs-matter -> rs-matter: the sender's emission is judged at its own tap
                    c.finding("conv/emitted-conformant", format!("emitted-violating-segment/peer-of-{}/{}", me.label, match other { Verdict::MustReject(x) => x, Verdict::Any(x, _) => x, Verdict::Valid => "valid" }),
                        format!("segment [{}] arriving at {} is not conformant: {:?}; accepted: {}", truncate(&hex(&b), 80), me.label, other, r.is_ok()));
                }
                return;
            }
        }
    }
}

async fn rs_recv_app(c: &Conv<'_>, me: &RsSide<'_>) {
    let mut buf = vec![0u8; 2048];
    let expected = &c.msgs[1 - me.send_dir];
    loop {
        if c.stop.get() {
            return;
        }
        if c.p.recv_delay_max_ms > 0 {
            let d = c.rng.borrow_mut().below(c.p.recv_delay_max_ms * 1000 + 1);
            if d > 0 {
                exec::sleep_us(d).await;
            }
        }
        c.in_api.set("recv");
        let r = me.btp.recv(&mut buf).await;
        c.in_api.set("");
        match r {
            Ok((n, addr)) => {
                if addr != me.remote {
                    c.note("recv_address_differs_from_peer");
                }
                // keep the tap model's reassembly queue in step
                {
                    let mut v = me.view.borrow_mut();
                    while v.completed.front().map(|m| m.is_empty() && n > 0).unwrap_or(false) {
                        v.completed.pop_front();
                        c.note("zero_len_sdu_from_peer:swallowed");
                    }
                    v.completed.pop_front();
                }
                // A zero-length message may be swallowed by the receiving end (not judged).
                me.delivery.on_delivery(c, expected, &|i, _| expected[i].is_empty(), &buf[..n]);
                c.count("delivered_to_rs");
            }
            Err(e) => {
                c.finding("conv/no-error-between-well-behaved-ends", format!("recv-error/{}", me.label), format!("recv returned {:?}", e));
                return;
            }
        }
    }
}

fn rs_sendable(len: usize) -> bool {
    (1..=MAX_SDU).contains(&len)
}

async fn rs_send_app(c: &Conv<'_>, me: &RsSide<'_>, gaps: &[(u64, usize)]) {
    let msgs = &c.msgs[me.send_dir];
    for (i, m) in msgs.iter().enumerate() {
        if c.stop.get() {
            return;
        }
        let gap = gaps[i].0;
        if gap > 0 {
            exec::sleep_ms(gap).await;
        }
        c.in_api.set("send");
        let r = me.btp.send(m, me.remote).await;
        c.in_api.set("");
        c.progressed();
        match r {
            Ok(()) => {
                if !rs_sendable(m.len()) {
                    c.harness_issue("unsendable-accepted", format!("send() accepted a {}-byte message", m.len()));
                    return;
                }
            }
            Err(e) => {
                if rs_sendable(m.len()) {
                    c.finding("conv/no-error-between-well-behaved-ends", format!("send-error/{}", me.label), format!("send of {} bytes returned {:?}", m.len(), e));
                    return;
                }
                me.send_refused.borrow_mut().push(i);
                c.note(if m.is_empty() { "rs_send_empty_message_refused" } else { "rs_send_oversize_message_refused" });
            }
        }
    }
    me.sends_done.set(true);
    c.progress.set();
}

async fn rs_timeout_watch(c: &Conv<'_>, me: &RsSide<'_>) {
    me.btp.wait_timeout().await;
    c.closed.set(true);
    c.count(&format!("rs_idle_timeout_fired:{}", me.label));
    c.progress.set();
}

/// The harness' own well-behaved end.
struct ModelSide {
    peer: RefCell<Peer>,
    central: bool,
    inbox: Link,
    send_dir: usize,
    sends_done: Cell<bool>,
    delivery: Delivery,
}

async fn model_task(c: &Conv<'_>, me: &ModelSide, out: &Link, gaps: &[(u64, usize)], refused_by_sender: &RefCell<Vec<usize>>) {
    let msgs = &c.msgs[me.send_dir];
    let expected = &c.msgs[1 - me.send_dir];
    let mut next_msg = 0usize;
    let mut next_at = clock::now() + gaps.first().map(|g| g.0 * 1000).unwrap_or(0);
    let mut hs_sent = false;
    loop {
        if c.stop.get() {
            return;
        }
        let now = clock::now();
        if me.central && !hs_sent {
            hs_sent = true;
            let req = HsReq { versions: [4, 0, 0, 0], mtu: c.p.req_mtu, window: c.p.req_win };
            out.push(now + c.lat(), req.encode());
        }
        // 1. incoming
        while let Some(b) = me.inbox.pop_due() {
            model_on_segment(c, me, out, &b, expected, refused_by_sender);
            if c.stop.get() {
                return;
            }
        }
        // 2. application hands over messages
        while next_msg < msgs.len() && next_at <= now {
            me.peer.borrow_mut().txq.push_back(msgs[next_msg].clone());
            c.progressed();
            next_msg += 1;
            if next_msg < msgs.len() {
                next_at = now + gaps[next_msg].0 * 1000;
            }
        }
        if next_msg >= msgs.len() && me.peer.borrow().txq.is_empty() && !me.sends_done.get() {
            me.sends_done.set(true);
            c.progress.set();
        }
        // 3. transmit
        let mut emitted = 0;
        while emitted < c.p.burst {
            let s = me.peer.borrow_mut().next_segment(now);
            match s {
                Some(s) => {
                    if s.is(F_B) || s.is(F_C) || s.is(F_E) {
                        c.progressed();
                    }
                    out.push(now + c.lat(), s.encode());
                    c.segments.set(c.segments.get() + 1);
                    emitted += 1;
                }
                None => break,
            }
        }
        // 4. sleep until the next event
        let mut t: Option<u64> = me.inbox.head_time();
        if next_msg < msgs.len() {
            t = Some(t.map_or(next_at, |x| x.min(next_at)));
        }
        {
            let p = me.peer.borrow();
            if emitted >= c.p.burst && p.can_send() && (!p.txq.is_empty() || p.ack_wanted(now)) {
                let again = now + 1 + c.lat() / 2;
                t = Some(t.map_or(again, |x| x.min(again)));
            } else if p.end.in_pending() > 0 && p.can_send() {
                if let Some(d) = p.ack_due_at() {
                    let d = d.max(now + 1);
                    t = Some(t.map_or(d, |x| x.min(d)));
                }
            }
        }
        match t {
            Some(t) if t <= now => exec::yield_now().await,
            Some(t) => {
                select(me.inbox.sig.wait(), Timer::at(Instant::from_ticks(t))).await;
            }
            None => me.inbox.sig.wait().await,
        }
    }
}

fn model_on_segment(c: &Conv, me: &ModelSide, out: &Link, b: &[u8], expected: &[Vec<u8>], refused_by_sender: &RefCell<Vec<usize>>) {
    let now = clock::now();
    let mut p = me.peer.borrow_mut();
    let label = if me.central { "rs-peripheral" } else { "rs-central" };
    if !p.end.established {
        if me.central {
            match HsResp::decode(b) {
                Some(r) => p.end.establish_central(r.seg as usize, r.window as u64, now),
                None => {
                    drop(p);
                    c.finding("conv/handshake", format!("handshake/{}/no-response-first", label), format!("expected a handshake response, got [{}]", truncate(&hex(b), 60)));
                }
            }
        } else {
            match HsReq::decode(b) {
                Some(q) => {
                    if q.mtu < 23 || q.window == 0 {
                        drop(p);
                        c.finding("conv/handshake", format!("handshake/{}/request-out-of-range", label), format!("request {:?}", q));
                        return;
                    }
                    let seg = (c.p.resp_seg).min(q.mtu - 3).min(244).max(20);
                    let win = c.p.req_win.min(q.window).max(1);
                    let resp = HsResp { version: 4, seg, window: win };
                    p.end.establish_peripheral(seg as usize, win as u64);
                    if win <= 2 {
                        p.imm_thr = p.imm_thr.min(0);
                    }
                    out.push(now + c.lat(), resp.encode());
                }
                None => {
                    drop(p);
                    c.finding("conv/handshake", format!("handshake/{}/no-request-first", label), format!("expected a handshake request, got [{}]", truncate(&hex(b), 60)));
                }
            }
        }
        return;
    }
    let Ok(s) = Seg::decode(b) else {
        return; // already reported at the emission tap
    };
    if s.is(F_H) {
        drop(p);
        c.finding("conv/emitted-conformant", format!("emitted-violating-segment/{}/second-handshake", label), format!("[{}]", hex(b)));
        return;
    }
    match p.end.classify_incoming(&s) {
        Verdict::Valid => p.end.apply_incoming(&s, now),
        Verdict::Any(what, clear) => {
            c.note(&format!("rs_emitted_odd_segment:{}", what));
            if clear {
                p.end.apply_incoming(&s, now);
            } else {
                drop(p);
                c.harness_issue("model-lost", format!("cannot follow rs-matter's segment [{}]: {}", truncate(&hex(b), 60), what));
                return;
            }
        }
        Verdict::MustReject(rule) => {
            let st = format!("expected seq {}, {} of window {} unacknowledged, message remaining {:?}", p.end.next_in_seq(), p.end.in_pending(), p.end.win, p.end.in_remaining());
            drop(p);
            c.finding(
                if rule == "window-overrun" { "conv/window-respected" } else { "conv/emitted-conformant" },
                format!("emitted-violating-segment/{}/{}", label, rule),
                format!("{} sent [{}] which breaks the protocol at the receiving peer ({}; {})", label, truncate(&hex(b), 80), rule, st));
            return;
        }
    }
    let done: Vec<Vec<u8>> = p.end.completed.drain(..).collect();
    drop(p);
    for m in done {
        let refused = refused_by_sender.borrow();
        me.delivery.on_delivery(c, expected, &|i, _| refused.contains(&i) || !rs_sendable(expected[i].len()), &m);
        c.count("delivered_from_rs");
    }
}

// ---------------------------------------------------------------------------------------
// One conversation
// ---------------------------------------------------------------------------------------

pub struct ConvOutcome {
    pub findings: Vec<Finding>,
    pub counters: Vec<(String, u64)>,
    pub notes: Vec<String>,
    pub sched_hash: u64,
    pub seg: usize,
    pub win: u64,
    pub completed: bool,
}

pub fn execute(p: &ConvParams) -> ConvOutcome {
    clock::reset(1_000_000);
    let topo = TOPO_NAMES[(p.topo as usize).min(2)];
    let msgs0: Vec<Vec<u8>> = p.c2p.iter().enumerate().map(|(i, (_, l))| payload(p.seed, 0, i, *l)).collect();
    let msgs1: Vec<Vec<u8>> = p.p2c.iter().enumerate().map(|(i, (_, l))| payload(p.seed, 1, i, *l)).collect();
    let c = Conv {
        p,
        topo,
        findings: RefCell::new(Vec::new()),
        counters: RefCell::new(Vec::new()),
        notes: RefCell::new(Vec::new()),
        stop: Cell::new(false),
        closed: Cell::new(false),
        progress: Sig::new(),
        rng: RefCell::new(Rng::new(subseed(p.seed, &[1]))),
        in_api: Cell::new(""),
        segments: Cell::new(0),
        progress_ctr: Cell::new(0),
        msgs: [msgs0, msgs1],
    };
    // hard cap only; liveness is judged by lack of progress (see the script task)
    let deadline = clock::now() + 6 * 3600 * 1_000_000;

    let btp_a = Box::new(Btp::new());
    let btp_b = Box::new(Btp::new());
    btp_a.set_relaxed_mtu_nego(p.relaxed);
    btp_b.set_relaxed_mtu_nego(p.relaxed);

    let rs_central = RsSide::new("rs-central", true, &btp_a, p.att_mtu);
    let rs_periph = RsSide::new("rs-peripheral", false, &btp_b, p.att_mtu);
    let mk_model = |central: bool| ModelSide {
        peer: RefCell::new(Peer::new(p.ack_timer_ms * 1000, p.imm_thr, p.c_on_last)),
        central,
        inbox: Link::new(),
        send_dir: if central { 0 } else { 1 },
        sends_done: Cell::new(false),
        delivery: Delivery::new(if central { "to-peer-central" } else { "to-peer-peripheral" }),
    };
    let model_central = mk_model(true);
    let model_periph = mk_model(false);
    if p.topo != 0 {
        btp_a.set_initiator(true);
    }

    let use_rs_c = p.topo != 0;
    let use_rs_p = p.topo != 1;

    let mut exec_rng = Rng::new(subseed(p.seed, &[2]));
    let mut outcome: Option<exec::Outcome> = None;
    let res = catch_unwind(AssertUnwindSafe(|| {
        let c = &c;
        let script = async {
            let mut last_ctr = 0u64;
            let mut last_progress_at = clock::now();
            loop {
                if c.stop.get() || c.closed.get() {
                    break;
                }
                let sends_done = (if use_rs_c { rs_central.sends_done.get() } else { model_central.sends_done.get() })
                    && (if use_rs_p { rs_periph.sends_done.get() } else { model_periph.sends_done.get() });
                if sends_done && remaining_total(c, &rs_central, &rs_periph, &model_central, &model_periph) == 0 {
                    break;
                }
                if c.progress_ctr.get() != last_ctr {
                    last_ctr = c.progress_ctr.get();
                    last_progress_at = clock::now();
                }
                // stuck: nothing submitted, no data segment, nothing delivered for 100 s
                // (the longest application gap is 45 s)
                if clock::now() > deadline || clock::now() - last_progress_at > 100_000_000 {
                    break;
                }
                select(c.progress.wait(), Timer::after_secs(1)).await;
            }
            if !c.stop.get() && !c.closed.get() {
                // cool-down: trailing acknowledgements must still flow in time
                Timer::after_millis(33_000).await;
            }
            c.stop.set(true);
        };
        let mut tasks: Vec<exec::BoxFut<'_>> = vec![Box::pin(script)];
        let c_inbox: &Link = if use_rs_c { &rs_central.inbox } else { &model_central.inbox };
        let p_inbox: &Link = if use_rs_p { &rs_periph.inbox } else { &model_periph.inbox };
        if use_rs_c {
            tasks.push(Box::pin(rs_pump(c, &rs_central, p_inbox)));
            tasks.push(Box::pin(rs_rx(c, &rs_central, !use_rs_p)));
            tasks.push(Box::pin(rs_recv_app(c, &rs_central)));
            tasks.push(Box::pin(rs_send_app(c, &rs_central, &p.c2p)));
            tasks.push(Box::pin(rs_timeout_watch(c, &rs_central)));
        } else {
            tasks.push(Box::pin(model_task(c, &model_central, p_inbox, &p.c2p, &rs_periph.send_refused)));
        }
        if use_rs_p {
            tasks.push(Box::pin(rs_pump(c, &rs_periph, c_inbox)));
            tasks.push(Box::pin(rs_rx(c, &rs_periph, !use_rs_c)));
            tasks.push(Box::pin(rs_recv_app(c, &rs_periph)));
            tasks.push(Box::pin(rs_send_app(c, &rs_periph, &p.p2c)));
            tasks.push(Box::pin(rs_timeout_watch(c, &rs_periph)));
        } else {
            tasks.push(Box::pin(model_task(c, &model_periph, c_inbox, &p.p2c, &rs_central.send_refused)));
        }
        outcome = Some(exec::run(&mut exec_rng, Limits { max_polls: 6_000_000, ..Limits::default() }, tasks));
    }));

    let mut completed = false;
    match res {
        Err(_) => {
            let pi = take_panic();
            if pi.in_harness() {
                c.findings.borrow_mut().push(Finding {
                    rule: "harness-self-check".into(),
                    sig: "C18/conv/harness/panic".into(),
                    detail: pi.describe(),
                    inconclusive: true,
                });
            } else {
                let api = c.in_api.get();
                c.findings.borrow_mut().push(Finding {
                    rule: "conv/no-panic".into(),
                    sig: format!("C18/conv/panic/{}/{}", if api.is_empty() { "other" } else { api }, pi.kind()),
                    detail: format!("{} inside Btp::{} during a conversation between well-behaved ends (virtual t={}us, {} segments so far)", pi.describe(), api, clock::now(), c.segments.get()),
                    inconclusive: false,
                });
            }
        }
        Ok(()) => {
            let o = outcome.unwrap();
            if o.status != RunStatus::Done {
                c.findings.borrow_mut().push(Finding {
                    rule: "harness-self-check".into(),
                    sig: format!("C18/conv/harness/executor-{:?}", o.status),
                    detail: format!("{:?}", o),
                    inconclusive: true,
                });
            } else if c.findings.borrow().iter().all(|f| f.sig.contains("/ack-deadline/")) {
                // End-of-conversation checks (only when nothing else broke the run).
                let rem = remaining_total(&c, &rs_central, &rs_periph, &model_central, &model_periph);
                if c.closed.get() {
                    c.finding("conv/every-message-delivered", "closed-by-rs-idle-timeout".into(),
                        format!("an rs-matter end declared the session timed out (Btp::timeout) although the peer was well-behaved; {} submitted messages were not delivered", rem));
                } else if rem > 0 {
                    c.finding("conv/every-message-delivered", "delivery/not-delivered".into(),
                        format!("{} submitted messages never came out at the other side: no message was submitted, no data segment emitted and nothing delivered during the last 100 s of virtual time although both ends were polled (t={}us)", rem, clock::now()));
                } else {
                    completed = true;
                }
                // acknowledgements still missing at the end (the cool-down exceeds the deadline)
                let now = clock::now();
                for me in [&rs_central, &rs_periph] {
                    let v = me.view.borrow();
                    if let Some(&(abs, t, kind)) = v.in_unacked.front() {
                        if now.saturating_sub(t) > ACK_DEADLINE_US + 2_000_000 && !c.closed.get() {
                            c.count(&format!("ack_late:{}:{}:never", me.label, kind));
                            c.finding_continue("conv/ack-before-deadline", format!("ack-deadline/{}/{}/never", me.label, if kind == "handshake-response" { kind } else { "segment" }),
                                format!("{} accepted the peer's segment #{} ({}) at t={}us and had not acknowledged it by t={}us ({} us later) although it was polled continuously", me.label, abs, kind, t, now, now - t));
                        }
                    }
                }
            }
        }
    }

    let (seg, win) = {
        let a = rs_central.view.borrow();
        let b = rs_periph.view.borrow();
        if b.established { (b.seg, b.win) } else { (a.seg, a.win) }
    };
    for me in [&rs_central, &rs_periph] {
        let v = me.view.borrow();
        if v.established {
            c.count_n("last_slot_used_without_ack", v.last_slot_without_ack);
            if v.out_count >= 256 || v.in_count >= 256 {
                c.count("end_seq_wrapped");
            }
            c.count_n(&format!("max_unacked_vs_window:{}", if v.max_out_unacked >= v.win { "reached-window" } else { "below-window" }), 1);
        }
    }
    let wraps = {
        let a = rs_central.view.borrow();
        let b = rs_periph.view.borrow();
        a.out_count.max(a.in_count).max(b.out_count).max(b.in_count) / 256
    };
    c.count_n("segments_tapped", c.segments.get());
    if wraps >= 1 {
        c.count("conv_seq_wrap");
    }
    if wraps >= 3 {
        c.count("conv_seq_wrap_x3");
    }
    let sched_hash = outcome.map(|o| o.sched_hash).unwrap_or(0);
    let out = ConvOutcome {
        findings: c.findings.borrow().clone(),
        counters: c.counters.borrow().clone(),
        notes: c.notes.borrow().clone(),
        sched_hash,
        seg,
        win,
        completed,
    };
    out
}

fn remaining_total(c: &Conv, rs_c: &RsSide, rs_p: &RsSide, m_c: &ModelSide, m_p: &ModelSide) -> usize {
    let use_rs_c = c.p.topo != 0;
    let use_rs_p = c.p.topo != 1;
    let mut rem = 0;
    // direction 0 (central -> peripheral) is received by the peripheral
    let refused_c = if use_rs_c { rs_c.send_refused.borrow().clone() } else { vec![] };
    let refused_p = if use_rs_p { rs_p.send_refused.borrow().clone() } else { vec![] };
    let skip0 = |i: usize| refused_c.contains(&i) || (use_rs_c && !rs_sendable(c.msgs[0][i].len())) || c.msgs[0][i].is_empty();
    let skip1 = |i: usize| refused_p.contains(&i) || (use_rs_p && !rs_sendable(c.msgs[1][i].len())) || c.msgs[1][i].is_empty();
    rem += if use_rs_p { rs_p.delivery.remaining(&c.msgs[0], &skip0) } else { m_p.delivery.remaining(&c.msgs[0], &skip0) };
    rem += if use_rs_c { rs_c.delivery.remaining(&c.msgs[1], &skip1) } else { m_c.delivery.remaining(&c.msgs[1], &skip1) };
    rem
}

fn att_class(a: Option<u16>) -> &'static str {
    match a {
        None => "none",
        Some(23) => "23",
        Some(24..=100) => "24-100",
        Some(101..=246) => "101-246",
        Some(247) => "247",
        Some(_) => ">247",
    }
}

pub fn run_one(rep: &mut Report, p: &ConvParams, sample: bool) {
    let o = execute(p);
    rep.evaluations += 1;
    rep.count("conv_total");
    rep.count(&format!("conv_topo:{}", TOPO_NAMES[(p.topo as usize).min(2)]));
    rep.count(&format!("conv_att_mtu:{}", att_class(p.att_mtu)));
    if o.seg > 0 {
        rep.count(&format!("conv_seg:{}", match o.seg { 20 => "20", 21..=100 => "21-100", 101..=243 => "101-243", 244 => "244", _ => "other" }));
        rep.count(&format!("conv_window:{}", match o.win { 0..=2 => "<=2", 3..=5 => "3-5", 6 => "6", 7..=16 => "7-16", _ => ">16" }));
    }
    if p.relaxed {
        rep.count("conv_relaxed_mtu_nego");
    }
    let max_gap = p.c2p.iter().chain(p.p2c.iter()).map(|g| g.0).max().unwrap_or(0);
    if max_gap >= 15_000 {
        rep.count("conv_idle>=15s");
    }
    if max_gap >= 30_000 {
        rep.count("conv_idle>=30s");
    }
    if o.completed {
        rep.count("conv_completed");
    }
    for (k, n) in &o.counters {
        rep.count_n(k, *n);
    }
    for n in &o.notes {
        rep.note(n);
    }
    rep.interleavings.insert(o.sched_hash);
    let multi = p.c2p.iter().chain(p.p2c.iter()).any(|g| o.seg > 0 && g.1 + 5 > o.seg);
    if multi {
        let mut h = Fnv::new();
        h.add(&[p.topo]);
        h.add_u64(o.seg as u64);
        h.add_u64(o.win);
        for (g, l) in p.c2p.iter().chain(p.p2c.iter()) {
            h.add_u64(*l as u64);
            h.add_u64(*g / 1000);
        }
        h.add_u64(o.sched_hash);
        rep.distinct.insert(h.0);
    }
    if sample {
        rep.sample(json!({"kind": "conv", "topo": TOPO_NAMES[(p.topo as usize).min(2)], "att_mtu": p.att_mtu, "req_mtu": p.req_mtu,
            "req_win": p.req_win, "negotiated_seg": o.seg, "negotiated_win": o.win, "messages_c2p": p.c2p.len(), "messages_p2c": p.p2c.len(),
            "completed": o.completed, "findings": o.findings.iter().map(|f| f.sig.clone()).collect::<Vec<_>>()}));
    }
    for f in &o.findings {
        // Shrink the conversation for the first witnesses of a signature.
        let (p, o) = if !f.inconclusive && rep.get(&format!("violation:{}", f.sig)) < 2 {
            let pm = minimise(p, &f.sig);
            let om = execute(&pm);
            (pm, om)
        } else {
            (p.clone(), execute_none(&o))
        };
        let p = &p;
        let f = o.findings.iter().find(|x| x.sig == f.sig).unwrap_or(f);
        let detail = format!(
            "{} | topology {}, local ATT MTU {:?}, request mtu {} window {}, relaxed {}, negotiated segment size {} window {}, messages (gap ms, length) central->peripheral {:?} peripheral->central {:?}, link latency {}..{}us, peer ack timer {}ms",
            f.detail, TOPO_NAMES[(p.topo as usize).min(2)], p.att_mtu, p.req_mtu, p.req_win, p.relaxed, o.seg, o.win,
            truncate(&format!("{:?}", p.c2p), 200), truncate(&format!("{:?}", p.p2c), 200), p.lat_min_us, p.lat_max_us, p.ack_timer_ms);
        report_finding(rep, &Finding { detail, ..f.clone() }, p.to_json());
    }
}

fn execute_none(o: &ConvOutcome) -> ConvOutcome {
    ConvOutcome {
        findings: o.findings.clone(),
        counters: vec![],
        notes: vec![],
        sched_hash: o.sched_hash,
        seg: o.seg,
        win: o.win,
        completed: o.completed,
    }
}

fn has_sig(p: &ConvParams, sig: &str) -> bool {
    execute(p).findings.iter().any(|f| f.sig == sig)
}

/// Greedy shrinking of a failing conversation: drop messages, gaps and latency while the
/// same signature is still produced.
fn minimise(p: &ConvParams, sig: &str) -> ConvParams {
    let mut cur = p.clone();
    let mut budget = 250;
    for which in 0..2 {
        let mut chunk = {
            let l = if which == 0 { cur.c2p.len() } else { cur.p2c.len() };
            (l + 1) / 2
        };
        while chunk >= 1 && budget > 0 {
            let mut i = 0;
            loop {
                let len = if which == 0 { cur.c2p.len() } else { cur.p2c.len() };
                if i >= len || budget == 0 {
                    break;
                }
                let mut cand = cur.clone();
                {
                    let l = if which == 0 { &mut cand.c2p } else { &mut cand.p2c };
                    let end = (i + chunk).min(l.len());
                    l.drain(i..end);
                }
                budget -= 1;
                if has_sig(&cand, sig) {
                    cur = cand;
                } else {
                    i += chunk;
                }
            }
            if chunk == 1 {
                break;
            }
            chunk = (chunk + 1) / 2;
        }
    }
    // gaps and latency
    for which in 0..2 {
        let len = if which == 0 { cur.c2p.len() } else { cur.p2c.len() };
        for i in 0..len {
            if budget == 0 {
                break;
            }
            let mut cand = cur.clone();
            let l = if which == 0 { &mut cand.c2p } else { &mut cand.p2c };
            if l[i].0 == 0 {
                continue;
            }
            l[i].0 = 0;
            budget -= 1;
            if has_sig(&cand, sig) {
                cur = cand;
            }
        }
    }
    for (a, b) in [(0u64, 0u64), (1000, 1000)] {
        if (cur.lat_min_us, cur.lat_max_us) != (a, b) && budget > 0 {
            let mut cand = cur.clone();
            cand.lat_min_us = a;
            cand.lat_max_us = b;
            budget -= 1;
            if has_sig(&cand, sig) {
                cur = cand;
                break;
            }
        }
    }
    if cur.recv_delay_max_ms != 0 {
        let mut cand = cur.clone();
        cand.recv_delay_max_ms = 0;
        if has_sig(&cand, sig) {
            cur = cand;
        }
    }
    cur
}

pub fn replay(rep: &mut Report, v: &Value) {
    let p = match ConvParams::from_json(v) {
        Some(p) => p,
        None => match v["seed"].as_u64() {
            Some(s) => gen_params(s, 1.0),
            None => {
                rep.inconclusive("replay-json-unusable");
                return;
            }
        },
    };
    run_one(rep, &p, true);
}
