pub mod c01;
pub mod c04;
pub mod c05;
pub mod c19;
pub mod c19_certgen;
