pub mod c04;
