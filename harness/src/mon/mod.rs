pub mod c01;
pub mod c04;
pub mod c05;
