pub mod c01;
pub mod c04;
