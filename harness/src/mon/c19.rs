//! C19 — a certificate chain is accepted exactly when it is valid under the Matter rules.
//!
//! Workload: the harness's own certificate writer (`c19_certgen`) produces operational
//! chains {NOC<-RCAC, NOC<-ICAC<-RCAC}: valid ones over random field values and chains that
//! depart from a valid one in exactly one respect. Every chain is handed to the real
//! verification entry points reachable from outside the crate:
//!
//!  * `verify`  — `CertRef::verify_chain_start(..).add_cert(..).finalise(..)` composed with the
//!    identity checks every caller makes (fabric id of NOC/ICAC == fabric in use, NOC has a
//!    node id) in the same order as `sc::case::casep::validate_certs` (that function itself is
//!    `pub(crate)`; the end-to-end CASE path is C01's subject);
//!  * `add`     — the real `FailSafe::{arm, add_csr_req, add_trusted_root_cert, add_noc}`
//!    sequence (what the AddTrustedRootCertificate / CSRRequest / AddNOC commands execute);
//!  * `update`  — the real `FailSafe::{arm, update_csr_req, update_noc}` on an installed fabric.
//!
//! Oracle: `reference()` is the predicate of the statement over the *parameters* the chain was
//! built from (never over rs-matter's parse). Verdict = equality of accept/reject; the error
//! class is only recorded. Rules of the Matter specification that the statement does not spell
//! out are *not judged* (notes), see `Verdict::unjudged`.

use std::cell::RefCell;
use std::panic::{catch_unwind, AssertUnwindSafe};

use serde_json::json;

use rs_matter::cert::CertRef;
use rs_matter::crypto::{CanonAeadKeyRef, CanonPkcSecretKeyRef, Crypto};
use rs_matter::dm::clusters::time_sync::UtcTime;
use rs_matter::error::ErrorCode;
use rs_matter::fabric::Fabrics;
use rs_matter::failsafe::FailSafe;
use rs_matter::sc::pase::Pase;
use rs_matter::tlv::TLVElement;
use rs_matter::transport::session::SessionMode;

use crate::report::{Ctx, Report};
use crate::sim::rng::{subseed, Fnv, Rng};

use super::c19_certgen::*;

// ---------------------------------------------------------------------------------------
// Case description
// ---------------------------------------------------------------------------------------

#[derive(Clone, Copy, Debug, PartialEq, Eq)]
enum Shape {
    Direct,
    WithIcac,
}

#[derive(Clone, Debug)]
struct CertSpec {
    role: &'static str,
    /// The certificate as presented to the verifier.
    p: CertParams,
    /// If `Some`, the signature was made over these parameters (alteration after signing).
    signed: Option<CertParams>,
    signer: Key,
    sig_flip: Option<u16>,
    /// Filled in by `build`: false if no TBS could be derived for signing.
    tbs_ok: bool,
    /// Byte-level damage applied after encoding (offset, xor) / truncation.
    damage: Option<(usize, u8, Option<usize>)>,
    tlv: Vec<u8>,
}

impl CertSpec {
    fn new(role: &'static str, p: CertParams, signer: &Key) -> Self {
        Self {
            role,
            p,
            signed: None,
            signer: signer.clone(),
            sig_flip: None,
            tbs_ok: true,
            damage: None,
            tlv: Vec::new(),
        }
    }
}

#[derive(Clone, Copy, Debug, PartialEq, Eq)]
enum Existing {
    None,
    SameRootSameFabric,
    OtherRootSameFabric,
    SameRootOtherFabric,
}

#[derive(Clone, Copy, Debug, PartialEq, Eq)]
enum Mode {
    Verify,
    Add,
    Update,
}

impl Mode {
    fn name(self) -> &'static str {
        match self {
            Mode::Verify => "verify",
            Mode::Add => "add",
            Mode::Update => "update",
        }
    }
}

struct Case {
    class: &'static str,
    variant: String,
    shape: Shape,
    certs: Vec<CertSpec>,
    leaf: usize,
    inter: Option<usize>,
    top: usize,
    now_secs: u64,
    sub_us: u64,
    reliable: bool,
    /// Fabric the chain is used for on the `verify` path / the fabric being updated.
    expected_fabric: u64,
    node_key: Key,
    existing: Existing,
    /// Keys for auxiliary material (pre-installed fabrics).
    aux_key: Key,
    aux_root_key: Key,
}

impl Case {
    fn time(&self) -> UtcTime {
        let us = self.now_secs * 1_000_000 + self.sub_us;
        if self.reliable {
            UtcTime::Reliable(us)
        } else {
            UtcTime::LastKnown(us)
        }
    }

    fn describe(&self) -> String {
        let mut s = format!(
            "class={} variant=[{}] shape={:?} time={}{}s presented: leaf={} inter={} top={} expected_fabric={:#x};",
            self.class,
            self.variant,
            self.shape,
            if self.reliable { "reliable:" } else { "last-known-good:" },
            self.now_secs,
            self.certs[self.leaf].role,
            self.inter.map(|i| self.certs[i].role).unwrap_or("-"),
            self.certs[self.top].role,
            self.expected_fabric,
        );
        for c in &self.certs {
            s.push_str(&format!(
                " {}={} signer={}..{}{}{} tlv={};",
                c.role,
                c.p.describe(),
                hex(&c.signer.pk[..5]),
                if c.signed.is_some() { " ALTERED-AFTER-SIGNING" } else { "" },
                c.sig_flip.map(|b| format!(" SIG-BIT-{}-FLIPPED", b % 512)).unwrap_or_default(),
                c.damage.map(|d| format!(" DAMAGED{:?}", d)).unwrap_or_default(),
                hex(&c.tlv)
            ));
        }
        s
    }
}

// ---------------------------------------------------------------------------------------
// Reference predicate (from the statement)
// ---------------------------------------------------------------------------------------

#[derive(Default, Debug)]
struct Verdict {
    /// Conditions of the statement that are not met.
    rejects: Vec<&'static str>,
    /// Matter rules / ambiguities the statement does not decide.
    unjudged: Vec<&'static str>,
}

#[derive(Clone, Copy, Debug, PartialEq, Eq)]
enum Exp {
    Accept,
    Reject,
    Any,
}

impl Verdict {
    fn exp(&self) -> Exp {
        if !self.rejects.is_empty() {
            Exp::Reject
        } else if !self.unjudged.is_empty() {
            Exp::Any
        } else {
            Exp::Accept
        }
    }
    fn rej(&mut self, r: &'static str) {
        if !self.rejects.contains(&r) {
            self.rejects.push(r);
        }
    }
    fn unj(&mut self, r: &'static str) {
        if !self.unjudged.contains(&r) {
            self.unjudged.push(r);
        }
    }
}

const NODE_ID_MIN: u64 = 1;
const NODE_ID_MAX: u64 = 0xFFFF_FFEF_FFFF_FFFF;

struct Install<'a> {
    node_pk: &'a [u8; 65],
    fabric_exists: bool,
}

fn count_tag(dn: &Dn, tag: u8) -> usize {
    dn.iter().filter(|a| a.tag == tag).count()
}

/// `child` is certified by `parent` (for the root: by itself).
fn link_rules(v: &mut Verdict, child: &CertSpec, parent: &CertSpec) {
    let sig_intact = child.signed.is_none() && child.sig_flip.is_none() && child.tbs_ok;
    if !(sig_intact && child.signer.pk[..] == parent.p.pubkey[..]) {
        v.rej("signature-by-next-certificate");
    }
    if child.p.issuer != parent.p.subject {
        v.rej("issuer-subject-link");
    }
    match (&child.p.akid, &parent.p.skid) {
        (Some(a), Some(s)) => {
            if a != s {
                v.rej("key-identifier-link");
            }
        }
        _ => v.unj("key-identifier-absent"),
    }
}

fn common_rules(v: &mut Verdict, c: &CertSpec, reliable: bool, t: u64) {
    if (c.p.not_before as u64) > t {
        if reliable {
            v.rej("validity-not-yet-valid");
        } else {
            v.unj("not-before-vs-last-known-good-time");
        }
    }
    if c.p.not_after != 0 && t > c.p.not_after as u64 {
        v.rej("validity-expired");
    }
    if let Some(f) = &c.p.future {
        if f.critical {
            v.rej("unknown-critical-extension");
        }
    }
    if c.p.pubkey.len() != 65 || c.p.pubkey_algo != 1 || c.p.curve != 1 || c.p.sig_algo != 1 {
        v.unj("malformed-key-or-algorithm");
    }
    if c.damage.is_some() {
        v.unj("byte-level-damage");
    }
    for t in &c.p.omit {
        match t {
            // serial number / algorithm identifiers: not a condition of the statement
            1 | 2 | 7 | 8 => v.unj("certificate-element-absent"),
            // names, dates, key, extensions, signature: the conditions cannot hold without them
            _ => v.rej("mandatory-certificate-element-absent"),
        }
    }
}

fn authority_rules(v: &mut Verdict, c: &CertSpec, intermediates_below: u8, id_tag: u8) {
    match c.p.bc {
        None => v.rej("authority-not-ca"),
        Some((false, _)) => v.rej("authority-not-ca"),
        Some((true, pl)) => {
            if let Some(pl) = pl {
                if intermediates_below > pl {
                    v.rej("path-length");
                }
            }
        }
    }
    match c.p.ku {
        None => v.unj("authority-key-usage-absent"),
        Some(ku) => {
            if ku & KU_KEY_CERT_SIGN == 0 {
                v.rej("authority-key-usage");
            } else if ku & KU_CRL_SIGN == 0 {
                v.unj("authority-without-crlsign");
            }
        }
    }
    if count_tag(&c.p.subject, id_tag) != 1 {
        v.unj("authority-id-attribute");
    }
}

fn reference(
    leaf: &CertSpec,
    inter: Option<&CertSpec>,
    top: &CertSpec,
    reliable: bool,
    t: u64,
    expected_fabric: Option<u64>,
    install: Option<&Install>,
) -> Verdict {
    let mut v = Verdict::default();

    // every certificate is signed by the next one up to a self-signed root; names link up
    match inter {
        Some(i) => {
            link_rules(&mut v, leaf, i);
            link_rules(&mut v, i, top);
        }
        None => link_rules(&mut v, leaf, top),
    }
    link_rules(&mut v, top, top);

    // validity, critical extensions
    common_rules(&mut v, leaf, reliable, t);
    if let Some(i) = inter {
        common_rules(&mut v, i, reliable, t);
    }
    common_rules(&mut v, top, reliable, t);

    // the leaf is a non-CA certificate with the prescribed key usages
    match leaf.p.bc {
        None => v.unj("leaf-basic-constraints-absent"),
        Some((true, _)) => v.rej("leaf-is-ca"),
        Some((false, Some(_))) => v.unj("leaf-path-length"),
        Some((false, None)) => {}
    }
    match leaf.p.ku {
        None => v.rej("leaf-key-usage"),
        Some(ku) => {
            if ku & KU_DIGITAL_SIGNATURE == 0 {
                v.rej("leaf-key-usage");
            } else if ku != KU_DIGITAL_SIGNATURE {
                v.unj("leaf-key-usage-extra-bits");
            }
        }
    }
    match &leaf.p.eku {
        None => v.rej("leaf-extended-key-usage"),
        Some(e) => {
            if !e.contains(&EKU_SERVER_AUTH) || !e.contains(&EKU_CLIENT_AUTH) {
                v.rej("leaf-extended-key-usage");
            } else if e.iter().any(|x| *x != EKU_SERVER_AUTH && *x != EKU_CLIENT_AUTH) {
                v.unj("leaf-extended-key-usage-extra");
            }
        }
    }

    // the leaf carries a node identifier and the fabric identifier of the fabric in use
    let node_ids = dn_uints(&leaf.p.subject, DN_NODE_ID);
    match count_tag(&leaf.p.subject, DN_NODE_ID) {
        0 => v.rej("leaf-node-id"),
        1 => {
            if let Some(n) = node_ids.first() {
                if !(NODE_ID_MIN..=NODE_ID_MAX).contains(n) {
                    v.unj("leaf-node-id-outside-operational-range");
                }
            } else {
                v.unj("leaf-node-id-not-integer");
            }
        }
        _ => v.unj("leaf-node-id-repeated"),
    }
    let fabric_ids = dn_uints(&leaf.p.subject, DN_FABRIC_ID);
    let leaf_fabric = fabric_ids.first().copied();
    match count_tag(&leaf.p.subject, DN_FABRIC_ID) {
        0 => v.rej("leaf-fabric-id"),
        1 => {
            if let (Some(f), Some(e)) = (leaf_fabric, expected_fabric) {
                if f != e {
                    v.rej("leaf-fabric-id-of-fabric-in-use");
                }
            }
            if leaf_fabric == Some(0) {
                v.unj("leaf-fabric-id-zero");
            }
        }
        _ => v.unj("leaf-fabric-id-repeated"),
    }
    if count_tag(&leaf.p.subject, DN_ICAC_ID) + count_tag(&leaf.p.subject, DN_RCAC_ID) > 0 {
        v.unj("leaf-with-ca-id-attribute");
    }

    // the authorities are CA certificates within their path-length limit
    if let Some(i) = inter {
        authority_rules(&mut v, i, 0, DN_ICAC_ID);
        if i.p.pubkey == top.p.pubkey && i.p.subject == top.p.subject {
            v.unj("root-presented-as-intermediate");
        }
    }
    authority_rules(&mut v, top, inter.is_some() as u8, DN_RCAC_ID);
    for ca in inter.into_iter().chain(core::iter::once(top)) {
        if count_tag(&ca.p.subject, DN_NODE_ID) > 0 {
            v.unj("authority-with-node-id");
        }
        // Matter: a fabric id in a CA certificate must equal the NOC's; not in the statement
        for f in dn_uints(&ca.p.subject, DN_FABRIC_ID) {
            if leaf_fabric.map_or(false, |lf| lf != f) || expected_fabric.map_or(false, |e| e != f) {
                v.unj("ca-fabric-id-mismatch");
            }
        }
    }

    // installing credentials
    if let Some(inst) = install {
        if leaf.p.pubkey[..] != inst.node_pk[..] {
            v.rej("leaf-key-is-not-the-one-the-node-generated");
        }
        if inst.fabric_exists {
            v.rej("fabric-already-exists");
        }
        if let Some((_, Some(pl))) = top.p.bc {
            if pl > 1 {
                // CHIP's ValidateChipRCAC / AddTrustedRootCertificate extra rule
                v.unj("root-path-length-greater-than-1-at-installation");
            }
        }
    }

    v
}

// ---------------------------------------------------------------------------------------
// Departure classes
// ---------------------------------------------------------------------------------------

/// (name, class-level intent). Intent is only a self-check of the workload against the
/// reference: R = the statement rejects, N = not judged, P = depends on the path.
const CLASSES: &[(&str, char)] = &[
    ("sig-bit-flip@noc", 'R'),
    ("sig-bit-flip@icac", 'R'),
    ("sig-bit-flip@rcac", 'R'),
    ("signed-by-other-key@noc", 'R'),
    ("signed-by-other-key@icac", 'R'),
    ("signed-by-other-key@rcac", 'R'),
    ("altered-after-signing@noc", 'R'),
    ("altered-after-signing@icac", 'R'),
    ("altered-after-signing@rcac", 'R'),
    ("akid-mismatch@noc", 'R'),
    ("akid-mismatch@icac", 'R'),
    ("akid-mismatch@rcac", 'R'),
    ("issuer-dn-mismatch@noc", 'R'),
    ("issuer-dn-mismatch@icac", 'R'),
    ("issuer-dn-mismatch@rcac", 'R'),
    ("noc-fabric-vs-fabric-in-use", 'P'),
    ("noc-fabric-absent", 'R'),
    ("icac-fabric-mismatch", 'N'),
    ("rcac-fabric-mismatch", 'N'),
    ("node-id-absent", 'R'),
    ("node-id-out-of-range", 'N'),
    ("not-yet-valid@noc", 'R'),
    ("not-yet-valid@icac", 'R'),
    ("not-yet-valid@rcac", 'R'),
    ("expired@noc", 'R'),
    ("expired@icac", 'R'),
    ("expired@rcac", 'R'),
    ("expired-lkg@noc", 'R'),
    ("expired-lkg@icac", 'R'),
    ("expired-lkg@rcac", 'R'),
    ("not-yet-valid-lkg", 'N'),
    ("ca-true@noc", 'R'),
    ("ca-false@icac", 'R'),
    ("ca-false@rcac", 'R'),
    ("bc-absent@noc", 'N'),
    ("bc-absent@icac", 'R'),
    ("bc-absent@rcac", 'R'),
    ("no-keycertsign@icac", 'R'),
    ("no-keycertsign@rcac", 'R'),
    ("no-digitalsignature@noc", 'R'),
    ("ku-absent@noc", 'R'),
    ("ku-absent@ca", 'N'),
    ("ku-zero@noc", 'R'),
    ("ku-zero@icac", 'R'),
    ("ku-zero@rcac", 'R'),
    ("eku-missing-server@noc", 'R'),
    ("eku-missing-client@noc", 'R'),
    ("eku-absent@noc", 'R'),
    ("rcac-pathlen-0-with-icac", 'R'),
    ("critical-ext@noc", 'R'),
    ("critical-ext@icac", 'R'),
    ("critical-ext@rcac", 'R'),
    ("swapped-noc-icac", 'R'),
    ("swapped-icac-root", 'R'),
    ("repeated-noc-as-icac", 'R'),
    ("rcac-presented-as-icac", 'N'),
    ("missing-icac", 'R'),
    ("extraneous-icac", 'R'),
    ("noc-as-authority", 'R'),
    ("icac-as-leaf", 'R'),
    ("ca-profile-leaf-with-node-id", 'R'),
    ("root-not-trusted", 'R'),
    ("self-signed-icac", 'R'),
    ("install-pubkey-mismatch", 'P'),
    ("install-fabric-exists", 'P'),
    ("hostile-eku-value-7@noc", 'P'),
    ("hostile-empty-pubkey", 'P'),
    ("hostile-element-absent", 'P'),
    ("hostile-byte-damage", 'N'),
];

fn level_of(class: &str) -> Option<&str> {
    class.split_once('@').map(|(_, l)| l)
}

// ---------------------------------------------------------------------------------------
// Generation
// ---------------------------------------------------------------------------------------

struct Base {
    root_key: Key,
    icac_key: Key,
    other_key: Key,
    root: CertParams,
    icac: Option<CertParams>,
    noc: CertParams,
    now: u64,
    fabric: u64,
    variant: Vec<String>,
}

fn rand_text(rng: &mut Rng) -> String {
    const A: &[u8] = b"ABCDEFGHIJKLMNOPQRSTUVWXYZabcdefghijklmnopqrstuvwxyz0123456789";
    let n = 1 + rng.usize(8);
    (0..n).map(|_| *rng.pick(A) as char).collect()
}

fn extra_attrs(rng: &mut Rng, plain: bool) -> Dn {
    let mut v = Vec::new();
    if plain {
        return v;
    }
    let n = match rng.below(10) {
        0..=5 => 0,
        6..=8 => 1,
        _ => 2,
    };
    for _ in 0..n {
        let tag = *rng.pick(&[DN_COMMON_NAME, DN_ORG_NAME, DN_ORG_UNIT, DN_TITLE, DN_NAME, DN_PSEUDONYM]);
        let s = rand_text(rng);
        v.push(DnAttr {
            tag,
            val: if rng.bool() { DnVal::Utf8(s) } else { DnVal::Printable(s) },
        });
    }
    v
}

fn with_extras(rng: &mut Rng, mut ids: Dn, plain: bool) -> Dn {
    let ex = extra_attrs(rng, plain);
    if ex.is_empty() {
        return ids;
    }
    if rng.bool() {
        ids.extend(ex);
        ids
    } else {
        let mut v = ex;
        v.extend(ids);
        v
    }
}

fn rand_serial(rng: &mut Rng, plain: bool) -> Vec<u8> {
    if plain {
        return vec![0x01];
    }
    let max = if rng.chance(1, 4) { 20 } else { 8 };
    let n = 1 + rng.usize(max);
    let mut s = rng.bytes(n);
    s[0] = 1 + (s[0] % 0x7f);
    s
}

fn rand_u64_biased(rng: &mut Rng) -> u64 {
    match rng.below(8) {
        0 => 1,
        1 => rng.below(0x1_0000),
        2 => u64::MAX - rng.below(4),
        _ => rng.u64(),
    }
}

fn rand_node_id(rng: &mut Rng) -> u64 {
    match rng.below(8) {
        0 => NODE_ID_MIN,
        1 => NODE_ID_MAX,
        2 => 1 + rng.below(0x1_0000),
        _ => rng.range(NODE_ID_MIN, NODE_ID_MAX),
    }
}

fn rand_validity(rng: &mut Rng, now: u64, plain: bool, tags: &mut Vec<String>) -> (u32, u32) {
    if plain {
        return (1, 0);
    }
    let nb = match rng.below(10) {
        0 | 1 => {
            tags.push("not-before==now".into());
            now
        }
        2 => 1,
        3 => 0,
        _ => now - rng.below(now.min(400_000_000)),
    } as u32;
    let na = match rng.below(10) {
        0 | 1 => {
            tags.push("not-after==now".into());
            now
        }
        2 | 3 => {
            tags.push("not-after==0(no-expiry)".into());
            0
        }
        4 => u32::MAX as u64,
        _ => now + rng.below((u32::MAX as u64 - now).min(600_000_000) + 1),
    } as u32;
    (nb, na)
}

fn key_id(rng: &mut Rng, k: &Key, plain: bool, tags: &mut Vec<String>) -> Vec<u8> {
    if !plain && rng.chance(1, 10) {
        tags.push("custom-key-id".into());
        rng.bytes(20)
    } else {
        k.kid.to_vec()
    }
}

fn unknown_ext(rng: &mut Rng, critical: bool) -> FutureExt {
    let oid: Vec<u8> = match rng.below(3) {
        0 => vec![0x2A, 0x03, 0x04],                                         // 1.2.3.4
        1 => vec![0x55, 0x1D, 0x11],                                         // subjectAltName
        _ => vec![0x2B, 0x06, 0x01, 0x04, 0x01, 0x82, 0xA2, 0x7C, 0x63, 0x01], // 1.3.6.1.4.1.37244.99.1
    };
    let n = 1 + rng.usize(6);
    FutureExt {
        oid,
        critical,
        value: rng.bytes(n),
    }
}

fn relink(b: &mut Base) {
    b.root.issuer = b.root.subject.clone();
    b.root.akid = b.root.skid.clone();
    if let Some(icac) = &mut b.icac {
        icac.issuer = b.root.subject.clone();
        icac.akid = b.root.skid.clone();
        b.noc.issuer = icac.subject.clone();
        b.noc.akid = icac.skid.clone();
    } else {
        b.noc.issuer = b.root.subject.clone();
        b.noc.akid = b.root.skid.clone();
    }
}

fn blank(pk: &[u8; 65]) -> CertParams {
    CertParams {
        serial: vec![1],
        sig_algo: 1,
        issuer: vec![],
        not_before: 1,
        not_after: 0,
        subject: vec![],
        pubkey_algo: 1,
        curve: 1,
        pubkey: pk.to_vec(),
        bc: None,
        ku: None,
        eku: None,
        skid: None,
        akid: None,
        future: None,
        omit: vec![],
    }
}

fn gen_base<C: Crypto>(
    rng: &mut Rng,
    crypto: &C,
    node_key: &Key,
    shape: Shape,
    plain: bool,
) -> Base {
    let root_key = gen_key(crypto);
    let icac_key = gen_key(crypto);
    let other_key = gen_key(crypto);
    let mut tags: Vec<String> = Vec::new();

    let now: u64 = if plain {
        800_000_000
    } else {
        match rng.below(20) {
            0 => rng.range(2, 1_000_000),
            1 | 2 => rng.range(1_580_000_000, u32::MAX as u64 - 2), // >= 2050: GeneralizedTime
            _ => rng.range(660_000_000, 1_400_000_000),
        }
    };
    let fabric = if plain { 0xFAB1 } else { rand_u64_biased(rng).max(1) };
    let node_id = if plain { 0x1234 } else { rand_node_id(rng) };
    let ca_fabric = !plain && rng.bool();

    // RCAC
    let mut root = blank(&root_key.pk);
    root.serial = rand_serial(rng, plain);
    let mut ids = vec![DnAttr::u(DN_RCAC_ID, if plain { 1 } else { rand_u64_biased(rng) })];
    if ca_fabric && rng.bool() {
        ids.push(DnAttr::u(DN_FABRIC_ID, fabric));
    }
    root.subject = with_extras(rng, ids, plain);
    let (nb, na) = rand_validity(rng, now, plain, &mut tags);
    root.not_before = nb;
    root.not_after = na;
    let root_pl = if plain {
        None
    } else {
        match (shape, rng.below(10)) {
            (_, 0..=4) => None,
            (Shape::Direct, 5 | 6) => Some(0),
            (_, 7 | 8) => Some(1),
            (Shape::WithIcac, _) => Some(1),
            (Shape::Direct, _) => Some(2 + rng.below(200) as u8),
        }
    };
    if let Some(pl) = root_pl {
        tags.push(format!("rcac-pathlen={}", if pl > 1 { ">1".to_string() } else { pl.to_string() }));
    }
    root.bc = Some((true, root_pl));
    root.ku = Some(KU_KEY_CERT_SIGN | KU_CRL_SIGN | if !plain && rng.chance(1, 5) { KU_DIGITAL_SIGNATURE } else { 0 });
    root.skid = Some(key_id(rng, &root_key, plain, &mut tags));

    // ICAC
    let icac = if shape == Shape::WithIcac {
        let mut c = blank(&icac_key.pk);
        c.serial = rand_serial(rng, plain);
        let mut ids = vec![DnAttr::u(DN_ICAC_ID, if plain { 2 } else { rand_u64_biased(rng) })];
        if ca_fabric {
            ids.push(DnAttr::u(DN_FABRIC_ID, fabric));
        }
        c.subject = with_extras(rng, ids, plain);
        let (nb, na) = rand_validity(rng, now, plain, &mut tags);
        c.not_before = nb;
        c.not_after = na;
        let pl = if plain {
            Some(0)
        } else {
            match rng.below(4) {
                0 => None,
                1 => Some(1),
                _ => Some(0),
            }
        };
        tags.push(format!("icac-pathlen={:?}", pl));
        c.bc = Some((true, pl));
        c.ku = Some(KU_KEY_CERT_SIGN | KU_CRL_SIGN);
        c.skid = Some(key_id(rng, &icac_key, plain, &mut tags));
        Some(c)
    } else {
        None
    };

    // NOC
    let mut noc = blank(&node_key.pk);
    noc.serial = rand_serial(rng, plain);
    let mut ids = vec![DnAttr::u(DN_NODE_ID, node_id), DnAttr::u(DN_FABRIC_ID, fabric)];
    if !plain && rng.chance(1, 4) {
        ids.swap(0, 1);
    }
    if !plain {
        let ncat = match rng.below(8) {
            0 => 1,
            1 => 2,
            2 => 3,
            _ => 0,
        };
        for i in 0..ncat {
            let ident = (rng.below(0xFFFF) as u32) ^ ((i as u32) << 12);
            let ver = 1 + rng.below(0xFFFE) as u32;
            ids.push(DnAttr::u(DN_NOC_CAT, (((ident & 0xFFFF) << 16) | ver) as u64));
        }
        if ncat > 0 {
            tags.push("noc-cats".into());
        }
    }
    noc.subject = with_extras(rng, ids, plain);
    let (nb, na) = rand_validity(rng, now, plain, &mut tags);
    noc.not_before = nb;
    noc.not_after = na;
    noc.bc = Some((false, None));
    noc.ku = Some(KU_DIGITAL_SIGNATURE);
    noc.eku = Some(if !plain && rng.bool() {
        vec![EKU_CLIENT_AUTH, EKU_SERVER_AUTH]
    } else {
        vec![EKU_SERVER_AUTH, EKU_CLIENT_AUTH]
    });
    noc.skid = Some(key_id(rng, node_key, plain, &mut tags));

    let mut b = Base {
        root_key,
        icac_key,
        other_key,
        root,
        icac,
        noc,
        now,
        fabric,
        variant: tags,
    };

    // unknown non-critical extension somewhere (must be accepted)
    if !plain && rng.chance(1, 6) {
        let e = unknown_ext(rng, false);
        match rng.below(3) {
            0 => b.noc.future = Some(e),
            1 if b.icac.is_some() => b.icac.as_mut().unwrap().future = Some(e),
            _ => b.root.future = Some(e),
        }
        b.variant.push("unknown-non-critical-extension".into());
    }
    relink(&mut b);
    b
}

fn at<'a>(b: &'a mut Base, level: &str) -> &'a mut CertParams {
    match level {
        "noc" => &mut b.noc,
        "icac" => b.icac.as_mut().expect("icac level on direct chain"),
        _ => &mut b.root,
    }
}

fn set_dn_uint(dn: &mut Dn, tag: u8, v: u64) {
    let mut found = false;
    for a in dn.iter_mut() {
        if a.tag == tag {
            a.val = DnVal::U(v);
            found = true;
        }
    }
    if !found {
        dn.push(DnAttr::u(tag, v));
    }
}

fn different(rng: &mut Rng, v: u64) -> u64 {
    match rng.below(4) {
        0 => v ^ 1,
        1 => v.wrapping_add(1).max(1),
        2 => v ^ (1 << 63),
        _ => {
            let x = rng.u64().max(1);
            if x == v {
                v ^ 2
            } else {
                x
            }
        }
    }
}

fn make_case<C: Crypto>(
    rng: &mut Rng,
    crypto: &C,
    node_key: &Key,
    class: &'static str,
    plain: bool,
    mode: Mode,
) -> Result<Case, String> {
    let level = level_of(class);
    let needs_icac = matches!(level, Some("icac"))
        || matches!(
            class,
            "icac-fabric-mismatch"
                | "rcac-pathlen-0-with-icac"
                | "swapped-noc-icac"
                | "swapped-icac-root"
                | "missing-icac"
                | "icac-as-leaf"
                | "self-signed-icac"
        );
    let needs_direct = matches!(
        class,
        "rcac-presented-as-icac" | "extraneous-icac" | "noc-as-authority"
    );
    let shape = if needs_icac {
        Shape::WithIcac
    } else if needs_direct || plain {
        Shape::Direct
    } else if rng.bool() {
        Shape::WithIcac
    } else {
        Shape::Direct
    };

    let mut b = gen_base(rng, crypto, node_key, shape, plain);
    let now = b.now;
    let mut reliable = plain || rng.chance(7, 10);
    let mut expected_fabric = b.fabric;
    let mut existing = Existing::None;
    let mut variant: Vec<String> = Vec::new();
    let aux_key = gen_key(crypto);
    let aux_root_key = gen_key(crypto);

    // signer / signature departures, recorded for spec construction below
    let mut sig_flip: Option<(&str, u16)> = None;
    let mut other_signer: Option<&str> = None;
    let mut altered: Option<(&str, CertParams)> = None;
    let mut damage: Option<(&'static str, usize, u8, Option<usize>)> = None;

    let base_class = class.split('@').next().unwrap();
    if class != "valid" {
        // keep departures to exactly one respect on every path: a root pathLen > 1 is valid for
        // the statement but AddTrustedRootCertificate has an extra rule for it (not judged)
        if let Some((true, Some(pl))) = b.root.bc {
            if pl > 1 {
                b.root.bc = Some((true, None));
                b.variant.retain(|t| !t.starts_with("rcac-pathlen"));
            }
        }
    }
    match base_class {
        "valid" => {
            if !plain && mode == Mode::Add {
                match rng.below(8) {
                    0 => {
                        existing = Existing::OtherRootSameFabric;
                        variant.push("other-fabric-installed:same-fabric-id-other-root".into());
                    }
                    1 => {
                        existing = Existing::SameRootOtherFabric;
                        variant.push("other-fabric-installed:same-root-other-fabric-id".into());
                    }
                    _ => {}
                }
            }
        }
        "sig-bit-flip" => {
            let bit = rng.below(512) as u16;
            variant.push(format!("{}-half", if bit < 256 { "r" } else { "s" }));
            sig_flip = Some((level.unwrap(), bit));
        }
        "signed-by-other-key" => other_signer = level,
        "altered-after-signing" => {
            let l = level.unwrap();
            let signed = at(&mut b, l).clone();
            let p = at(&mut b, l);
            let choice = if l == "noc" { rng.below(3) } else { rng.below(2) };
            match choice {
                0 => {
                    let n = p.serial.len();
                    p.serial[n - 1] ^= 1;
                    if p.serial == [0] {
                        p.serial = vec![2];
                    }
                    variant.push("serial".into());
                }
                1 if p.not_before > 0 => {
                    p.not_before -= 1;
                    variant.push("not-before-1".into());
                }
                1 => {
                    p.serial.push(7);
                    variant.push("serial".into());
                }
                _ => {
                    let cur = dn_uints(&p.subject, DN_NODE_ID)[0];
                    let n = if cur < NODE_ID_MAX { cur + 1 } else { cur - 1 };
                    set_dn_uint(&mut p.subject, DN_NODE_ID, n);
                    variant.push("node-id".into());
                }
            }
            altered = Some((l, signed));
        }
        "akid-mismatch" => {
            let p = at(&mut b, level.unwrap());
            let mut k = p.akid.clone().unwrap();
            if rng.bool() {
                let i = rng.usize(k.len());
                k[i] ^= 1 << rng.below(8);
                variant.push("one-bit".into());
            } else {
                k = rng.bytes(20);
                variant.push("random".into());
            }
            p.akid = Some(k);
        }
        "issuer-dn-mismatch" => {
            let p = at(&mut b, level.unwrap());
            let n = p.issuer.len();
            match rng.below(4) {
                0 if n > 1 => {
                    // drop one attribute that is not the first one
                    let i = 1 + rng.usize(n - 1);
                    p.issuer.remove(i);
                    variant.push("attribute-dropped".into());
                }
                1 => {
                    p.issuer.push(DnAttr {
                        tag: DN_ORG_NAME,
                        val: DnVal::Utf8(rand_text(rng)),
                    });
                    variant.push("attribute-added".into());
                }
                2 => {
                    // same value under the other CA-id tag
                    let mut done = false;
                    for a in p.issuer.iter_mut() {
                        if a.tag == DN_RCAC_ID {
                            a.tag = DN_ICAC_ID;
                            done = true;
                        } else if a.tag == DN_ICAC_ID {
                            a.tag = DN_RCAC_ID;
                            done = true;
                        }
                    }
                    if !done {
                        p.issuer.push(DnAttr::u(DN_RCAC_ID, 9));
                    }
                    variant.push("ca-id-tag-changed".into());
                }
                _ => {
                    let i = rng.usize(n);
                    let a = &mut p.issuer[i];
                    a.val = match &a.val {
                        DnVal::U(v) => DnVal::U(different(rng, *v)),
                        DnVal::Utf8(s) => DnVal::Utf8(format!("{}x", s)),
                        DnVal::Printable(s) => DnVal::Printable(format!("{}x", s)),
                    };
                    variant.push("attribute-value-changed".into());
                }
            }
        }
        "noc-fabric-vs-fabric-in-use" => {
            expected_fabric = different(rng, b.fabric);
        }
        "noc-fabric-absent" => {
            b.noc.subject.retain(|a| a.tag != DN_FABRIC_ID);
        }
        "icac-fabric-mismatch" => {
            let f = different(rng, b.fabric);
            set_dn_uint(&mut b.icac.as_mut().unwrap().subject, DN_FABRIC_ID, f);
            relink(&mut b);
        }
        "rcac-fabric-mismatch" => {
            let f = different(rng, b.fabric);
            set_dn_uint(&mut b.root.subject, DN_FABRIC_ID, f);
            relink(&mut b);
        }
        "node-id-absent" => {
            b.noc.subject.retain(|a| a.tag != DN_NODE_ID);
        }
        "node-id-out-of-range" => {
            let (n, name) = match rng.below(6) {
                0 => (0u64, "unspecified(0)"),
                1 => (u64::MAX, "group-all-ones"),
                2 => (0xFFFF_FFFF_FFFF_0000 | rng.below(0x10000), "group-range"),
                3 => (0xFFFF_FFFB_0000_0000 | rng.below(0x1_0000_0000), "pake-key-id-range"),
                4 => (0xFFFF_FFFD_0000_0000 | rng.below(0x1_0000_0000), "cat-range"),
                _ => (0xFFFF_FFF0_0000_0000 | rng.below(0x1_0000_0000), "reserved-range"),
            };
            set_dn_uint(&mut b.noc.subject, DN_NODE_ID, n);
            variant.push(name.into());
        }
        "not-yet-valid" => {
            reliable = true;
            at(&mut b, level.unwrap()).not_before = (now + 1) as u32;
        }
        "expired" => {
            reliable = true;
            at(&mut b, level.unwrap()).not_after = (now - 1) as u32;
        }
        "expired-lkg" => {
            reliable = false;
            at(&mut b, level.unwrap()).not_after = (now - 1) as u32;
        }
        "not-yet-valid-lkg" => {
            reliable = false;
            let l = if b.icac.is_some() {
                *rng.pick(&["noc", "icac", "rcac"])
            } else {
                *rng.pick(&["noc", "rcac"])
            };
            at(&mut b, l).not_before = (now + 1) as u32;
            variant.push(l.into());
        }
        "ca-true" => b.noc.bc = Some((true, None)),
        "ca-false" => at(&mut b, level.unwrap()).bc = Some((false, None)),
        "bc-absent" => at(&mut b, level.unwrap()).bc = None,
        "no-keycertsign" => {
            let ku = *rng.pick(&[
                KU_CRL_SIGN,
                KU_DIGITAL_SIGNATURE,
                KU_DIGITAL_SIGNATURE | KU_CRL_SIGN,
            ]);
            variant.push(format!("ku={:#06x}", ku));
            at(&mut b, level.unwrap()).ku = Some(ku);
        }
        "no-digitalsignature" => {
            let ku = *rng.pick(&[
                KU_NON_REPUDIATION,
                KU_KEY_AGREEMENT,
                KU_KEY_ENCIPHERMENT,
                KU_NON_REPUDIATION | KU_KEY_ENCIPHERMENT,
            ]);
            variant.push(format!("ku={:#06x}", ku));
            b.noc.ku = Some(ku);
        }
        "ku-absent" => {
            let l = match level.unwrap() {
                "noc" => "noc",
                _ => {
                    if b.icac.is_some() && rng.bool() {
                        "icac"
                    } else {
                        "rcac"
                    }
                }
            };
            variant.push(l.into());
            at(&mut b, l).ku = None;
        }
        "ku-zero" => at(&mut b, level.unwrap()).ku = Some(0),
        "eku-missing-server" => b.noc.eku = Some(vec![EKU_CLIENT_AUTH]),
        "eku-missing-client" => b.noc.eku = Some(vec![EKU_SERVER_AUTH]),
        "eku-absent" => {
            if rng.bool() {
                b.noc.eku = None;
                variant.push("extension-absent".into());
            } else {
                b.noc.eku = Some(vec![]);
                variant.push("empty-list".into());
            }
        }
        "rcac-pathlen-0-with-icac" => b.root.bc = Some((true, Some(0))),
        "rcac-presented-as-icac" => b.root.bc = Some((true, None)),
        "critical-ext" => {
            let e = unknown_ext(rng, true);
            at(&mut b, level.unwrap()).future = Some(e);
        }
        "install-pubkey-mismatch" => {
            let k = b.other_key.clone();
            b.noc.pubkey = k.pk.to_vec();
            b.noc.skid = Some(k.kid.to_vec());
        }
        "install-fabric-exists" => existing = Existing::SameRootSameFabric,
        "hostile-eku-value-7" => b.noc.eku = Some(vec![EKU_SERVER_AUTH, EKU_CLIENT_AUTH, 7]),
        "hostile-element-absent" => {
            let l = if b.icac.is_some() {
                *rng.pick(&["noc", "icac", "rcac"])
            } else {
                *rng.pick(&["noc", "rcac"])
            };
            let t = *rng.pick(&[3u8, 6, 10, 3, 6, 10, 1, 2, 4, 5, 7, 8, 9, 11]);
            variant.push(format!("{}:element-{}", l, t));
            at(&mut b, l).omit = vec![t];
        }
        "hostile-empty-pubkey" => {
            let l = if b.icac.is_some() && rng.bool() { "icac" } else { "noc" };
            variant.push(l.into());
            at(&mut b, l).pubkey = vec![];
        }
        "self-signed-icac" => {
            let c = b.icac.as_mut().unwrap();
            c.issuer = c.subject.clone();
            c.akid = c.skid.clone();
        }
        "icac-as-leaf" => {
            if rng.bool() {
                // the CA certificate was even issued for the key the node generated
                let f = b.fabric;
                let c = b.icac.as_mut().unwrap();
                c.pubkey = node_key.pk.to_vec();
                c.skid = Some(node_key.kid.to_vec());
                set_dn_uint(&mut c.subject, DN_FABRIC_ID, f);
                variant.push("ca-cert-carries-node-key".into());
            }
        }
        "ca-profile-leaf-with-node-id" => {
            // The leaf names a node and the fabric and carries the node's key, but it is a CA
            // certificate: a CA-id attribute precedes the node id, cA = TRUE.
            let tag = if rng.bool() { DN_ICAC_ID } else { DN_RCAC_ID };
            let id = rng.u64();
            b.noc.subject.insert(0, DnAttr::u(tag, id));
            if rng.bool() {
                b.noc.bc = Some((true, Some(0)));
                b.noc.ku = Some(KU_KEY_CERT_SIGN | KU_CRL_SIGN);
                b.noc.eku = None;
                variant.push("full-ca-profile".into());
            } else {
                b.noc.bc = Some((true, None));
                b.noc.ku = Some(KU_DIGITAL_SIGNATURE | KU_KEY_CERT_SIGN);
                variant.push("noc-usages+cA+keyCertSign".into());
            }
            variant.push(if tag == DN_ICAC_ID { "icac-id-first" } else { "rcac-id-first" }.into());
        }
        // structure classes are handled below
        _ => {}
    }

    // --- specs ---
    let noc_signer = if b.icac.is_some() { b.icac_key.clone() } else { b.root_key.clone() };
    let mut certs: Vec<CertSpec> = Vec::new();
    let mut root = CertSpec::new("rcac", b.root.clone(), &b.root_key);
    let mut icac = b.icac.as_ref().map(|p| CertSpec::new("icac", p.clone(), &b.root_key));
    let mut noc = CertSpec::new("noc", b.noc.clone(), &noc_signer);
    if base_class == "self-signed-icac" {
        icac.as_mut().unwrap().signer = b.icac_key.clone();
    }
    {
        fn by_level<'a>(
            noc: &'a mut CertSpec,
            icac: &'a mut Option<CertSpec>,
            root: &'a mut CertSpec,
            l: &str,
        ) -> &'a mut CertSpec {
            match l {
                "noc" => noc,
                "icac" => icac.as_mut().unwrap(),
                _ => root,
            }
        }
        if let Some((l, bit)) = sig_flip {
            by_level(&mut noc, &mut icac, &mut root, l).sig_flip = Some(bit);
        }
        if let Some(l) = other_signer {
            by_level(&mut noc, &mut icac, &mut root, l).signer = b.other_key.clone();
        }
        if let Some((l, signed)) = altered.take() {
            by_level(&mut noc, &mut icac, &mut root, l).signed = Some(signed);
        }
    }
    certs.push(noc);
    let noc_i = 0usize;
    let icac_i = icac.map(|c| {
        certs.push(c);
        certs.len() - 1
    });
    certs.push(root);
    let root_i = certs.len() - 1;

    let (mut leaf, mut inter, mut top) = (noc_i, icac_i, root_i);
    match base_class {
        "swapped-noc-icac" => {
            leaf = icac_i.unwrap();
            inter = Some(noc_i);
        }
        "swapped-icac-root" => {
            inter = Some(root_i);
            top = icac_i.unwrap();
        }
        "repeated-noc-as-icac" => inter = Some(noc_i),
        "rcac-presented-as-icac" => inter = Some(root_i),
        "missing-icac" => inter = None,
        "icac-as-leaf" => {
            leaf = icac_i.unwrap();
            inter = None;
        }
        "extraneous-icac" => {
            // a perfectly good ICAC of the same root that did not issue the NOC
            let mut c = blank(&b.icac_key.pk);
            c.subject = vec![DnAttr::u(DN_ICAC_ID, rng.u64())];
            c.issuer = b.root.subject.clone();
            c.bc = Some((true, Some(0)));
            c.ku = Some(KU_KEY_CERT_SIGN | KU_CRL_SIGN);
            c.skid = Some(b.icac_key.kid.to_vec());
            c.akid = b.root.skid.clone();
            certs.push(CertSpec::new("icac(unrelated)", c, &b.root_key));
            inter = Some(certs.len() - 1);
        }
        "noc-as-authority" => {
            // NOC1 (valid, key = other_key) issues NOC2 (the node's)
            let k1 = b.other_key.clone();
            let mut n1 = b.noc.clone();
            n1.pubkey = k1.pk.to_vec();
            n1.skid = Some(k1.kid.to_vec());
            set_dn_uint(&mut n1.subject, DN_NODE_ID, rand_node_id(rng));
            let mut n2 = b.noc.clone();
            n2.issuer = n1.subject.clone();
            n2.akid = n1.skid.clone();
            certs[noc_i] = CertSpec::new("noc(issued-by-noc1)", n2, &k1);
            certs.push(CertSpec::new("noc1(as-authority)", n1, &b.root_key));
            inter = Some(certs.len() - 1);
        }
        "root-not-trusted" => {
            // The chain was issued under `rcac` (key root_key); the verifier trusts a root with
            // the same name but another key.
            let k2 = b.other_key.clone();
            let mut r2 = b.root.clone();
            r2.pubkey = k2.pk.to_vec();
            if rng.bool() {
                // even the key identifier is copied
                variant.push("same-dn-same-key-id-other-key".into());
            } else {
                r2.skid = Some(k2.kid.to_vec());
                r2.akid = r2.skid.clone();
                variant.push("same-dn-other-key".into());
            }
            certs.push(CertSpec::new("rcac(trusted,other-key)", r2, &k2));
            top = certs.len() - 1;
        }
        "hostile-byte-damage" => {
            let l = if icac_i.is_some() { rng.below(3) } else { rng.below(2) };
            let who: &'static str = match l {
                0 => "noc",
                1 => "rcac",
                _ => "icac",
            };
            damage = Some((who, rng.usize(400), 1 << rng.below(8), if rng.chance(1, 4) { Some(rng.usize(400)) } else { None }));
        }
        _ => {}
    }

    // --- build ---
    for c in certs.iter_mut() {
        let signed = c.signed.clone().unwrap_or_else(|| c.p.clone());
        let (tlv, tbs_ok) = build_cert(crypto, &c.p, &signed, &c.signer, c.sig_flip, rng)?;
        c.tlv = tlv;
        c.tbs_ok = tbs_ok;
        if tlv_too_big(&c.tlv) {
            return Err("certificate larger than 400 bytes".into());
        }
    }
    if let Some((who, off, x, trunc)) = damage {
        for c in certs.iter_mut() {
            if c.role == who {
                let off = off % c.tlv.len();
                c.tlv[off] ^= x;
                let tr = trunc.map(|t| t % c.tlv.len());
                if let Some(t) = tr {
                    c.tlv.truncate(t);
                }
                c.damage = Some((off, x, tr));
            }
        }
    }

    let mut v = b.variant.clone();
    v.extend(variant);
    Ok(Case {
        class,
        variant: v.join(","),
        shape,
        certs,
        leaf,
        inter,
        top,
        now_secs: now,
        sub_us: if plain { 0 } else { rng.below(1_000_000) },
        reliable,
        expected_fabric,
        node_key: node_key.clone(),
        existing,
        aux_key,
        aux_root_key,
    })
}

fn tlv_too_big(tlv: &[u8]) -> bool {
    tlv.len() > rs_matter::cert::MAX_CERT_TLV_LEN
}

// ---------------------------------------------------------------------------------------
// Driving the real code
// ---------------------------------------------------------------------------------------

thread_local! {
    static LAST_PANIC: RefCell<Option<String>> = const { RefCell::new(None) };
}

fn install_hook() {
    std::panic::set_hook(Box::new(|info| {
        let msg = if let Some(s) = info.payload().downcast_ref::<&str>() {
            s.to_string()
        } else if let Some(s) = info.payload().downcast_ref::<String>() {
            s.clone()
        } else {
            "<non-string panic>".to_string()
        };
        let loc = info
            .location()
            .map(|l| format!("{}:{}", l.file(), l.line()))
            .unwrap_or_default();
        LAST_PANIC.with(|p| *p.borrow_mut() = Some(format!("{} at {}", msg, loc)));
    }));
}

fn guarded<T>(f: impl FnOnce() -> T) -> Result<T, String> {
    LAST_PANIC.with(|p| *p.borrow_mut() = None);
    catch_unwind(AssertUnwindSafe(f)).map_err(|_| {
        LAST_PANIC
            .with(|p| p.borrow_mut().take())
            .unwrap_or_else(|| "<panic>".into())
    })
}

#[derive(Debug, Clone)]
struct Outcome {
    accepted: bool,
    stage: &'static str,
    code: String,
    panic: Option<String>,
}

impl Outcome {
    fn ok() -> Self {
        Outcome {
            accepted: true,
            stage: "-",
            code: "Ok".into(),
            panic: None,
        }
    }
    fn err(stage: &'static str, code: ErrorCode) -> Self {
        Outcome {
            accepted: false,
            stage,
            code: format!("{:?}", code),
            panic: None,
        }
    }
}

/// The public chain verifier composed with the caller-side identity checks, in the order of
/// `sc::case::casep::validate_certs` + the responder's `get_node_id()`.
fn verify_path<C: Crypto>(
    crypto: &C,
    time: UtcTime,
    fabric_in_use: u64,
    noc: &[u8],
    icac: Option<&[u8]>,
    root: &[u8],
) -> Outcome {
    let mut buf = [0u8; 1024];
    let noc = CertRef::new(TLVElement::new(noc));
    let icac = icac.map(|i| CertRef::new(TLVElement::new(i)));
    let root = CertRef::new(TLVElement::new(root));

    let mut verifier = noc.verify_chain_start(crypto, time);
    match noc.get_fabric_id() {
        Ok(f) => {
            if f != fabric_in_use {
                return Outcome::err("noc-fabric-id", ErrorCode::Invalid);
            }
        }
        Err(e) => return Outcome::err("noc-fabric-id", e.code()),
    }
    if let Some(icac) = icac.as_ref() {
        if let Ok(f) = icac.get_fabric_id() {
            if f != fabric_in_use {
                return Outcome::err("icac-fabric-id", ErrorCode::Invalid);
            }
        }
        verifier = match verifier.add_cert(icac, &mut buf) {
            Ok(v) => v,
            Err(e) => return Outcome::err("add_cert(icac)", e.code()),
        };
    }
    let verifier = match verifier.add_cert(&root, &mut buf) {
        Ok(v) => v,
        Err(e) => return Outcome::err("add_cert(root)", e.code()),
    };
    if let Err(e) = verifier.finalise(&mut buf) {
        return Outcome::err("finalise", e.code());
    }
    if let Err(e) = noc.get_node_id() {
        return Outcome::err("noc-node-id", e.code());
    }
    Outcome::ok()
}

const IPK: [u8; 16] = [0x5a; 16];

fn simple_noc<C: Crypto>(
    crypto: &C,
    rng: &mut Rng,
    key: &Key,
    signer: &Key,
    issuer: &Dn,
    akid: &Option<Vec<u8>>,
    fabric: u64,
) -> Result<Vec<u8>, String> {
    let mut p = blank(&key.pk);
    p.subject = vec![DnAttr::u(DN_NODE_ID, 0x0A0A), DnAttr::u(DN_FABRIC_ID, fabric)];
    p.issuer = issuer.clone();
    p.bc = Some((false, None));
    p.ku = Some(KU_DIGITAL_SIGNATURE);
    p.eku = Some(vec![1, 2]);
    p.skid = Some(key.kid.to_vec());
    p.akid = akid.clone();
    Ok(build_cert(crypto, &p, &p, signer, None, rng)?.0)
}

struct Sut {
    fabrics: Box<Fabrics>,
}

/// Pre-install a fabric without any verification (`Fabrics::add` is the unverified setter).
fn preinstall<C: Crypto>(
    crypto: &C,
    fabrics: &mut Fabrics,
    key: &Key,
    root: &[u8],
    noc: &[u8],
) -> Result<u8, String> {
    fabrics
        .add(
            crypto,
            CanonPkcSecretKeyRef::new(&key.sk),
            root,
            noc,
            &[],
            Some(CanonAeadKeyRef::new(&IPK)),
            0xFFF1,
            0x0A0A,
        )
        .map(|f| f.fab_idx().get())
        .map_err(|e| format!("preinstall: {:?}", e.code()))
}

// ---------------------------------------------------------------------------------------
// One case
// ---------------------------------------------------------------------------------------

struct Finding {
    rule: String,
    signature: String,
    detail: String,
}

struct CaseResult {
    findings: Vec<Finding>,
}

#[allow(clippy::too_many_arguments)]
fn eval_case(
    rep: &mut Report,
    sut: &mut Sut,
    class: &'static str,
    case_seed: u64,
    plain: bool,
    install_mode: Mode,
    record: bool,
    sample: bool,
) -> CaseResult {
    let mut res = CaseResult { findings: vec![] };
    let mut rng = Rng::new(case_seed);
    let crypto = rs_matter::crypto::default_crypto(
        Rng::new(subseed(case_seed, &[0xC19])),
        rs_matter::dm::devices::test::DAC_PRIVKEY,
    );
    let crypto = &crypto;

    // --- the node generates the key for this request (real code) ---
    sut.fabrics.reset();
    let mut fs = FailSafe::new();
    let mut pase = Pase::new();
    let mode = match install_mode {
        Mode::Update => SessionMode::Case {
            fab_idx: core::num::NonZeroU8::new(1).unwrap(),
            cat_ids: Default::default(),
        },
        _ => SessionMode::Pase { fab_idx: 0 },
    };
    let node_key = {
        let r = guarded(|| -> Result<Key, String> {
            fs.arm(60, 0, &mode, &mut pase)
                .map_err(|e| format!("arm: {:?}", e.code()))?;
            let sk = match install_mode {
                Mode::Update => fs.update_csr_req(crypto, &mode),
                _ => fs.add_csr_req(crypto, &mode),
            }
            .map_err(|e| format!("csr_req: {:?}", e.code()))?;
            Ok(key_from_secret(crypto, sk))
        });
        match r {
            Ok(Ok(k)) => k,
            other => {
                if record {
                    rep.inconclusive(&format!("harness: fail-safe setup failed: {:?}", other.err()));
                }
                return res;
            }
        }
    };

    let case = match make_case(&mut rng, crypto, &node_key, class, plain, install_mode) {
        Ok(c) => c,
        Err(e) => {
            if record {
                rep.inconclusive(&format!("harness: case generation failed: {}", e));
            }
            return res;
        }
    };

    let leaf = &case.certs[case.leaf];
    let inter = case.inter.map(|i| &case.certs[i]);
    let top = &case.certs[case.top];
    let leaf_fabric = dn_uints(&leaf.p.subject, DN_FABRIC_ID).first().copied();

    if record {
        rep.evaluations += 1;
        rep.count(&format!("cases:{}", class));
        if class == "valid" {
            for t in case.variant.split(',').filter(|t| !t.is_empty()) {
                rep.count(&format!("valid-variant:{}", t));
            }
            rep.count(&format!("valid-shape:{:?}", case.shape));
            rep.count(if case.reliable { "valid-time:reliable" } else { "valid-time:last-known-good" });
        }
        let mut f = Fnv::new();
        for c in [Some(leaf), inter, Some(top)].into_iter().flatten() {
            f.add(&c.tlv);
            f.add(&[0xff]);
        }
        f.add_u64(case.now_secs);
        f.add_u64(case.expected_fabric);
        f.add(&[case.reliable as u8, case.existing as u8, install_mode as u8]);
        rep.distinct.insert(f.0);
        if sample {
            rep.sample(json!({"class": class, "mode": install_mode.name(), "case": case.describe()}));
        }
    }

    for path in [Mode::Verify, install_mode] {
        // ---- reference ----
        let fabric_exists = case.existing == Existing::SameRootSameFabric;
        let inst = Install {
            node_pk: &case.node_key.pk,
            fabric_exists,
        };
        let verdict = match path {
            Mode::Verify => reference(
                leaf,
                inter,
                top,
                case.reliable,
                case.now_secs,
                Some(case.expected_fabric),
                None,
            ),
            Mode::Add => reference(leaf, inter, top, case.reliable, case.now_secs, None, Some(&inst)),
            Mode::Update => reference(
                leaf,
                inter,
                top,
                case.reliable,
                case.now_secs,
                Some(case.expected_fabric),
                Some(&inst),
            ),
        };
        let exp = verdict.exp();

        // ---- real ----
        let time = case.time();
        let out: Result<Outcome, String> = match path {
            Mode::Verify => guarded(|| {
                verify_path(
                    crypto,
                    time,
                    case.expected_fabric,
                    &leaf.tlv,
                    inter.map(|c| c.tlv.as_slice()),
                    &top.tlv,
                )
            }),
            Mode::Add => {
                // other fabrics already on the node
                let pre: Result<(), String> = (|| {
                    let f = leaf_fabric.unwrap_or(case.expected_fabric);
                    match case.existing {
                        Existing::None => {}
                        Existing::SameRootSameFabric => {
                            let n = simple_noc(crypto, &mut rng, &case.aux_key, &case.aux_key, &top.p.subject, &top.p.skid, f)?;
                            preinstall(crypto, &mut sut.fabrics, &case.aux_key, &top.tlv, &n)?;
                        }
                        Existing::SameRootOtherFabric => {
                            let n = simple_noc(crypto, &mut rng, &case.aux_key, &case.aux_key, &top.p.subject, &top.p.skid, f ^ 0x10)?;
                            preinstall(crypto, &mut sut.fabrics, &case.aux_key, &top.tlv, &n)?;
                        }
                        Existing::OtherRootSameFabric => {
                            let mut r2 = top.p.clone();
                            r2.pubkey = case.aux_root_key.pk.to_vec();
                            let r2t = build_cert(crypto, &r2, &r2, &case.aux_root_key, None, &mut rng)?.0;
                            let n = simple_noc(crypto, &mut rng, &case.aux_key, &case.aux_key, &top.p.subject, &top.p.skid, f)?;
                            preinstall(crypto, &mut sut.fabrics, &case.aux_key, &r2t, &n)?;
                        }
                    }
                    Ok(())
                })();
                if let Err(e) = pre {
                    if record {
                        rep.inconclusive(&format!("harness: {}", e));
                    }
                    continue;
                }
                let n_before = sut.fabrics.iter().count();
                let fabrics = &mut *sut.fabrics;
                let fs = &mut fs;
                guarded(|| {
                    let mut buf = [0u8; rs_matter::cert::MAX_CERT_ASN1_LEN];
                    if let Err(e) = fs.add_trusted_root_cert(crypto, time, &mode, &top.tlv, &mut buf) {
                        return Outcome::err("AddTrustedRootCertificate", e.code());
                    }
                    let mut buf = [0u8; 1024];
                    let r = fs.add_noc(
                        crypto,
                        time,
                        fabrics,
                        &mode,
                        0xFFF1,
                        inter.map(|c| c.tlv.as_slice()),
                        &leaf.tlv,
                        &IPK,
                        0x0000_0000_0001_B669,
                        &mut buf,
                        || {},
                    );
                    match r {
                        Ok(_) => {
                            if fabrics.iter().count() != n_before + 1 {
                                return Outcome {
                                    accepted: true,
                                    stage: "AddNOC-ok-but-no-fabric",
                                    code: "Ok".into(),
                                    panic: None,
                                };
                            }
                            Outcome::ok()
                        }
                        Err(e) => {
                            if fabrics.iter().count() != n_before {
                                return Outcome {
                                    accepted: false,
                                    stage: "AddNOC-rejected-but-fabric-table-changed",
                                    code: format!("{:?}", e.code()),
                                    panic: None,
                                };
                            }
                            Outcome::err("AddNOC", e.code())
                        }
                    }
                })
            }
            Mode::Update => {
                // the fabric being updated: root = the presented top, fabric id = expected_fabric
                let pre: Result<u8, String> = (|| {
                    let n = simple_noc(crypto, &mut rng, &case.aux_key, &case.aux_key, &top.p.subject, &top.p.skid, case.expected_fabric)?;
                    preinstall(crypto, &mut sut.fabrics, &case.aux_key, &top.tlv, &n)
                })();
                match pre {
                    Ok(1) => {}
                    other => {
                        if record {
                            if top.damage.is_some() || !top.p.omit.is_empty() || top.p.pubkey.len() != 65 {
                                // a root that cannot even be stored cannot belong to a fabric
                                rep.count("skipped:update-with-unstorable-root");
                            } else {
                                rep.inconclusive(&format!("harness: update pre-install: {:?}", other));
                            }
                        }
                        continue;
                    }
                }
                let fabrics = &mut *sut.fabrics;
                let fs = &mut fs;
                guarded(|| {
                    let mut buf = [0u8; 1024];
                    match fs.update_noc(
                        crypto,
                        time,
                        fabrics,
                        &mode,
                        inter.map(|c| c.tlv.as_slice()),
                        &leaf.tlv,
                        &mut buf,
                        || {},
                    ) {
                        Ok(_) => Outcome::ok(),
                        Err(e) => Outcome::err("UpdateNOC", e.code()),
                    }
                })
            }
        };

        let out = match out {
            Ok(o) => o,
            Err(p) => Outcome {
                accepted: false,
                stage: "panic",
                code: "panic".into(),
                panic: Some(p),
            },
        };

        if record {
            rep.count(&format!("path:{}", path.name()));
            rep.count(if out.accepted { "accepted" } else { "rejected" });
            rep.count(&format!(
                "{}/{}:{}",
                class,
                path.name(),
                if out.accepted { "accepted" } else { "rejected" }
            ));
            if !out.accepted {
                rep.count(&format!("reject-code:{}:{}:{}", class, out.stage, out.code));
            }
            rep.count(match exp {
                Exp::Accept => "reference:accept",
                Exp::Reject => "reference:reject",
                Exp::Any => "reference:not-judged",
            });
            for r in &verdict.rejects {
                rep.count(&format!("reference-rule:{}", r));
            }
            // workload self-check: the class label and the reference must agree
            let intent = if class == "valid" {
                'A'
            } else {
                CLASSES.iter().find(|(n, _)| *n == class).map(|(_, i)| *i).unwrap_or('?')
            };
            let consistent = match (intent, exp) {
                ('A', Exp::Accept) | ('R', Exp::Reject) | ('N', Exp::Any) | ('P', _) => true,
                // pathLen > 1 roots are not judged at installation; not-before under
                // last-known-good time is not judged
                ('A', Exp::Any) => verdict.unjudged.iter().all(|u| {
                    *u == "root-path-length-greater-than-1-at-installation"
                        || *u == "not-before-vs-last-known-good-time"
                }),
                // 'N' classes may still be rejected by the reference on a path where another
                // explicit rule applies (e.g. damaged bytes => never), keep strict otherwise
                _ => false,
            };
            if !consistent {
                rep.inconclusive(&format!(
                    "harness: class {} intends {} but reference says {:?} ({:?}/{:?}) on {}",
                    class, intent, exp, verdict.rejects, verdict.unjudged, path.name()
                ));
            }
        }

        // ---- verdict ----
        if let Some(p) = &out.panic {
            let loc = p.rsplit(" at ").next().unwrap_or("").to_string();
            let loc_norm = loc.rsplit("rs-matter/src/").next().unwrap_or(&loc).to_string();
            let file = loc_norm.split(':').next().unwrap_or("").to_string();
            let kind = if p.contains("subtract with overflow") {
                "subtract-overflow"
            } else if p.contains("with overflow") {
                "arithmetic-overflow"
            } else if p.contains("index out of bounds") || p.contains("out of range") {
                "index-out-of-bounds"
            } else if p.contains("unwrap") {
                "unwrap-failed"
            } else {
                "panic"
            };
            if record {
                rep.count(&format!("panic-site:{}:{}:{}", file, kind, class));
            }
            res.findings.push(Finding {
                rule: "no-panic-on-hostile-certificate".into(),
                signature: format!("C19/panic/{}/{}", file, kind),
                detail: format!(
                    "path {}: rs-matter panicked ({}) while processing a chain of class {}; {}",
                    path.name(),
                    p,
                    class,
                    case.describe()
                ),
            });
            continue;
        }
        match (exp, out.accepted) {
            (Exp::Accept, false) => res.findings.push(Finding {
                rule: "valid-chain-must-be-accepted".into(),
                signature: format!("C19/rejects-valid/{}", class),
                detail: format!(
                    "path {}: rejected at {} with {} although every condition of the statement holds; {}",
                    path.name(),
                    out.stage,
                    out.code,
                    case.describe()
                ),
            }),
            (Exp::Reject, true) => res.findings.push(Finding {
                rule: verdict.rejects.join("+"),
                signature: format!("C19/accepts-invalid/{}", class),
                detail: format!(
                    "path {}: ACCEPTED although the statement requires rejection (violated: {:?}); {}",
                    path.name(),
                    verdict.rejects,
                    case.describe()
                ),
            }),
            (Exp::Any, acc) => {
                if record {
                    rep.note(&format!(
                        "not-judged:{}:{}:{} ({})",
                        class,
                        path.name(),
                        if acc { "accepted" } else { "rejected" },
                        verdict.unjudged.join("+")
                    ));
                }
            }
            _ => {}
        }
        if out.stage == "AddNOC-ok-but-no-fabric" && record {
            rep.note("AddNOC returned Ok but the fabric table did not grow");
        }
        if out.stage == "AddNOC-rejected-but-fabric-table-changed" && record {
            rep.note(&format!("AddNOC rejected ({}) but the fabric table changed (class {})", out.code, class));
        }
    }
    res
}

// ---------------------------------------------------------------------------------------
// run
// ---------------------------------------------------------------------------------------

const QUICK_TOTAL: u64 = 7_200;
const THOROUGH_TOTAL: u64 = 150_000;

fn class_static(name: &str) -> Option<&'static str> {
    if name == "valid" {
        return Some("valid");
    }
    CLASSES.iter().find(|(n, _)| *n == name).map(|(n, _)| *n)
}

fn mode_of(s: &str) -> Mode {
    match s {
        "update" => Mode::Update,
        _ => Mode::Add,
    }
}

#[allow(clippy::too_many_arguments)]
fn run_one(
    rep: &mut Report,
    sut: &mut Sut,
    class: &'static str,
    case_seed: u64,
    plain: bool,
    mode: Mode,
    sample: bool,
) {
    let r = eval_case(rep, sut, class, case_seed, plain, mode, true, sample);
    for f in r.findings {
        // minimise: does the same departure on the plain base chain show the same signature?
        let mut reported = false;
        if !plain {
            let r2 = eval_case(rep, sut, class, case_seed, true, mode, false, false);
            if let Some(f2) = r2.findings.into_iter().find(|x| x.signature == f.signature) {
                rep.violation(
                    &f2.rule,
                    &f2.signature,
                    format!("[minimised: same departure on the plain base chain] {}", f2.detail),
                    json!({"check":"C19","class":class,"case_seed":case_seed,"plain":true,"mode":mode.name()}),
                );
                reported = true;
            }
        }
        if !reported {
            rep.violation(
                &f.rule,
                &f.signature,
                f.detail,
                json!({"check":"C19","class":class,"case_seed":case_seed,"plain":plain,"mode":mode.name()}),
            );
        }
    }
}

pub fn run(ctx: &Ctx) -> Report {
    let mut rep = Report::new(
        "C19",
        "Operational certificate chains built by the harness's own TLV certificate writer (valid over random field values, or departing \
         from a valid chain in exactly one respect) are given to the real verifier (CertRef::verify_chain_start/add_cert/finalise + caller \
         identity checks) and to the real FailSafe AddTrustedRootCertificate/AddNOC and UpdateNOC code; accept/reject is compared with a \
         predicate written from the statement. distinct = distinct (presented certificate bytes, time, fabric in use, installed-fabrics \
         situation) tuples; every case carries fresh keys and field values, so none is trivial.",
    );
    rep.assumptions.push("the `verify` path composes the public chain verifier with the caller-side checks in the order of sc::case::casep::validate_certs (pub(crate), reachable only through a full CASE handshake: C01)".into());
    rep.assumptions.push("the X.509 TBS that the harness signs is obtained from rs-matter's own CertRef::as_asn1 (TLV->DER conversion errors are out of scope here: C16/C17)".into());
    rep.assumptions.push("Matter rules that the statement does not spell out (fabric id inside ICAC/RCAC, operational range of the node id, cRLSign, key identifiers absent, RCAC pathLen>1 at installation, not-before under last-known-good time, RCAC presented as ICAC) are recorded under notes and not judged".into());

    install_hook();
    let mut sut = Sut {
        fabrics: Box::new(Fabrics::new()),
    };

    if let Some(r) = &ctx.replay {
        let class = class_static(r["class"].as_str().unwrap_or("valid")).unwrap_or("valid");
        let seed = r["case_seed"].as_u64().unwrap_or(0);
        let plain = r["plain"].as_bool().unwrap_or(false);
        let mode = mode_of(r["mode"].as_str().unwrap_or("add"));
        rep.max_samples = 1;
        run_one(&mut rep, &mut sut, class, seed, plain, mode, true);
        let _ = std::panic::take_hook();
        return rep;
    }

    let total = if ctx.thorough { THOROUGH_TOTAL } else { QUICK_TOTAL };
    let scaled_total = (total as f64 * ctx.scale).ceil();
    let n = ctx.share(QUICK_TOTAL, THOROUGH_TOTAL);

    // floors (totals over all shards)
    rep.floor("accepted", (scaled_total * 2.0 * 0.30) as u64);
    rep.floor("cases:valid", (scaled_total * 0.30) as u64);
    let per_class = ((50.0 * ctx.scale).ceil() as u64).max(1);
    for (c, _) in CLASSES {
        rep.floor(&format!("cases:{}", c), per_class);
    }
    rep.floor("path:add", (scaled_total * 0.5) as u64);
    rep.floor("path:update", (scaled_total * 0.1) as u64);
    rep.floor("valid-variant:not-before==now", per_class);
    rep.floor("valid-variant:not-after==now", per_class);
    rep.floor("valid-variant:not-after==0(no-expiry)", per_class);
    rep.floor("valid-variant:unknown-non-critical-extension", per_class / 2);

    let mut rng = Rng::new(ctx.shard_seed());
    let mut dep = (ctx.shard as usize) * 5;
    for i in 0..n {
        let case_seed = rng.u64();
        let valid = i % 3 == 0;
        let class: &'static str = if valid {
            "valid"
        } else {
            let c = CLASSES[dep % CLASSES.len()].0;
            dep += 1;
            c
        };
        let mode = if class == "install-fabric-exists" {
            Mode::Add
        } else if rng.chance(1, 5) {
            Mode::Update
        } else {
            Mode::Add
        };
        run_one(&mut rep, &mut sut, class, case_seed, false, mode, i < 3 || (i % 97 == 5));
    }

    let _ = std::panic::take_hook();
    rep
}
