//! C11 — persisted state survives a crash at any point and reloads to what was committed.
//!
//! Administrative histories over the commissioning world (completed commissionings of one
//! or two fabrics, NodeLabel writes, ACL writes, network additions inside a commissioning,
//! fabric removals, CASE sessions filling the resumption cache), all outside / across
//! fail-safe contexts. The recording KV store keeps the map after every mutating operation.
//!
//! Oracle:
//!  A  crash at every KV operation k: a device restarted from the map after k operations
//!     comes up, and each committed item (each fabric record incl. its ACL, the network list,
//!     the node label) equals its value at the last acknowledged quiescent point whose writes
//!     are all <= k, or its value at the next one (the change in progress) - never anything
//!     else, and never less than what was acknowledged.
//!  B  read-back: at the end of the history a restart reproduces the live committed state.
//!  C  factory reset leaves no key below the vendor range in the store.
//!  D  a damaged resumption-cache blob (truncation at every length, bit flips, random bytes,
//!     length fields replaced by boundary values) never prevents start-up.

use serde_json::json;

use rs_matter::persist::{CASE_RESUMPTION_KEY, VENDOR_KEYS_START};

use crate::mon::commis::{self, Ctx as SCtx, DevDump, Step, StepLog, WorldParams};
use crate::report::{Ctx, Report};
use crate::sim::device::Boot;
use crate::sim::exec::RunStatus;
use crate::sim::kv::KvMap;
use crate::sim::rng::{subseed, Fnv, Rng};

#[derive(Clone, Debug)]
pub struct Scenario {
    pub seed: u64,
    pub second_fabric: bool,
    pub labels: u8,
    pub acl_writes: u8,
    pub remove: Option<bool>, // Some(by_other)
    pub case_rounds: u8,
    /// group membership changes of fabric A (key map write, AddGroup, AddGroup with another
    /// name = rename, ...): 0 = none
    pub groups: u8,
}

pub fn gen_scenario(rng: &mut Rng) -> Scenario {
    let second_fabric = rng.chance(2, 3);
    Scenario {
        seed: rng.u64(),
        second_fabric,
        labels: rng.below(4) as u8,
        acl_writes: rng.below(3) as u8,
        remove: if second_fabric && rng.bool() { Some(rng.bool()) } else { None },
        case_rounds: rng.below(3) as u8,
        groups: if rng.chance(1, 2) { 1 + rng.below(3) as u8 } else { 0 },
    }
}

fn commission(steps: &mut Vec<Step>, fab_b: bool, n: u8) {
    steps.push(Step::Arm { ctx: SCtx::Pase, secs: 60 });
    steps.push(Step::Csr { ctx: SCtx::Pase, update: false });
    steps.push(Step::AddRoot { ctx: SCtx::Pase, fab_b });
    steps.push(Step::AddNoc { ctx: SCtx::Pase, fab_b });
    steps.push(Step::AddWifi { ctx: SCtx::Pase, n });
    steps.push(Step::Case { fab_b });
    steps.push(Step::Complete { ctx: if fab_b { SCtx::CaseB } else { SCtx::CaseA } });
}

pub fn build(sc: &Scenario, rng: &mut Rng) -> Vec<Step> {
    let mut steps = Vec::new();
    commission(&mut steps, false, 1);
    let mut pool: Vec<Step> = Vec::new();
    for i in 0..sc.labels {
        pool.push(Step::WriteLabel { ctx: SCtx::CaseA, n: 10 + i });
    }
    for i in 0..sc.acl_writes {
        pool.push(Step::WriteAcl { ctx: SCtx::CaseA, n: i });
        // another committed change of the fabric record (VID verification statement vendor id)
        pool.push(Step::SetVid { ctx: SCtx::CaseA, n: i });
    }
    // group membership (lives in the fabric record): add, then rename once or twice
    let mut group_steps: Vec<Step> = Vec::new();
    if sc.groups > 0 {
        group_steps.push(Step::GroupKeyMap { ctx: SCtx::CaseA, g: 1 });
        for k in 0..sc.groups {
            group_steps.push(Step::AddGroup { ctx: SCtx::CaseA, g: 1, name: k });
        }
    }
    for _ in 0..sc.case_rounds {
        pool.push(Step::CtlForgetSessions);
        pool.push(Step::Case { fab_b: false });
    }
    rng.shuffle(&mut pool);
    // the group steps keep their order but are spread over the history
    for gs in group_steps.into_iter().rev() {
        let at = rng.usize(pool.len() + 1);
        pool.insert(at, gs);
    }
    {
        // restore the relative order of the group steps (insertion positions were random)
        let idx: Vec<usize> = pool
            .iter()
            .enumerate()
            .filter(|(_, s)| matches!(s, Step::GroupKeyMap { .. } | Step::AddGroup { .. }))
            .map(|(i, _)| i)
            .collect();
        let mut gs: Vec<Step> = idx.iter().map(|i| pool[*i].clone()).collect();
        gs.sort_by_key(|s| match s {
            Step::GroupKeyMap { .. } => 0u16,
            Step::AddGroup { name, .. } => 1 + *name as u16,
            _ => 0,
        });
        for (i, s) in idx.into_iter().zip(gs) {
            pool[i] = s;
        }
    }
    // CtlForget must be followed by a Case before the next CaseA command: re-establish lazily
    let mut fixed: Vec<Step> = Vec::new();
    let mut have_case = true;
    for s in pool {
        match &s {
            Step::CtlForgetSessions => {
                have_case = false;
                fixed.push(s);
            }
            Step::Case { .. } => {
                have_case = true;
                fixed.push(s);
            }
            _ => {
                if !have_case {
                    fixed.push(Step::Case { fab_b: false });
                    have_case = true;
                }
                fixed.push(s);
            }
        }
    }
    if !have_case {
        fixed.push(Step::Case { fab_b: false });
    }
    let half = fixed.len() / 2;
    steps.extend(fixed[..half].iter().cloned());
    if sc.second_fabric {
        // (the first half may have ended with the controller forgetting its sessions)
        steps.push(Step::Case { fab_b: false });
        steps.push(Step::OpenWindow { ctx: SCtx::CaseA });
        commission(&mut steps, true, 2);
    }
    if !matches!(fixed.get(half), Some(Step::Case { .. })) {
        steps.push(Step::Case { fab_b: false });
    }
    steps.extend(fixed[half..].iter().cloned());
    if let Some(by_other) = sc.remove {
        steps.push(Step::Case { fab_b: false });
        steps.push(Step::Case { fab_b: true });
        // fabric B (index 2) is removed by itself or by A
        steps.push(Step::RemoveFabric { ctx: if by_other { SCtx::CaseA } else { SCtx::CaseB }, idx: 2 });
    }
    // let the resumption cache flush
    steps.push(Step::Sleep { ms: 1600 });
    steps
}

#[derive(Clone, PartialEq, Eq, Debug)]
struct Committed {
    fabrics: Vec<(u8, Vec<u8>)>,
    networks: Vec<Vec<u8>>,
    label: String,
}

fn committed(d: &DevDump) -> Committed {
    Committed {
        fabrics: d.fabrics.iter().map(|(k, v)| (*k, v.clone())).collect(),
        networks: d.networks.clone(),
        label: d.label.clone(),
    }
}

fn field_ok(restarted: &Committed, a: &Committed, b: &Committed) -> Result<(), String> {
    // fabrics: per index the record equals a's or b's (absent counts as a value)
    let idxs: std::collections::BTreeSet<u8> = restarted
        .fabrics
        .iter()
        .chain(a.fabrics.iter())
        .chain(b.fabrics.iter())
        .map(|(k, _)| *k)
        .collect();
    let get = |c: &Committed, i: u8| c.fabrics.iter().find(|(k, _)| *k == i).map(|(_, v)| v.clone());
    for i in idxs {
        let r = get(restarted, i);
        if r != get(a, i) && r != get(b, i) {
            return Err(format!("fabric-{}", if r.is_none() { "missing" } else { "differs" }));
        }
    }
    if restarted.networks != a.networks && restarted.networks != b.networks {
        return Err("networks".into());
    }
    if restarted.label != a.label && restarted.label != b.label {
        return Err("node-label".into());
    }
    Ok(())
}

fn quiescent(l: &StepLog) -> bool {
    l.dev.failsafe.is_none()
}

pub fn corrupt_variants(blob: &[u8], rng: &mut Rng, n: usize) -> Vec<(String, Vec<u8>)> {
    let mut out: Vec<(String, Vec<u8>)> = Vec::new();
    // truncation at every length (sampled if long)
    let step = (blob.len() / 40).max(1);
    let mut i = 0;
    while i < blob.len() {
        out.push(("truncate".into(), blob[..i].to_vec()));
        i += step;
    }
    for _ in 0..n {
        let mut b = blob.to_vec();
        match rng.below(5) {
            0 => {
                if !b.is_empty() {
                    let i = rng.usize(b.len());
                    b[i] ^= 1 << rng.usize(8);
                }
                out.push(("bitflip".into(), b));
            }
            1 => {
                let len = rng.usize(64);
                out.push(("random".into(), rng.bytes(len)));
            }
            2 => {
                // replace a byte by a TLV control byte of a long-length string + huge length
                if b.len() > 12 {
                    let i = rng.usize(b.len() - 10);
                    let ctl = *rng.pick(&[0x13u8, 0x12, 0x11, 0x10, 0x0f, 0x0e, 0x33, 0x32]);
                    b[i] = ctl;
                    let fill = *rng.pick(&[0xffu8, 0x80, 0x7f, 0x00]);
                    for k in 1..9 {
                        b[i + k] = fill;
                    }
                }
                out.push(("length-boundary".into(), b));
            }
            3 => {
                let n_extra = 1 + rng.usize(16);
                let extra = rng.bytes(n_extra);
                b.extend_from_slice(&extra);
                out.push(("extend".into(), b));
            }
            _ => {
                if b.len() > 2 {
                    let i = rng.usize(b.len() - 1);
                    b.swap(i, i + 1);
                }
                out.push(("swap".into(), b));
            }
        }
    }
    out
}

pub fn run_one(rep: &mut Report, sc: &Scenario, replay: serde_json::Value, deep: bool) {
    let mut rng = Rng::new(subseed(sc.seed, &[3]));
    let steps = build(sc, &mut rng);
    let (r, kv) = commis::run_world_kv(&WorldParams {
        seed: sc.seed,
        steps: steps.clone(),
        shuffle: true,
        kv_fail_at: None,
        chaos: 0,
    });
    rep.evaluations += 1;
    rep.interleavings.insert(r.sched);
    if let Some(msg) = &r.panic {
        rep.violation("no-panic", &format!("C11/panic/{}", crate::util::panic_class(msg)), format!("panic: {} scenario {:?}", msg, sc), replay);
        return;
    }
    if r.setup_failed {
        rep.inconclusive("setup-failed(certificate generator)");
        return;
    }
    if r.status != Some(RunStatus::Done) || r.log.len() < steps.len() {
        rep.inconclusive(&format!("run-status-{:?}", r.status));
        return;
    }
    let failed: Vec<_> = r.log.iter().filter(|l| !l.success).map(|l| (format!("{:?}", l.step), l.out.clone())).collect();
    if !failed.is_empty() {
        rep.violation(
            "setup",
            "C11/honest-administrative-history-failed",
            format!("steps of an honest administrative history failed: {:?}", failed),
            replay.clone(),
        );
        return;
    }

    for l in r.log.iter() {
        match l.step {
            Step::AddGroup { name, .. } => rep.count(if name == 0 { "group-added" } else { "group-renamed" }),
            Step::GroupKeyMap { .. } => rep.count("group-key-map-written"),
            _ => {}
        }
    }

    // quiescent acknowledged points, in order: (kv_ops, committed state)
    let mut points: Vec<(usize, Committed)> = vec![(0, committed(&DevDump::default()))];
    for l in r.log.iter().filter(|l| quiescent(l)) {
        points.push((l.kv_ops, committed(&l.dev)));
    }

    // ---- A: crash at every KV operation ----
    let total = kv.mut_count();
    for k in 0..=total {
        let snap = kv.snapshot(k);
        let Some(d) = commis::restart_dump(&snap, sc.seed ^ (k as u64) << 8) else {
            rep.violation(
                "A-crash-points",
                "C11/A/restart-failed-at-crash-point",
                format!("a device restarted from the store after KV operation {} does not come up; KV log {:?}", k, kv.log().iter().map(|o| (o.mut_index, format!("{:?}", o.kind), o.key)).collect::<Vec<_>>()),
                replay.clone(),
            );
            continue;
        };
        rep.count("A-crash-points-checked");
        let rs = committed(&d);
        // last acknowledged point with kv_ops <= k, and the next one
        let li = points.iter().rposition(|(ops, _)| *ops <= k).unwrap_or(0);
        let a = &points[li].1;
        let b = points.get(li + 1).map(|p| &p.1).unwrap_or(a);
        if let Err(field) = field_ok(&rs, a, b) {
            rep.violation(
                "A-crash-points",
                &format!("C11/A/committed-state-lost-or-invented/{}", field),
                format!(
                    "crash after KV operation {} of {}: restarted node has fabrics {:?} networks {:?} label {:?}; last acknowledged state (ops<={}): fabrics {:?} networks {:?} label {:?}; next: fabrics {:?} networks {:?} label {:?}; KV log {:?}; scenario {:?}",
                    k, total,
                    rs.fabrics.iter().map(|(i, v)| (*i, Fnv::of(v) & 0xffff)).collect::<Vec<_>>(), rs.networks.len(), rs.label,
                    points[li].0,
                    a.fabrics.iter().map(|(i, v)| (*i, Fnv::of(v) & 0xffff)).collect::<Vec<_>>(), a.networks.len(), a.label,
                    b.fabrics.iter().map(|(i, v)| (*i, Fnv::of(v) & 0xffff)).collect::<Vec<_>>(), b.networks.len(), b.label,
                    kv.log().iter().map(|o| (o.mut_index, format!("{:?}", o.kind), o.key, o.step)).collect::<Vec<_>>(),
                    sc
                ),
                replay.clone(),
            );
        }
    }

    // ---- B: read-back at the end ----
    rep.count("B-checked");
    match &r.final_restart {
        Some(d) => {
            let live = committed(&r.log.last().unwrap().dev);
            if committed(d) != live {
                rep.violation(
                    "B-read-back",
                    "C11/B/restart-differs-from-live-committed-state",
                    format!("at the end of the history the live device holds label {:?} / {} fabrics / {} networks, a restart from the store gives label {:?} / {} fabrics / {} networks", live.label, live.fabrics.len(), live.networks.len(), d.label, d.fabrics.len(), d.networks.len()),
                    replay.clone(),
                );
            }
            // resumption cache read-back (records of existing fabrics)
            let live_rec: std::collections::BTreeSet<_> = r.log.last().unwrap().dev.resumption.iter().cloned().collect();
            let back_rec: std::collections::BTreeSet<_> = d.resumption.iter().cloned().collect();
            if live_rec != back_rec {
                rep.note("resumption-cache-after-restart-differs-from-live(soft cache, debounced flush)");
            } else {
                rep.count("B-resumption-cache-equal");
            }
        }
        None => {
            rep.violation("B-read-back", "C11/B/restart-from-final-store-failed", "restart from the final store failed".into(), replay.clone());
        }
    }

    // ---- C: factory reset ----
    rep.count("C-checked");
    match commis::factory_reset_leftovers(&r.kv_final, sc.seed) {
        Some(keys) => {
            let left: Vec<u16> = keys.into_iter().filter(|k| *k < VENDOR_KEYS_START).collect();
            if !left.is_empty() {
                rep.violation(
                    "C-factory-reset",
                    "C11/C/keys-left-after-factory-reset",
                    format!("keys below the vendor range left in the store after Matter::factory_reset + InteractionModel::factory_reset: {:?} (store before: {:?})", left, r.kv_final.keys().collect::<Vec<_>>()),
                    replay.clone(),
                );
            }
        }
        None => {
            rep.violation("C-factory-reset", "C11/C/factory-reset-failed", "factory reset failed or panicked".into(), replay.clone());
        }
    }

    // ---- D: damaged resumption cache ----
    if let Some(blob) = r.kv_final.get(&CASE_RESUMPTION_KEY) {
        let mut crng = Rng::new(subseed(sc.seed, &[9]));
        let variants = corrupt_variants(blob, &mut crng, if deep { 60 } else { 12 });
        for (class, v) in variants {
            let mut m: KvMap = r.kv_final.clone();
            m.insert(CASE_RESUMPTION_KEY, v.clone());
            rep.count("D-corruptions-checked");
            rep.count(&format!("D:{}", class));
            match commis::restart_boot(&m, sc.seed) {
                Some(Boot::Ok) => rep.count("D-booted"),
                Some(other) => {
                    rep.violation(
                        "D-damaged-cache-never-prevents-startup",
                        &format!("C11/D/startup-failed/{}", class),
                        format!("start-up failed ({:?}) with a damaged resumption blob ({}): {}", other, class, crate::util::hex(&v)),
                        replay.clone(),
                    );
                }
                None => {
                    rep.violation(
                        "D-damaged-cache-never-prevents-startup",
                        &format!("C11/D/startup-panicked/{}", class),
                        format!("start-up panicked with a damaged resumption blob ({}): {} @ {}", class, crate::util::hex(&v), crate::util::last_panic_location()),
                        replay.clone(),
                    );
                }
            }
        }
    } else {
        rep.count("no-resumption-blob-in-store");
    }
    rep.count_n("kv_mutating_ops", total as u64);
}

pub fn run(ctx: &Ctx) -> Report {
    let mut rep = Report::new(
        "C11",
        "Administrative histories (1-2 completed commissionings, label and ACL writes, CASE rounds, fabric removal); every prefix of the \
         KV operation log is a crash point (exhaustive per history); plus read-back, factory reset and resumption-blob corruption. \
         distinct = (history shape, KV log shape) - every history is non-trivial (>= 1 commissioning and >= 4 KV operations).",
    );
    crate::util::quiet_panics();
    crate::util::init_log_from_env();
    rep.assumptions.push("KvBlobStore contract: each store/remove atomic and durable on return".into());
    rep.assumptions.push("per-item tolerance: at a crash point each committed item may be at its last acknowledged or its next value (multi-write atomicity is C08's concern)".into());
    rep.floor("A-crash-points-checked", 300);
    rep.floor("C-checked", 30);
    rep.floor("D-corruptions-checked", 300);
    rep.floor("B-checked", 30);
    rep.floor("group-renamed", 20);

    if let Some(r) = &ctx.replay {
        if r["family"].as_str() == Some("E") {
            let seed: u64 = r["seed"].as_str().and_then(|s| s.parse().ok()).unwrap_or(0);
            crate::mon::c11_table::run_one(&mut rep, seed, r.clone());
            rep.evaluations += 1;
            return rep;
        }
        let seed: u64 = r["shard_seed"].as_str().and_then(|s| s.parse().ok()).unwrap_or(0);
        let idx = r["index"].as_u64().unwrap_or(0);
        let mut rng = Rng::new(subseed(seed, &[idx]));
        let sc = gen_scenario(&mut rng);
        run_one(&mut rep, &sc, r.clone(), true);
        rep.sample(json!({"scenario": format!("{:?}", sc)}));
        return rep;
    }

    let shard_seed = ctx.shard_seed();

    // family E: the fabric table over its whole index range (public Fabrics / FabricPersist API)
    rep.floor("E-crash-points-checked", 1000);
    rep.floor("E-histories-with-index-beyond-table-capacity", 20);
    for k in 0..ctx.share(160, 8_000) {
        let idx = k * ctx.nshards + ctx.shard;
        let seed = subseed(shard_seed, &[0xE0, idx]);
        let rj = json!({"check":"C11","family":"E","seed": seed.to_string()});
        crate::mon::c11_table::run_one(&mut rep, seed, rj);
        rep.evaluations += 1;
    }

    let n = ctx.share(160, 5_000);
    for k in 0..n {
        let idx = k * ctx.nshards + ctx.shard;
        let mut rng = Rng::new(subseed(shard_seed, &[idx]));
        let sc = gen_scenario(&mut rng);
        let rj = json!({"check":"C11","scenario": format!("{:?}", sc), "shard_seed": shard_seed.to_string(), "index": idx});
        run_one(&mut rep, &sc, rj, ctx.thorough);
        let mut f = Fnv::new();
        f.add(format!("{:?}|{}|{}|{:?}|{}|{}", sc.second_fabric, sc.labels, sc.acl_writes, sc.remove, sc.case_rounds, sc.groups).as_bytes());
        f.add_u64(sc.seed);
        rep.distinct.insert(f.0);
        if k < 1 {
            rep.sample(json!({"scenario": format!("{:?}", sc)}));
        }
    }
    rep
}
