//! C03 helpers: harness-side encoder/decoder of secured datagrams (over the public
//! `PacketHdr::{encode, decode_plain_hdr, decode_remaining}`), mutation operators, and
//! Part 2 of the monitor (codec-level encode/decode identity + mutants must not decode).

use std::panic::{catch_unwind, AssertUnwindSafe};

use serde_json::json;

use rs_matter::crypto::{CanonAeadKey, Crypto, AEAD_CANON_KEY_LEN};
use rs_matter::error::Error;
use rs_matter::transport::packet::PacketHdr;
use rs_matter::transport::MAX_RX_PAYLOAD_SIZE;
use rs_matter::utils::storage::{ParseBuf, WriteBuf};

use crate::report::{Ctx, Report};
use crate::sim::node;
use crate::sim::rng::{subseed, Fnv, Rng};
use crate::sim::wire;
use crate::util::{hex, panic_class, panic_msg};

pub type Key = [u8; AEAD_CANON_KEY_LEN];

pub const TAG_LEN: usize = 16;

/// Everything the public header API lets an encoder choose.
#[derive(Clone, Debug, PartialEq, Eq)]
pub struct HdrParams {
    pub sess_id: u16,
    pub ctr: u32,
    pub group: bool,
    pub control: bool,
    pub src: Option<u64>,
    pub dst_uni: Option<u64>,
    pub dst_grp: Option<u16>,
    pub exch_id: u16,
    pub proto_id: u16,
    pub opcode: u8,
    pub initiator: bool,
    pub reliable: bool,
    pub ack: Option<u32>,
    pub vendor: Option<u16>,
}

impl HdrParams {
    pub fn plain_len(&self) -> usize {
        8 + if self.src.is_some() { 8 } else { 0 }
            + if self.dst_uni.is_some() {
                8
            } else if self.dst_grp.is_some() {
                2
            } else {
                0
            }
    }

    pub fn proto_len(&self) -> usize {
        6 + if self.vendor.is_some() { 2 } else { 0 } + if self.ack.is_some() { 4 } else { 0 }
    }

    /// Compact, value-free description of the header shape.
    pub fn shape(&self) -> String {
        format!(
            "{}{}|src{}|dst{}|{}{}{}{}",
            if self.group { "G" } else { "U" },
            if self.control { "C" } else { "-" },
            self.src.is_some() as u8,
            if self.dst_uni.is_some() {
                "U"
            } else if self.dst_grp.is_some() {
                "G"
            } else {
                "-"
            },
            if self.initiator { "I" } else { "-" },
            if self.reliable { "R" } else { "-" },
            if self.ack.is_some() { "A" } else { "-" },
            if self.vendor.is_some() { "V" } else { "-" },
        )
    }
}

pub fn build_hdr(p: &HdrParams) -> PacketHdr {
    let mut h = PacketHdr::new();
    h.plain.sess_id = p.sess_id;
    h.plain.ctr = p.ctr;
    h.plain.set_group_session(p.group);
    h.plain.set_control_msg(p.control);
    h.plain.set_src_nodeid(p.src);
    if let Some(d) = p.dst_uni {
        h.plain.set_dst_unicast_nodeid(Some(d));
    } else if let Some(g) = p.dst_grp {
        h.plain.set_dst_groupcast_nodeid(Some(g));
    }
    h.proto.exch_id = p.exch_id;
    h.proto.proto_id = p.proto_id;
    h.proto.proto_opcode = p.opcode;
    if p.initiator {
        h.proto.set_initiator();
    }
    if p.reliable {
        h.proto.set_reliable();
    } else {
        h.proto.unset_reliable();
    }
    h.proto.set_ack(p.ack);
    h.proto.set_vendor(p.vendor);
    h
}

pub fn key_of(k: &Key) -> CanonAeadKey {
    let mut c = CanonAeadKey::new();
    c.load_from_array(k);
    c
}

/// Encode a secured datagram exactly as a peer holding `key` would.
pub fn encode<C: Crypto>(
    crypto: &C,
    p: &HdrParams,
    key: &Key,
    nonce_node: u64,
    payload: &[u8],
) -> Result<Vec<u8>, Error> {
    let mut buf = vec![0u8; PacketHdr::HDR_RESERVE + payload.len() + TAG_LEN + 8];
    let k = key_of(key);
    let (s, e) = {
        let mut wb = WriteBuf::new_with(&mut buf, PacketHdr::HDR_RESERVE, PacketHdr::HDR_RESERVE);
        wb.append(payload)?;
        build_hdr(p).encode(crypto, Some(k.reference()), nonce_node, &mut wb)?;
        (wb.get_start(), wb.get_tail())
    };
    Ok(buf[s..e].to_vec())
}

/// Decode with the public two-stage decoder.
pub fn decode<C: Crypto>(
    crypto: &C,
    bytes: &[u8],
    key: &Key,
    nonce_node: u64,
) -> Result<(HdrParams, Vec<u8>), Error> {
    let mut buf = bytes.to_vec();
    let k = key_of(key);
    let mut pb = ParseBuf::new(&mut buf[..]);
    let mut h = PacketHdr::new();
    h.decode_plain_hdr(&mut pb)?;
    h.decode_remaining(crypto, Some(k.reference()), nonce_node, &mut pb)?;
    let p = HdrParams {
        sess_id: h.plain.sess_id,
        ctr: h.plain.ctr,
        group: h.plain.is_group_session(),
        control: h.plain.is_control_msg(),
        src: h.plain.get_src_nodeid(),
        dst_uni: h.plain.get_dst_unicast_nodeid(),
        dst_grp: h.plain.get_dst_groupcast_nodeid(),
        exch_id: h.proto.exch_id,
        proto_id: h.proto.proto_id,
        opcode: h.proto.proto_opcode,
        initiator: h.proto.is_initiator(),
        reliable: h.proto.is_reliable(),
        ack: h.proto.get_ack(),
        vendor: h.proto.get_vendor(),
    };
    Ok((p, pb.as_slice().to_vec()))
}

pub fn first_diff(a: &HdrParams, b: &HdrParams) -> Option<&'static str> {
    if a.sess_id != b.sess_id {
        Some("sess_id")
    } else if a.ctr != b.ctr {
        Some("ctr")
    } else if a.group != b.group {
        Some("group-flag")
    } else if a.control != b.control {
        Some("control-flag")
    } else if a.src != b.src {
        Some("src-node")
    } else if a.dst_uni != b.dst_uni {
        Some("dst-node")
    } else if a.dst_grp != b.dst_grp {
        Some("dst-group")
    } else if a.exch_id != b.exch_id {
        Some("exch-id")
    } else if a.proto_id != b.proto_id {
        Some("proto-id")
    } else if a.opcode != b.opcode {
        Some("opcode")
    } else if a.initiator != b.initiator {
        Some("initiator-flag")
    } else if a.reliable != b.reliable {
        Some("reliable-flag")
    } else if a.ack != b.ack {
        Some("ack")
    } else if a.vendor != b.vendor {
        Some("vendor")
    } else {
        None
    }
}

/// Payload length classes (for coverage accounting).
pub fn len_class(n: usize) -> &'static str {
    match n {
        0 => "0",
        1 => "1",
        2..=15 => "2-15",
        16 => "16",
        17..=64 => "17-64",
        65..=255 => "65-255",
        256..=1023 => "256-1023",
        1024..=1177 => "1024-1177",
        1178 => "max-tx",
        n if n == MAX_RX_PAYLOAD_SIZE => "max-rx",
        _ => "1179-max",
    }
}

/// Payload length generator: 0..=64 dense, then boundaries up to the maximum.
pub fn gen_payload_len(rng: &mut Rng, max: usize) -> usize {
    let n = match rng.below(10) {
        0..=5 => rng.usize(65),
        6 => *rng.pick(&[15usize, 16, 17, 31, 32, 33, 63, 64, 65, 127, 128, 129, 255, 256, 257]),
        7 => rng.range(65, 1023) as usize,
        8 => *rng.pick(&[1023usize, 1024, 1177, 1178, 1179, 1200, 1232, 1280]),
        _ => {
            let m = max;
            *rng.pick(&[m, m - 1, m - 2, m - 15, m - 16, m - 17])
        }
    };
    n.min(max)
}

/// Region of a secured datagram a byte offset falls into.
pub fn region(off: usize, plain_len: usize, total: usize, has_src: bool) -> &'static str {
    if off == 0 {
        "msgflags"
    } else if off <= 2 {
        "sessid"
    } else if off == 3 {
        "secflags"
    } else if off <= 7 {
        "ctr"
    } else if off < plain_len {
        if has_src && off < 16 {
            "srcnode"
        } else {
            "dstnode"
        }
    } else if off + TAG_LEN >= total {
        "tag"
    } else {
        "body"
    }
}

pub fn flip(d: &[u8], bit: usize) -> Vec<u8> {
    let mut v = d.to_vec();
    v[bit / 8] ^= 1 << (bit % 8);
    v
}

pub fn gen_params(rng: &mut Rng) -> HdrParams {
    let group = rng.chance(1, 3);
    let (dst_uni, dst_grp) = match rng.below(4) {
        0 | 1 => (None, None),
        2 => (Some(rng.u64()), None),
        _ => (None, Some(rng.u32() as u16)),
    };
    HdrParams {
        sess_id: if rng.chance(1, 16) { *rng.pick(&[1u16, 0x8000, 0xffff, 0x0100]) } else { 1 + rng.below(0xffff) as u16 },
        ctr: match rng.below(8) {
            0 => 0,
            1 => u32::MAX,
            2 => 0x0fff_ffff,
            _ => rng.u32(),
        },
        group,
        control: rng.chance(1, 4),
        src: if group || rng.chance(1, 3) { Some(rng.u64()) } else { None },
        dst_uni,
        dst_grp,
        exch_id: rng.u32() as u16,
        proto_id: if rng.chance(1, 4) { rng.below(3) as u16 } else { rng.u32() as u16 },
        opcode: rng.u32() as u8,
        initiator: rng.bool(),
        reliable: rng.bool(),
        ack: if rng.bool() { Some(rng.u32()) } else { None },
        vendor: if rng.chance(1, 3) { Some(rng.u32() as u16) } else { None },
    }
}

/// Part 2: one codec case = one encode/decode identity check + a handful of mutants.
pub fn codec_case<C: Crypto>(rep: &mut Report, crypto: &C, seed: u64, idx: u64, replay: bool) {
    let mut rng = Rng::new(subseed(seed, &[0xC0DEC, idx]));
    let p = gen_params(&mut rng);
    let mut key: Key = [0; 16];
    key.copy_from_slice(&rng.bytes(16));
    let nonce_node = match (p.src, rng.below(3)) {
        (Some(s), 0 | 1) => s,
        _ => rng.u64(),
    };
    let plen = gen_payload_len(&mut rng, MAX_RX_PAYLOAD_SIZE);
    let payload = rng.bytes(plen);
    let rj = json!({"check": "C03", "part": 2, "seed": seed.to_string(), "index": idx});

    rep.evaluations += 1;
    rep.count("p2/cases");

    let enc = catch_unwind(AssertUnwindSafe(|| encode(&crypto, &p, &key, nonce_node, &payload)));
    let d = match enc {
        Err(e) => {
            let m = panic_msg(&e);
            rep.violation("no-panic", &format!("C03/panic/encode/{}", panic_class(&m)), format!("PacketHdr::encode panicked: {} params {:?} payload len {}", m, p, plen), rj);
            return;
        }
        Ok(Err(e)) => {
            rep.violation("roundtrip", "C03/codec-encode-failed", format!("encode failed {:?} for {:?} payload len {}", e.code(), p, plen), rj);
            return;
        }
        Ok(Ok(d)) => d,
    };
    if d.len() != p.plain_len() + p.proto_len() + plen + TAG_LEN {
        rep.violation("roundtrip", "C03/codec-length", format!("encoded length {} != plain {} + proto {} + payload {} + tag; params {:?}", d.len(), p.plain_len(), p.proto_len(), plen, p), rj.clone());
    }
    // Independent view of the plain header
    match wire::peek(&d) {
        Some(w) => {
            let ok = w.session_id == p.sess_id
                && w.ctr == p.ctr
                && w.src_node == p.src
                && w.dst_node == p.dst_uni
                && w.dst_group == p.dst_grp
                && (w.sec_flags & 0x01 != 0) == p.group
                && (w.sec_flags & 0x40 != 0) == p.control
                && w.hdr_len == p.plain_len()
                && (w.msg_flags & 0xf8) == 0;
            if !ok {
                rep.violation("roundtrip", "C03/roundtrip-mismatch/plain-header-wire-format", format!("independent decoder sees {:?} for params {:?}; datagram {}", w, p, hex(&d[..d.len().min(40)])), rj.clone());
            } else {
                rep.count("p2/plain-header-wire-format-ok");
            }
        }
        None => rep.violation("roundtrip", "C03/roundtrip-mismatch/plain-header-wire-format", format!("independent decoder cannot parse {}", hex(&d[..d.len().min(40)])), rj.clone()),
    }

    let dec = catch_unwind(AssertUnwindSafe(|| decode(&crypto, &d, &key, nonce_node)));
    match dec {
        Err(e) => {
            let m = panic_msg(&e);
            rep.violation("no-panic", &format!("C03/panic/decode/{}", panic_class(&m)), format!("decode of an authentic datagram panicked: {} params {:?}", m, p), rj.clone());
        }
        Ok(Err(e)) => rep.violation("roundtrip", "C03/codec-authentic-not-decoded", format!("decode of authentic datagram failed {:?}; params {:?} payload len {} datagram {}", e.code(), p, plen, hex(&d[..d.len().min(64)])), rj.clone()),
        Ok(Ok((q, pl))) => {
            if let Some(f) = first_diff(&p, &q) {
                rep.violation("roundtrip", &format!("C03/roundtrip-mismatch/{}", f), format!("encoded {:?} decoded {:?}", p, q), rj.clone());
            } else if pl != payload {
                rep.violation("roundtrip", "C03/roundtrip-mismatch/payload", format!("payload differs (len {} vs {}) params {:?}", payload.len(), pl.len(), p), rj.clone());
            } else {
                rep.count("p2/roundtrip-identical");
                rep.count(&format!("p2/len:{}", len_class(plen)));
            }
        }
    }
    let mut f = Fnv::new();
    f.add(format!("p2|{}|{}", p.shape(), len_class(plen)).as_bytes());
    rep.distinct.insert(f.0);

    // Mutants
    let total = d.len();
    let pl_len = p.plain_len();
    let mut mutants: Vec<(String, Vec<u8>, Key, u64)> = Vec::new();
    {
        let bit = if rng.bool() { rng.usize(pl_len * 8) } else { rng.usize(total * 8) };
        mutants.push((format!("bitflip/{}", region(bit / 8, pl_len, total, p.src.is_some())), flip(&d, bit), key, nonce_node));
        let bit = (total - 1 - rng.usize(TAG_LEN + 6)) * 8 + rng.usize(8);
        mutants.push((format!("bitflip/{}", region(bit / 8, pl_len, total, p.src.is_some())), flip(&d, bit), key, nonce_node));
        let cut = match rng.below(4) {
            0 => rng.usize(pl_len + 1),
            1 => total - 1 - rng.usize(TAG_LEN + 1),
            _ => rng.usize(total),
        };
        mutants.push(("truncate".into(), d[..cut].to_vec(), key, nonce_node));
        let mut ext = d.clone();
        let n_ext = 1 + rng.usize(32);
        ext.extend(rng.bytes(n_ext));
        mutants.push(("extend".into(), ext, key, nonce_node));
        match rng.below(6) {
            0 => {
                let mut k2 = key;
                k2[rng.usize(16)] ^= 1 << rng.usize(8);
                mutants.push(("wrong-key".into(), d.clone(), k2, nonce_node));
            }
            1 => mutants.push(("wrong-source-node".into(), d.clone(), key, nonce_node ^ (1u64 << rng.usize(64)))),
            2 => {
                let mut m = d.clone();
                let s = p.sess_id ^ (1 << rng.usize(16));
                m[1..3].copy_from_slice(&s.to_le_bytes());
                mutants.push(("sessid-rewritten".into(), m, key, nonce_node));
            }
            3 => {
                // add / remove the source node id field without re-encrypting
                let mut m = d.clone();
                if p.src.is_some() {
                    m.drain(8..16);
                    m[0] &= !0x04;
                    mutants.push(("srcfield-removed".into(), m, key, nonce_node));
                } else {
                    let ins = nonce_node.to_le_bytes();
                    for (i, b) in ins.iter().enumerate() {
                        m.insert(8 + i, *b);
                    }
                    m[0] |= 0x04;
                    mutants.push(("srcfield-added".into(), m, key, nonce_node));
                }
            }
            4 => {
                // same plaintext, other counter (the nonce changes) - ciphertext transplanted
                let mut m = d.clone();
                let c = p.ctr.wrapping_add(1 + rng.below(3) as u32);
                m[4..8].copy_from_slice(&c.to_le_bytes());
                mutants.push(("ctr-rewritten".into(), m, key, nonce_node));
            }
            _ => {
                // ciphertext of this message under the header of another one (header transplant)
                let mut q = p.clone();
                q.exch_id ^= 1;
                q.control = !q.control;
                if let Ok(other) = encode(&crypto, &q, &key, nonce_node, &payload) {
                    let mut m = other[..q.plain_len()].to_vec();
                    m.extend_from_slice(&d[pl_len..]);
                    mutants.push(("header-transplant".into(), m, key, nonce_node));
                }
            }
        }
    }
    for (class, m, k, n) in mutants {
        if m == d && k == key && n == nonce_node {
            continue;
        }
        rep.count("p2/mutants");
        rep.count(&format!("p2/mutant:{}", class.split('/').next().unwrap_or("")));
        let r = catch_unwind(AssertUnwindSafe(|| decode(&crypto, &m, &k, n)));
        match r {
            Err(e) => {
                let msg = panic_msg(&e);
                rep.violation("no-panic", &format!("C03/panic/decode/{}", panic_class(&msg)), format!("decode panicked on mutant {}: {} datagram {} (original params {:?})", class, msg, hex(&m[..m.len().min(80)]), p), rj.clone());
            }
            Ok(Ok((q, pl))) => {
                rep.violation(
                    "mutant-rejected",
                    &format!("C03/codec-mutant-decoded/{}", class),
                    format!("mutant ({}) of an authentic datagram decoded successfully: original {:?} payload {} B; mutant decodes to {:?} payload {} B; original {} mutant {}", class, p, plen, q, pl.len(), hex(&d[..d.len().min(80)]), hex(&m[..m.len().min(80)])),
                    rj.clone(),
                );
            }
            Ok(Err(_)) => rep.count("p2/mutant-rejected"),
        }
    }
    if replay {
        rep.sample(json!({"params": format!("{:?}", p), "payload_len": plen, "datagram": hex(&d[..d.len().min(96)])}));
    }
}

pub fn run_part2(ctx: &Ctx, rep: &mut Report) {
    let n = ctx.share(1_000_000, 20_000_000);
    let seed = ctx.shard_seed();
    let crypto = node::crypto(Rng::new(subseed(seed, &[0xC0DEC])));
    for i in 0..n {
        codec_case(rep, &crypto, seed, i, false);
        if rep.get("violations_raw") > 200 {
            rep.note("part2-stopped-after-200-violations");
            break;
        }
    }
}
