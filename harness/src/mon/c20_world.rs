//! C20 world: one responder node under test (R), a probe/coordinator node (P), 1..3 real
//! initiator nodes, optionally a "holder" node (H) with pre-established mirrored sessions,
//! spoofed source addresses (raw injected datagrams) and an on-path adversary that makes real
//! initiators "stop after message k" (by muting their exchange), corrupts their k-th message,
//! or loses datagrams at random.
//!
//! Hub indices: 0 = P, 1 = R, 2.. = initiators, last = H (if any).
//!
//! The harness owns the ground truth: which exchanges it pinned on R (and for how long), which
//! attempts it let complete, when faults stopped. Everything judged is derived from the
//! `verif` hooks (session table snapshot, PASE state, transport slots) plus the wire tap.

use core::future::Future;
use core::num::NonZeroU8;
use core::pin::Pin;
use core::task::{Context, Poll};
use std::cell::{Cell, RefCell};
use std::collections::{BTreeMap, BTreeSet};
use std::panic::{catch_unwind, AssertUnwindSafe};
use std::rc::Rc;

use rs_matter::crypto::Crypto;
use rs_matter::error::{Error, ErrorCode};
use rs_matter::respond::{ExchangeHandler, Responder};
use rs_matter::sc::busy::BusySecureChannel;
use rs_matter::sc::case::CaseInitiator;
use rs_matter::sc::pase::PaseInitiator;
use rs_matter::sc::SecureChannel;
use rs_matter::transport::exchange::{Exchange, MessageMeta};
use core::net::{SocketAddr, SocketAddrV6};
use rs_matter::transport::network::Address;
use rs_matter::transport::session::verif::VerifSession;
use rs_matter::transport::session::{SessionMode, MAX_EXCHANGES, MAX_SESSIONS};
use rs_matter::Matter;

use crate::sim::clock;
use crate::sim::exec::{self, BoxFut, CancelAfter, Limits, RunStatus};
use crate::sim::net::{Delivery, Endpoint, NetHub};
use crate::sim::node::{self, FabricCa};
use crate::sim::rng::{subseed, Rng};
use crate::sim::wire;

pub const P_NODE: u64 = 0x9001;
pub const R_NODE: u64 = 0x2002;
pub const H_NODE: u64 = 0x8001;
pub const I_NODE_BASE: u64 = 0x1100;
pub const PASSCODE: u32 = 20202021; // TEST_DEV_COMM

pub const OP_ACK: u8 = 0x10;
pub const OP_PBKDF_REQ: u8 = 0x20;
pub const OP_PAKE1: u8 = 0x22;
pub const OP_PAKE3: u8 = 0x24;
pub const OP_SIGMA1: u8 = 0x30;
pub const OP_SIGMA3: u8 = 0x32;
pub const OP_STATUS: u8 = 0x40;

/// Harness-private protocol id: a message of this protocol makes R's handler keep the
/// exchange (a "slow application handler") until the harness releases it.
pub const HOLD_PROTO: u16 = 0x7C20;

/// Time (virtual) after the end of all traffic by which every time-out the code defines with
/// its default parameters has fired: accept 1 s, MRP ladder ~4.2 s, receive time-out ~38.5 s,
/// PASE establishment 60 s. Bounded restatement of "for good".
pub const QUIESCE_MIN_MS: u64 = 70_000;
pub const QUIESCE_MAX_MS: u64 = 150_000;
/// The same bound for sequences in which a peer advertised the largest MRP intervals the code
/// honours (1 h): ladder of 5 retransmissions with back-off 1.6 and 25 % jitter plus margin.
pub const QUIESCE_MAX_LONG_MS: u64 = 72 * 3600 * 1000;
/// After the initiators are done: time for their last retransmissions to die out before the
/// "after faults" probe.
pub const SETTLE_MS: u64 = 12_000;

#[derive(Clone, Copy, Debug, PartialEq, Eq, Hash, PartialOrd, Ord)]
pub enum Proto {
    Pase,
    Case,
}

#[derive(Clone, Copy, Debug, PartialEq, Eq)]
pub enum Garbage {
    FlipPayload,
    FlipProtoHdr,
    Truncate,
    Extend,
    WrongOpcode,
    WrongMac,
    EmptyPayload,
    RandomPayload,
}

pub const GARBAGE_KINDS: &[Garbage] = &[
    Garbage::FlipPayload,
    Garbage::FlipProtoHdr,
    Garbage::Truncate,
    Garbage::Extend,
    Garbage::WrongOpcode,
    Garbage::WrongMac,
    Garbage::EmptyPayload,
    Garbage::RandomPayload,
];

#[derive(Clone, Debug, PartialEq, Eq)]
pub enum Shape {
    /// Honest handshake, left alone.
    Complete,
    /// PASE with a wrong passcode (the device refuses at Pake3).
    WrongPass,
    /// The initiator goes silent once its k-th handshake message was delivered (once).
    /// `acks`: its stand-alone acknowledgements still get through (it "withholds" the next
    /// message instead of disappearing).
    Stop { k: u8, acks: bool },
    /// The k-th handshake message of the initiator is corrupted on the wire.
    Garbage { k: u8, kind: Garbage, every_copy: bool },
    /// The initiator's own handshake future is dropped after its n-th `Pending`.
    InitCancel { n: u16 },
    /// `burst` first messages (PBKDFParamRequest / a replayed Sigma1) from spoofed source
    /// addresses nobody listens on; `same_src`: all from one (address, node id) with different
    /// exchange ids. `huge_mrp`: the PBKDFParamRequest advertises out-of-spec MRP intervals.
    Spoof { burst: u8, same_src: bool, huge_mrp: bool },
    /// One junk datagram.
    Junk { kind: u8 },
    /// An exchange opened on an established session, one unhandled message, then dropped.
    ExchJunk,
}

#[derive(Clone, Debug, PartialEq, Eq)]
pub struct Attempt {
    pub node: u8,
    pub proto: Proto,
    pub shape: Shape,
    pub gap_ms: u32,
    /// Run concurrently with the previous attempt of the same node (same source address).
    pub par: bool,
}

#[derive(Clone, Copy, Debug, PartialEq, Eq)]
pub enum CancelPlan {
    Never,
    /// Every secure-channel handler invocation is dropped after its n-th Pending.
    Fixed(u32),
    /// With probability pct%, dropped after a uniformly drawn n in 0..=max.
    Random { pct: u8, max: u32 },
}

#[derive(Clone, Copy, Debug, PartialEq, Eq)]
pub enum PinKind {
    /// R itself opened an exchange on the session (as an application sending a report would).
    RInit,
    /// The peer opened an exchange that a handler of R keeps (a slow request handler).
    Hold,
    Mixed,
}

#[derive(Clone, Copy, Debug, PartialEq, Eq)]
pub enum Family {
    Hostile,
    TableFull,
    ExchFlood,
}

#[derive(Clone, Debug)]
pub struct Params {
    pub seed: u64,
    pub family: Family,
    pub n_init: u8,
    pub handlers: u8,
    pub busy_responder: bool,
    pub cancel: CancelPlan,
    pub attempts: Vec<Attempt>,
    /// Pre-established (mirrored) CASE sessions R <-> H.
    pub prefill: u8,
    /// How many of them carry a live harness-owned exchange at R.
    pub pinned: u8,
    pub pin_kind: PinKind,
    /// TableFull: pins released before the second probe.
    pub release: u8,
    /// TableFull: this many pinned sessions are marked *expired* at R once their exchange is
    /// live (what RemoveFabric / CommissioningComplete do to the session a command arrived on):
    /// an expired session that still carries a live exchange must not be evicted either.
    pub expire_pinned: u8,
    pub chaos: u8,
    pub shuffle: bool,
}

#[derive(Clone, Debug, Default)]
pub struct NodeQuiesce {
    pub role: &'static str,
    pub sessions: Vec<VerifSession>,
    pub rx_occupied: bool,
    pub tx_occupied: bool,
    pub resolve_idle: bool,
    pub browse_idle: bool,
}

#[derive(Clone, Debug)]
#[allow(dead_code)] // some fields only appear in the trace output
pub struct ProbeResult {
    pub phase: &'static str,
    pub proto: Proto,
    pub free: usize,
    pub idle: usize,
    pub busy_slots: usize,
    pub handler_free: bool,
    pub ok: bool,
    pub err: Option<ErrorCode>,
    pub tries: u8,
    pub busy_answers: u64,
    pub t: u64,
}

#[derive(Clone, Debug)]
#[allow(dead_code)] // some fields only appear in the trace output
pub struct PinResult {
    pub id: u32,
    pub responder_role: bool,
    pub sid: u32,
    /// None: never established (not judged).
    pub established: bool,
    /// The session was still in the table (with our exchange) when the pin was released.
    pub alive_at_release: Option<bool>,
    pub t_pin: u64,
    pub t_release: u64,
}

#[derive(Clone, Debug)]
#[allow(dead_code)] // some fields only appear in the trace output
pub struct HandlerRec {
    pub sid: u32,
    pub opcode: u8,
    pub t0: u64,
    pub t1: u64,
    /// "ok", "cancelled", or the error code
    pub outcome: String,
    /// the handler was cancelled by the harness
    pub cancelled: bool,
    pub session_alive_at_end: bool,
}

#[derive(Clone, Debug)]
#[allow(dead_code)] // some fields only appear in the trace output
pub struct AttemptLog {
    pub idx: usize,
    pub class: String,
    pub result: String,
}

#[derive(Clone, Debug, Default)]
pub struct Outcome {
    pub status: Option<RunStatus>,
    pub panic: Option<String>,
    pub phase: &'static str,
    pub setup_failed: bool,
    pub capacity: usize,
    pub exch_capacity: usize,
    pub quiesce: Vec<NodeQuiesce>,
    pub final_nodes: Vec<NodeQuiesce>,
    /// R: (failures of the open window, in-progress marker) at quiescence
    pub pase_marker_at_quiesce: bool,
    pub settle_ms: Option<u64>,
    pub probes: Vec<ProbeResult>,
    pub pins: Vec<PinResult>,
    pub handlers: Vec<HandlerRec>,
    pub attempts: Vec<AttemptLog>,
    pub counters: BTreeMap<String, u64>,
    pub sched_hash: u64,
    pub datagrams: u64,
    pub max_occupancy: usize,
    pub end_time: u64,
    /// ExchFlood: number of first messages of the flood that R saw on one unsecured session
    pub flood_sent: u32,
    pub flood_t: u64,
}

impl Outcome {
    fn bump(&mut self, k: &str, n: u64) {
        *self.counters.entry(k.to_string()).or_insert(0) += n;
    }
}

// ---------------------------------------------------------------------------------------------
// shared run state
// ---------------------------------------------------------------------------------------------

#[derive(Clone, Debug)]
struct Plan {
    attempt: usize,
    node: usize,
    proto: Proto,
    stop: Option<(u8, bool)>,
    garbage: Option<(u8, Garbage, bool)>,
}

struct Bound {
    plan: Plan,
    seen_ctrs: Vec<u32>,
    ordinal: u8,
    muted: bool,
    last_opcode: u8,
}

#[derive(Default)]
struct Adv {
    pending: Vec<Plan>,
    bound: BTreeMap<(usize, u16), Bound>,
    faults_on: bool,
    chaos: u8,
    sigma1_payload: Option<Vec<u8>>,
    counters: BTreeMap<String, u64>,
}

impl Adv {
    fn bump(&mut self, k: &str) {
        *self.counters.entry(k.to_string()).or_insert(0) += 1;
    }
}

#[derive(Clone, Debug)]
struct PinState {
    id: u32,
    responder_role: bool,
    /// internal session id at R
    sid: u32,
    /// internal session id at H (for Hold pins)
    sid_h: u32,
    requested: bool,
    established: bool,
    release: bool,
    alive_at_release: Option<bool>,
    t_pin: u64,
    t_release: u64,
}

struct Shared {
    adv: RefCell<Adv>,
    go: Cell<bool>,
    done_nodes: Cell<u32>,
    finished: Cell<bool>,
    pins: RefCell<Vec<PinState>>,
    handlers: RefCell<Vec<HandlerRec>>,
    active_handlers: Cell<u32>,
    cancel: CancelPlan,
    cancel_rng: RefCell<Rng>,
    cancel_enabled: Cell<bool>,
    attempts_log: RefCell<Vec<AttemptLog>>,
    counters: RefCell<BTreeMap<String, u64>>,
    flood: Cell<(u32, u64)>,
}

impl Shared {
    fn bump(&self, k: &str) {
        *self.counters.borrow_mut().entry(k.to_string()).or_insert(0) += 1;
    }
}

fn opcode_name(op: u8) -> &'static str {
    match op {
        OP_PBKDF_REQ => "PBKDFParamRequest",
        OP_PAKE1 => "Pake1",
        OP_PAKE3 => "Pake3",
        OP_SIGMA1 => "Sigma1",
        OP_SIGMA3 => "Sigma3",
        OP_STATUS => "StatusReport",
        _ => "other",
    }
}

fn session_alive(m: &Matter<'_>, sid: u32, need_exchange: bool) -> bool {
    node::snapshot(m)
        .iter()
        .any(|s| s.id == sid && (!need_exchange || !s.exchanges.is_empty()))
}

fn parse_sid(ex: &Exchange<'_>) -> u32 {
    let s = format!("{}", ex.id());
    s.split("::").next().and_then(|p| p.parse().ok()).unwrap_or(u32::MAX)
}

pub fn spoof_addr(i: u16) -> Address {
    Address::Udp(SocketAddr::V6(SocketAddrV6::new(
        core::net::Ipv6Addr::new(0xfd00, 0, 0, 0, 0, 0, 0x5000, i),
        5540,
        0,
        0,
    )))
}

#[allow(clippy::too_many_arguments)]
pub fn raw_unsecured(
    src_node: Option<u64>,
    ctr: u32,
    exch_flags: u8,
    opcode: u8,
    exch_id: u16,
    proto: u16,
    ack: Option<u32>,
    payload: &[u8],
) -> Vec<u8> {
    let mut v = Vec::with_capacity(32 + payload.len());
    v.push(if src_node.is_some() { 0x04 } else { 0x00 });
    v.extend_from_slice(&0u16.to_le_bytes());
    v.push(0);
    v.extend_from_slice(&ctr.to_le_bytes());
    if let Some(n) = src_node {
        v.extend_from_slice(&n.to_le_bytes());
    }
    let mut ef = exch_flags;
    if ack.is_some() {
        ef |= wire::EXCH_A;
    }
    v.push(ef);
    v.push(opcode);
    v.extend_from_slice(&exch_id.to_le_bytes());
    v.extend_from_slice(&proto.to_le_bytes());
    if let Some(a) = ack {
        v.extend_from_slice(&a.to_le_bytes());
    }
    v.extend_from_slice(payload);
    v
}

const P256_G: [u8; 65] = [
    0x04, 0x6b, 0x17, 0xd1, 0xf2, 0xe1, 0x2c, 0x42, 0x47, 0xf8, 0xbc, 0xe6, 0xe5, 0x63, 0xa4, 0x40,
    0xf2, 0x77, 0x03, 0x7d, 0x81, 0x2d, 0xeb, 0x33, 0xa0, 0xf4, 0xa1, 0x39, 0x45, 0xd8, 0x98, 0xc2,
    0x96, 0x4f, 0xe3, 0x42, 0xe2, 0xfe, 0x1a, 0x7f, 0x9b, 0x8e, 0xe7, 0xeb, 0x4a, 0x7c, 0x0f, 0x9e,
    0x16, 0x2b, 0xce, 0x33, 0x57, 0x6b, 0x31, 0x5e, 0xce, 0xcb, 0xb6, 0x40, 0x68, 0x37, 0xbf, 0x51,
    0xf5,
];

fn pbkdf_req_payload(rng: &mut Rng, huge_mrp: bool) -> Vec<u8> {
    let mut v = vec![0x15, 0x30, 0x01, 0x20];
    v.extend_from_slice(&rng.bytes(32));
    v.extend_from_slice(&[0x25, 0x02]);
    v.extend_from_slice(&(1 + rng.below(60000) as u16).to_le_bytes());
    v.extend_from_slice(&[0x25, 0x03, 0x00, 0x00]);
    v.extend_from_slice(&[0x28, 0x04]);
    if huge_mrp {
        // session parameters (tag 5): SII (1) and SAI (2) far beyond the 1 h the Matter
        // specification allows
        v.extend_from_slice(&[0x35, 0x05, 0x26, 0x01]);
        v.extend_from_slice(&0xFFFF_FF00u32.to_le_bytes());
        v.extend_from_slice(&[0x26, 0x02]);
        v.extend_from_slice(&0xFFFF_FF00u32.to_le_bytes());
        v.push(0x18);
    }
    v.push(0x18);
    v
}

fn sigma1_unknown_fabric_payload(rng: &mut Rng) -> Vec<u8> {
    let mut v = vec![0x15, 0x30, 0x01, 0x20];
    v.extend_from_slice(&rng.bytes(32));
    v.extend_from_slice(&[0x25, 0x02]);
    v.extend_from_slice(&(1 + rng.below(60000) as u16).to_le_bytes());
    v.extend_from_slice(&[0x30, 0x03, 0x20]);
    v.extend_from_slice(&rng.bytes(32));
    v.extend_from_slice(&[0x30, 0x04, 0x41]);
    v.extend_from_slice(&P256_G);
    v.push(0x18);
    v
}

// ---------------------------------------------------------------------------------------------
// R's exchange handler: secure channel under `CancelAfter`, plus the "hold" protocol
// ---------------------------------------------------------------------------------------------

struct C20Handler<'a, C: Crypto> {
    sc: SecureChannel<'a, &'a C>,
    sh: Rc<Shared>,
}

struct ActiveGuard<'s>(&'s Shared);
impl Drop for ActiveGuard<'_> {
    fn drop(&mut self) {
        self.0.active_handlers.set(self.0.active_handlers.get().saturating_sub(1));
    }
}

impl<'a, C: Crypto> C20Handler<'a, C> {
    fn next_cancel(&self) -> Option<u32> {
        if !self.sh.cancel_enabled.get() {
            return None;
        }
        match self.sh.cancel {
            CancelPlan::Never => None,
            CancelPlan::Fixed(n) => Some(n),
            CancelPlan::Random { pct, max } => {
                let mut r = self.sh.cancel_rng.borrow_mut();
                if r.chance(pct as u32, 100) {
                    Some(r.below(max as u64 + 1) as u32)
                } else {
                    None
                }
            }
        }
    }

    async fn hold(&self, mut exchange: Exchange<'_>, sid: u32) -> Result<(), Error> {
        let pin_id = {
            let p = exchange.rx()?.payload();
            if p.len() < 4 {
                return Ok(());
            }
            u32::from_le_bytes([p[0], p[1], p[2], p[3]])
        };
        exchange.rx_done()?;
        // acknowledge at once (the peer is not kept retransmitting), then keep the exchange
        let _ = exchange.acknowledge().await;
        {
            let mut pins = self.sh.pins.borrow_mut();
            if let Some(p) = pins.iter_mut().find(|p| p.id == pin_id) {
                p.established = true;
                p.sid = sid;
                p.t_pin = clock::now();
            } else {
                return Ok(());
            }
        }
        loop {
            let rel = self
                .sh
                .pins
                .borrow()
                .iter()
                .find(|p| p.id == pin_id)
                .map(|p| p.release)
                .unwrap_or(true);
            if rel || self.sh.finished.get() {
                break;
            }
            exec::sleep_ms(25).await;
        }
        let alive = session_alive(exchange.matter(), sid, true);
        {
            let mut pins = self.sh.pins.borrow_mut();
            if let Some(p) = pins.iter_mut().find(|p| p.id == pin_id) {
                p.alive_at_release = Some(alive);
                p.t_release = clock::now();
            }
        }
        let _ = exchange.acknowledge().await;
        Ok(())
    }
}

impl<'a, C: Crypto> ExchangeHandler for C20Handler<'a, C> {
    async fn handle(&self, mut exchange: Exchange<'_>) -> Result<(), Error> {
        let sid = parse_sid(&exchange);
        self.sh.active_handlers.set(self.sh.active_handlers.get() + 1);
        let _g = ActiveGuard(&self.sh);

        exchange.recv_fetch().await?;
        let (proto, opcode) = {
            let m = exchange.rx()?.meta();
            (m.proto_id, m.proto_opcode)
        };
        if proto == HOLD_PROTO {
            return self.hold(exchange, sid).await;
        }

        let matter = exchange.matter();
        let t0 = clock::now();
        let cancel = self.next_cancel();
        let res = match cancel {
            None => Some(self.sc.handle(exchange).await),
            Some(n) => CancelAfter::new(self.sc.handle(exchange), n).await,
        };
        let outcome = match &res {
            Some(Ok(())) => "ok".to_string(),
            Some(Err(e)) => format!("{:?}", e.code()),
            None => "cancelled".to_string(),
        };
        if std::env::var("RSMV_TRACE").is_ok() && outcome == "NoSpaceSessions" {
            eprintln!("nospace evictable-now={:?}", matter.with_state(|s| s.verif_sessions_mut().get_session_for_eviction().map(|s| s.id())));
            for s in node::snapshot(matter) {
                eprintln!("nospace t={} sess {} {:?} reserved={} expired={} exch={:?} peer={:?}", clock::now(), s.id, s.mode, s.reserved, s.expired, s.exchanges.iter().map(|e| (e.exch_id, e.initiator, e.dropped, e.accept_pending)).collect::<Vec<_>>(), s.peer_addr);
            }
        }
        self.sh.handlers.borrow_mut().push(HandlerRec {
            sid,
            opcode,
            t0,
            t1: clock::now(),
            outcome,
            cancelled: res.is_none(),
            session_alive_at_end: session_alive(matter, sid, false),
        });
        match res {
            Some(r) => r,
            None => Err(ErrorCode::Failure.into()),
        }
    }
}

// ---------------------------------------------------------------------------------------------
// small future helpers
// ---------------------------------------------------------------------------------------------

struct JoinAll<'a> {
    futs: Vec<Option<BoxFut<'a>>>,
}

impl Future for JoinAll<'_> {
    type Output = ();
    fn poll(self: Pin<&mut Self>, cx: &mut Context<'_>) -> Poll<()> {
        let this = self.get_mut();
        let mut all = true;
        for f in this.futs.iter_mut() {
            if let Some(fut) = f {
                if fut.as_mut().poll(cx).is_ready() {
                    *f = None;
                } else {
                    all = false;
                }
            }
        }
        if all {
            Poll::Ready(())
        } else {
            Poll::Pending
        }
    }
}

fn quiesce_of(role: &'static str, m: &Matter<'_>) -> NodeQuiesce {
    let slots = m.transport().verif_slots();
    NodeQuiesce {
        role,
        sessions: node::snapshot(m),
        rx_occupied: slots.rx_occupied,
        tx_occupied: slots.tx_occupied,
        resolve_idle: slots.resolve_idle,
        browse_idle: slots.browse_idle,
    }
}

fn settled(m: &Matter<'_>) -> bool {
    let q = quiesce_of("", m);
    !q.rx_occupied
        && !q.tx_occupied
        && q.sessions.iter().all(|s| !s.reserved && s.exchanges.is_empty())
}

/// (free slots, idle = neither reserved nor carrying an exchange, busy)
fn occupancy(m: &Matter<'_>) -> (usize, usize, usize) {
    let s = node::snapshot(m);
    let idle = s.iter().filter(|s| !s.reserved && s.exchanges.is_empty()).count();
    (MAX_SESSIONS - s.len().min(MAX_SESSIONS), idle, s.len() - idle)
}

fn busy_answers_to(hub: &NetHub, dst: usize) -> u64 {
    hub.with_tap(|t| {
        t.iter()
            .filter(|ev| ev.dgram.src == 1 && ev.dgram.dst == Some(dst) && is_busy_report(&ev.dgram.bytes))
            .count() as u64
    })
}

fn is_busy_report(b: &[u8]) -> bool {
    let Some(i) = wire::peek(b) else { return false };
    let Some(off) = i.payload_off else { return false };
    i.opcode == Some(OP_STATUS)
        && i.proto_id == Some(0)
        && b.len() >= off + 8
        && b[off] == 8
        && b[off + 1] == 0
        && b[off + 6] == 4
        && b[off + 7] == 0
}

// ---------------------------------------------------------------------------------------------
// initiator side
// ---------------------------------------------------------------------------------------------

struct InitEnv<'a> {
    sh: Rc<Shared>,
    hub: NetHub,
    addr_r: Address,
    fab: NonZeroU8,
    ensure_window: &'a dyn Fn(),
    attempts: &'a [Attempt],
}

async fn handshake<'a, C: Crypto>(
    m: &'a Matter<'a>,
    crypto: &'a C,
    addr_r: Address,
    fab: NonZeroU8,
    proto: Proto,
    pass: u32,
) -> Result<(), Error> {
    let ex = Exchange::initiate_plaintext(m, crypto, addr_r).await?;
    match proto {
        Proto::Pase => PaseInitiator::perform(ex, crypto, pass).await,
        Proto::Case => CaseInitiator::perform(ex, crypto, fab, R_NODE).await,
    }
}

fn shape_class(a: &Attempt) -> String {
    match &a.shape {
        Shape::Complete => format!("{:?}/complete", a.proto),
        Shape::WrongPass => "Pase/wrong-pass".into(),
        Shape::Stop { k, acks } => format!("{:?}/stop{}{}", a.proto, k, if *acks { "+acks" } else { "" }),
        Shape::Garbage { k, kind, every_copy } => {
            format!("{:?}/garbage{}/{:?}{}", a.proto, k, kind, if *every_copy { "/all" } else { "" })
        }
        Shape::InitCancel { .. } => format!("{:?}/init-cancel", a.proto),
        Shape::Spoof { burst, same_src, huge_mrp } => format!(
            "{:?}/spoof/{}{}{}",
            a.proto,
            if *burst > 1 { "burst" } else { "one" },
            if *same_src { "/same-src" } else { "" },
            if *huge_mrp { "/huge-mrp" } else { "" }
        ),
        Shape::Junk { kind } => format!("junk/{}", kind),
        Shape::ExchJunk => "exch-junk".into(),
    }
}

async fn one_attempt<'a, C: Crypto>(
    j: usize,
    idx: usize,
    a: &'a Attempt,
    m: &'a Matter<'a>,
    crypto: &'a C,
    env: &'a InitEnv<'a>,
    mut rng: Rng,
) {
    let sh = &env.sh;
    let node_idx = 2 + j;
    let result: String = match &a.shape {
        Shape::Complete | Shape::WrongPass | Shape::Stop { .. } | Shape::Garbage { .. } | Shape::InitCancel { .. } => {
            let (stop, garbage) = match &a.shape {
                Shape::Stop { k, acks } => (Some((*k, *acks)), None),
                Shape::Garbage { k, kind, every_copy } => (None, Some((*k, *kind, *every_copy))),
                _ => (None, None),
            };
            sh.adv.borrow_mut().pending.push(Plan {
                attempt: idx,
                node: node_idx,
                proto: a.proto,
                stop,
                garbage,
            });
            if a.proto == Proto::Pase {
                (env.ensure_window)();
            }
            let pass = if a.shape == Shape::WrongPass {
                PASSCODE ^ (1 + rng.below(1000) as u32)
            } else {
                PASSCODE
            };
            let fut = handshake(m, crypto, env.addr_r, env.fab, a.proto, pass);
            let r: Option<Result<(), Error>> = match &a.shape {
                Shape::InitCancel { n } => {
                    sh.bump("initiator_cancellations");
                    exec::with_timeout(20_000, CancelAfter::new(fut, *n as u32)).await.flatten()
                }
                Shape::Stop { .. } => exec::with_timeout(1_500, fut).await,
                Shape::Garbage { .. } => exec::with_timeout(12_000, fut).await,
                _ => exec::with_timeout(20_000, fut).await,
            };
            sh.adv.borrow_mut().pending.retain(|p| p.attempt != idx);
            match r {
                Some(Ok(())) => {
                    sh.bump(&format!("completed:{:?}", a.proto));
                    "ok".into()
                }
                Some(Err(e)) => format!("err-{:?}", e.code()),
                None => "abandoned".into(),
            }
        }
        Shape::Spoof { burst, same_src, huge_mrp } => {
            let payload_case = sh.adv.borrow().sigma1_payload.clone();
            let base_addr = rng.below(60000) as u16;
            let base_node = 1 + rng.u64() % 0xFFFF_FFEF_FFFF_FFFE;
            let base_exch = rng.u32() as u16;
            let mut n = 0u32;
            for b in 0..*burst {
                let (addr, src) = if *same_src {
                    (spoof_addr(base_addr), base_node)
                } else {
                    (spoof_addr(base_addr.wrapping_add(b as u16)), base_node.wrapping_add(b as u64))
                };
                let (op, payload) = match a.proto {
                    Proto::Pase => {
                        (env.ensure_window)();
                        (OP_PBKDF_REQ, pbkdf_req_payload(&mut rng, *huge_mrp))
                    }
                    Proto::Case => match &payload_case {
                        Some(p) => {
                            sh.bump("spoofed_valid_sigma1");
                            (OP_SIGMA1, p.clone())
                        }
                        None => (OP_SIGMA1, sigma1_unknown_fabric_payload(&mut rng)),
                    },
                };
                let bytes = raw_unsecured(
                    Some(src),
                    rng.u32() & 0x0fff_ffff,
                    wire::EXCH_I | wire::EXCH_R,
                    op,
                    base_exch.wrapping_add(b as u16),
                    0,
                    None,
                    &payload,
                );
                env.hub.inject(1, addr, bytes, 1000 + 700 * b as u64);
                n += 1;
            }
            sh.bump("spoofed_first_messages");
            if *same_src && *burst as usize > MAX_EXCHANGES {
                sh.flood.set((n, clock::now()));
                sh.bump("exchange_floods");
            }
            if *huge_mrp {
                sh.bump("huge_mrp_requests");
            }
            exec::sleep_ms(2 + *burst as u64).await;
            "injected".into()
        }
        Shape::Junk { kind } => {
            let addr = spoof_addr(0x7000 + rng.below(64) as u16);
            let bytes = match kind % 8 {
                0 => {
                    let n = rng.usize(40);
                    rng.bytes(n)
                }
                1 => {
                    // unsecured, unknown exchange, not a session-opening opcode
                    raw_unsecured(Some(rng.u64() | 1), rng.u32(), wire::EXCH_I | wire::EXCH_R, OP_PAKE1, rng.u32() as u16, 0, None, &rng.bytes(20))
                }
                2 => {
                    // looks secured: unknown session id
                    let mut v = vec![0x00];
                    v.extend_from_slice(&(1 + rng.below(60000) as u16).to_le_bytes());
                    v.push(0);
                    v.extend_from_slice(&rng.u32().to_le_bytes());
                    v.extend_from_slice(&rng.bytes(30));
                    v
                }
                3 => {
                    // unsolicited status report
                    raw_unsecured(Some(rng.u64() | 1), rng.u32(), wire::EXCH_I, OP_STATUS, rng.u32() as u16, 0, None, &[0, 0, 0, 0, 0, 0, 3, 0])
                }
                4 => {
                    // PBKDFParamRequest with a truncated TLV
                    (env.ensure_window)();
                    let p = pbkdf_req_payload(&mut rng, false);
                    let keep = rng.usize(p.len());
                    raw_unsecured(Some(rng.u64() | 1), rng.u32(), wire::EXCH_I | wire::EXCH_R, OP_PBKDF_REQ, rng.u32() as u16, 0, None, &p[..keep])
                }
                5 => {
                    // Sigma1 with random TLV
                    {
                        let n = rng.usize(120);
                        let pl = rng.bytes(n);
                        raw_unsecured(Some(rng.u64() | 1), rng.u32(), wire::EXCH_I | wire::EXCH_R, OP_SIGMA1, rng.u32() as u16, 0, None, &pl)
                    }
                }
                6 => {
                    // session-opening message without a source node id
                    raw_unsecured(None, rng.u32(), wire::EXCH_I | wire::EXCH_R, OP_SIGMA1, rng.u32() as u16, 0, None, &sigma1_unknown_fabric_payload(&mut rng))
                }
                _ => {
                    // Sigma1 for a fabric the responder does not have
                    raw_unsecured(Some(rng.u64() | 1), rng.u32(), wire::EXCH_I | wire::EXCH_R, OP_SIGMA1, rng.u32() as u16, 0, None, &sigma1_unknown_fabric_payload(&mut rng))
                }
            };
            env.hub.inject(1, addr, bytes, 1000);
            sh.bump("junk_datagrams");
            exec::sleep_ms(2).await;
            "injected".into()
        }
        Shape::ExchJunk => {
            let sid = node::snapshot(m)
                .into_iter()
                .find(|s| s.encrypted && !s.reserved && !s.expired && s.peer_addr == env.addr_r)
                .map(|s| s.id);
            match sid {
                None => "no-session".into(),
                Some(sid) => {
                    let r = async {
                        let mut ex = Exchange::initiate_for_session(m, crypto, sid)?;
                        ex.send(MessageMeta::new(0x0001, 0x02, true), &[0x15, 0x18]).await
                    };
                    let r = exec::with_timeout(3_000, r).await;
                    sh.bump("dropped_exchanges");
                    match r {
                        Some(Ok(())) => "sent".into(),
                        Some(Err(e)) => format!("err-{:?}", e.code()),
                        None => "abandoned".into(),
                    }
                }
            }
        }
    };
    sh.attempts_log.borrow_mut().push(AttemptLog {
        idx,
        class: shape_class(a),
        result,
    });
}

async fn initiator_script<'a, C: Crypto>(
    j: usize,
    m: &'a Matter<'a>,
    crypto: &'a C,
    env: &'a InitEnv<'a>,
    seed: u64,
) {
    let sh = env.sh.clone();
    while !sh.go.get() {
        exec::sleep_ms(20).await;
    }
    let mine: Vec<(usize, &Attempt)> = env
        .attempts
        .iter()
        .enumerate()
        .filter(|(_, a)| a.node as usize == j)
        .collect();
    let mut i = 0;
    while i < mine.len() {
        let mut group = vec![mine[i]];
        let mut k = i + 1;
        while k < mine.len() && mine[k].1.par && group.len() < 4 {
            group.push(mine[k]);
            k += 1;
        }
        i = k;
        if group[0].1.gap_ms > 0 {
            exec::sleep_ms(group[0].1.gap_ms as u64).await;
        }
        if group.len() == 1 {
            let (idx, a) = group[0];
            one_attempt(j, idx, a, m, crypto, env, Rng::new(subseed(seed, &[0xA7, idx as u64]))).await;
        } else {
            sh.bump("concurrent_groups_same_source");
            let futs: Vec<Option<BoxFut>> = group
                .iter()
                .map(|(idx, a)| {
                    let f: BoxFut = Box::pin(one_attempt(
                        j,
                        *idx,
                        a,
                        m,
                        crypto,
                        env,
                        Rng::new(subseed(seed, &[0xA7, *idx as u64])),
                    ));
                    Some(f)
                })
                .collect();
            JoinAll { futs }.await;
        }
    }
    sh.done_nodes.set(sh.done_nodes.get() + 1);
    core::future::pending::<()>().await;
}

#[allow(clippy::too_many_arguments)]
async fn initiator_node<'a, C: Crypto>(
    j: usize,
    m: &'a Matter<'a>,
    crypto: &'a C,
    ep: Endpoint,
    env: &'a InitEnv<'a>,
    seed: u64,
    shuffle: bool,
) {
    let sc = SecureChannel::new(crypto, &());
    let responder = Responder::new("init", sc, m, 0);
    let t: BoxFut = Box::pin(async {
        let _ = m.run(crypto, ep.clone(), ep.clone(), ep.clone()).await;
    });
    let r: BoxFut = Box::pin(async {
        let _ = responder.run::<2>().await;
    });
    let s: BoxFut = Box::pin(initiator_script(j, m, crypto, env, seed));
    exec::ShuffleSelect::new(subseed(seed, &[0x31, j as u64]), shuffle, vec![s, t, r]).await
}

// ---------------------------------------------------------------------------------------------
// adversary
// ---------------------------------------------------------------------------------------------

fn install_adversary(hub: &NetHub, sh: Rc<Shared>, n_init: usize) {
    hub.set_adversary(Some(Box::new(move |d, rng| {
        let mut adv = sh.adv.borrow_mut();
        let from_init = d.src >= 2 && d.src < 2 + n_init;
        let to_init = d.src == 1 && d.dst.map(|x| x >= 2 && x < 2 + n_init).unwrap_or(false);
        if !from_init && !to_init {
            return vec![Delivery::normal()];
        }
        let chaos = adv.faults_on && adv.chaos > 0 && rng.chance(adv.chaos as u32, 100);
        if to_init {
            if chaos {
                adv.bump("chaos_drops");
                return vec![];
            }
            return vec![Delivery::normal()];
        }
        let Some(info) = wire::peek(&d.bytes) else {
            return vec![Delivery::normal()];
        };
        let (Some(op), Some(exch), Some(ef), Some(poff)) = (info.opcode, info.exch_id, info.exch_flags, info.payload_off) else {
            // secured traffic of an established session
            if chaos {
                adv.bump("chaos_drops");
                return vec![];
            }
            return vec![Delivery::normal()];
        };
        if info.proto_id != Some(0) {
            return vec![Delivery::normal()];
        }
        if op == OP_SIGMA1 && adv.sigma1_payload.is_none() && ef & wire::EXCH_I != 0 {
            // Only a Sigma1 without resumption fields is kept for replays (tags 6/7 absent is not
            // checked: a resumption Sigma1 replays equally well, it just falls back).
            adv.sigma1_payload = Some(d.bytes[poff..].to_vec());
        }
        let key = (d.src, exch);
        if !adv.bound.contains_key(&key) && (op == OP_PBKDF_REQ || op == OP_SIGMA1) && ef & wire::EXCH_I != 0 {
            let proto = if op == OP_PBKDF_REQ { Proto::Pase } else { Proto::Case };
            if let Some(pos) = adv.pending.iter().position(|p| p.node == d.src && p.proto == proto) {
                let plan = adv.pending.remove(pos);
                adv.bound.insert(
                    key,
                    Bound {
                        plan,
                        seen_ctrs: vec![],
                        ordinal: 0,
                        muted: false,
                        last_opcode: 0,
                    },
                );
            }
        }
        let faults_on = adv.faults_on;
        let mut bump: Vec<String> = vec![];
        let res = {
            let Some(b) = adv.bound.get_mut(&key) else {
                drop(adv);
                if chaos {
                    sh.adv.borrow_mut().bump("chaos_drops");
                    return vec![];
                }
                return vec![Delivery::normal()];
            };
            if b.muted {
                let acks = b.plan.stop.map(|s| s.1).unwrap_or(false);
                if acks && op == OP_ACK {
                    vec![Delivery::normal()]
                } else {
                    vec![]
                }
            } else if op == OP_ACK {
                vec![Delivery::normal()]
            } else {
                let first_copy = !b.seen_ctrs.contains(&info.ctr);
                if first_copy {
                    b.seen_ctrs.push(info.ctr);
                    b.ordinal += 1;
                    b.last_opcode = op;
                }
                let mut out = vec![Delivery::normal()];
                if let Some((k, kind, every)) = b.plan.garbage {
                    if faults_on && k == b.ordinal && (every || first_copy) {
                        let m = mutate(&d.bytes, &info, poff, kind, rng);
                        if m != d.bytes {
                            if first_copy {
                                bump.push(format!("garbage:{:?}", kind));
                                bump.push(format!("garbage_at:{}", opcode_name(op)));
                                bump.push("garbage_attempts".into());
                            }
                            out = vec![Delivery::mutant(m)];
                        }
                    }
                }
                if let Some((k, _)) = b.plan.stop {
                    if k == b.ordinal {
                        b.muted = true;
                        bump.push(format!("abandoned_after:{}", opcode_name(op)));
                        bump.push("abandoned_handshakes".into());
                    }
                }
                if chaos && b.plan.stop.is_none() && b.plan.garbage.is_none() {
                    bump.push("chaos_drops".into());
                    out = vec![];
                }
                out
            }
        };
        for k in bump {
            adv.bump(&k);
        }
        res
    })));
}

fn mutate(bytes: &[u8], info: &wire::WireInfo, poff: usize, kind: Garbage, rng: &mut Rng) -> Vec<u8> {
    let mut b = bytes.to_vec();
    let plen = b.len().saturating_sub(poff);
    match kind {
        Garbage::FlipPayload => {
            if plen > 0 {
                let i = poff + rng.usize(plen);
                b[i] ^= 1 << rng.usize(8);
            }
        }
        Garbage::FlipProtoHdr => {
            // exchange flags / opcode / exchange id / protocol id
            let i = info.hdr_len + rng.usize(6);
            if i < b.len() {
                b[i] ^= 1 << rng.usize(8);
            }
        }
        Garbage::Truncate => {
            let keep = rng.usize(b.len());
            b.truncate(keep);
        }
        Garbage::Extend => {
            let n = 1 + rng.usize(40);
            b.extend_from_slice(&rng.bytes(n));
        }
        Garbage::WrongOpcode => {
            let ops = [0x20u8, 0x21, 0x22, 0x23, 0x24, 0x30, 0x31, 0x32, 0x33, 0x40, 0x00, 0x50, 0x99];
            let i = info.hdr_len + 1;
            if i < b.len() {
                let mut o = *rng.pick(&ops);
                if o == b[i] {
                    o ^= 0x0f;
                }
                b[i] = o;
            }
        }
        Garbage::WrongMac => {
            // the confirmation / AEAD tag sits at the end of the TLV structure
            if plen > 4 {
                let i = b.len() - 2 - rng.usize(8.min(plen - 3));
                b[i] ^= 0x55;
            }
        }
        Garbage::EmptyPayload => b.truncate(poff),
        Garbage::RandomPayload => {
            let r = rng.bytes(plen);
            b[poff..].copy_from_slice(&r);
        }
    }
    b
}

// ---------------------------------------------------------------------------------------------
// the run
// ---------------------------------------------------------------------------------------------

pub fn run_case(p: &Params) -> Outcome {
    // Certificate generation fails for some random draws: retry the set-up with another one.
    let mut o = run_case_inner(p, 0);
    for attempt in 1..4 {
        if !o.setup_failed {
            break;
        }
        o = run_case_inner(p, attempt);
    }
    o
}

fn run_case_inner(p: &Params, setup_attempt: u64) -> Outcome {
    clock::reset(1_000_000);
    let mut out = Outcome {
        capacity: MAX_SESSIONS,
        exch_capacity: MAX_EXCHANGES,
        phase: "setup",
        ..Default::default()
    };
    let mut rng = Rng::new(if setup_attempt == 0 { p.seed } else { subseed(p.seed, &[0x5E7, setup_attempt]) });
    let n_init = p.n_init.clamp(1, 3) as usize;
    let with_h = p.prefill > 0;
    let n_nodes = 2 + n_init + if with_h { 1 } else { 0 };
    let h_idx = 2 + n_init;

    let crypto_g = node::crypto(rng.fork());
    let crypto_p = node::crypto(rng.fork());
    let crypto_r = node::crypto(rng.fork());
    let crypto_h = node::crypto(rng.fork());
    let cryptos_i: Vec<_> = (0..n_init).map(|_| node::crypto(rng.fork())).collect();

    let mp = node::new_matter();
    let mr = node::new_matter();
    let mh = node::new_matter();
    let mis: Vec<Box<Matter<'static>>> = (0..n_init).map(|_| node::new_matter()).collect();

    let Ok(ca) = FabricCa::new(&crypto_g, &mut rng, 0xC20, rng_bool(p.seed)) else {
        out.setup_failed = true;
        return out;
    };
    let mk = |nid: u64| ca.mint(&crypto_g, nid, &[]);
    let (Ok(c_p), Ok(c_r), Ok(c_h)) = (mk(P_NODE), mk(R_NODE), mk(H_NODE)) else {
        out.setup_failed = true;
        return out;
    };
    let (Ok(fab_p), Ok(fab_r), Ok(fab_h)) = (
        ca.install(&mp, &crypto_p, &c_p, P_NODE),
        ca.install(&mr, &crypto_r, &c_r, P_NODE),
        ca.install(&mh, &crypto_h, &c_h, P_NODE),
    ) else {
        out.setup_failed = true;
        return out;
    };
    let mut fabs_i: Vec<NonZeroU8> = vec![];
    for j in 0..n_init {
        let Ok(c) = mk(I_NODE_BASE + j as u64) else {
            out.setup_failed = true;
            return out;
        };
        let Ok(f) = ca.install(&mis[j], &cryptos_i[j], &c, P_NODE) else {
            out.setup_failed = true;
            return out;
        };
        fabs_i.push(f);
    }

    let hub = NetHub::new(rng.u64(), n_nodes);
    let addr_r = hub.addr(1);

    // Pre-established sessions R <-> H
    let mut mirrored: Vec<(u32, u32)> = vec![]; // (id at H, id at R)
    for k in 0..(p.prefill as usize).min(MAX_SESSIONS) {
        let ki = rng.bytes(16);
        let kr = rng.bytes(16);
        let mut k1 = [0u8; 16];
        let mut k2 = [0u8; 16];
        k1.copy_from_slice(&ki);
        k2.copy_from_slice(&kr);
        let r = node::mirrored_sessions(
            &mh,
            &mr,
            &crypto_g,
            hub.addr(h_idx.min(n_nodes - 1)),
            addr_r,
            H_NODE,
            R_NODE,
            0x5000 + k as u16,
            0x4000 + k as u16,
            SessionMode::Case {
                fab_idx: fab_h,
                cat_ids: Default::default(),
            },
            SessionMode::Case {
                fab_idx: fab_r,
                cat_ids: Default::default(),
            },
            &k1,
            &k2,
        );
        match r {
            Ok(ids) => mirrored.push(ids),
            Err(_) => {
                out.setup_failed = true;
                return out;
            }
        }
    }

    let mut pins: Vec<PinState> = vec![];
    // ExchFlood on an established session: all pins go to the first session (one more than it
    // has exchange slots); otherwise one pin per session.
    let n_pins = if p.family == Family::ExchFlood {
        if mirrored.is_empty() { 0 } else { p.pinned as usize }
    } else {
        (p.pinned as usize).min(mirrored.len())
    };
    for k in 0..n_pins {
        let responder_role = match p.pin_kind {
            PinKind::RInit => false,
            PinKind::Hold => true,
            PinKind::Mixed => k % 2 == 1,
        };
        pins.push(PinState {
            id: 0xB100 + k as u32,
            responder_role,
            sid: mirrored[k % mirrored.len()].1,
            sid_h: mirrored[k % mirrored.len()].0,
            requested: false,
            established: false,
            release: false,
            alive_at_release: None,
            t_pin: 0,
            t_release: 0,
        });
    }

    let sh = Rc::new(Shared {
        adv: RefCell::new(Adv {
            faults_on: true,
            chaos: p.chaos,
            ..Default::default()
        }),
        go: Cell::new(false),
        done_nodes: Cell::new(0),
        finished: Cell::new(false),
        pins: RefCell::new(pins),
        handlers: RefCell::new(vec![]),
        active_handlers: Cell::new(0),
        cancel: p.cancel,
        cancel_rng: RefCell::new(Rng::new(subseed(p.seed, &[0xCA]))),
        cancel_enabled: Cell::new(true),
        attempts_log: RefCell::new(vec![]),
        counters: RefCell::new(BTreeMap::new()),
        flood: Cell::new((0, 0)),
    });
    install_adversary(&hub, sh.clone(), n_init);

    // A peer may advertise MRP intervals of up to one hour (the spec's maximum; larger values
    // are clamped): the retransmission ladder of a handshake message then takes about a day.
    // "For good" is judged after that ladder, too.
    let long_intervals = p
        .attempts
        .iter()
        .any(|a| matches!(a.shape, Shape::Spoof { huge_mrp: true, .. }));
    let quiesce_max_ms = if long_intervals { QUIESCE_MAX_LONG_MS } else { QUIESCE_MAX_MS };
    let limits = Limits {
        max_polls: 12_000_000,
        horizon: clock::now() + (3 * 3600 + quiesce_max_ms / 1000) * clock::TICKS_PER_SEC,
        shuffle: p.shuffle,
    };

    let res: Rc<RefCell<Outcome>> = Rc::new(RefCell::new(out));

    let run = {
        let mp = &*mp;
        let mr = &*mr;
        let mh = &*mh;
        let crypto_p = &crypto_p;
        let crypto_r = &crypto_r;
        let crypto_h = &crypto_h;
        let cryptos_i = &cryptos_i;
        let mis = &mis;
        let fabs_i = &fabs_i;
        let hub = hub.clone();
        let sh = sh.clone();
        let res = res.clone();
        let p = p.clone();
        let seed = p.seed;
        let shuffle = p.shuffle;
        let mut exec_rng = Rng::new(subseed(seed, &[7]));
        catch_unwind(AssertUnwindSafe(move || {
            let ensure_window = move || {
                if !mr.comm_window_state().is_open() {
                    let _ = mr.open_basic_comm_window(900, crypto_r, &());
                }
            };
            let ensure_window = &ensure_window;
            let attempts = &p.attempts[..];

            let envs: Vec<InitEnv> = (0..n_init)
                .map(|j| InitEnv {
                    sh: sh.clone(),
                    hub: hub.clone(),
                    addr_r,
                    fab: fabs_i[j],
                    ensure_window,
                    attempts,
                })
                .collect();
            let envs = &envs;

            // ---------------- coordinator + probe node (task 0) ----------------
            let coordinator: BoxFut = {
                let sh = sh.clone();
                let hub = hub.clone();
                let res = res.clone();
                let p = p.clone();
                Box::pin(async move {
                    let set_phase = |ph: &'static str| res.borrow_mut().phase = ph;
                    let mut last_ids: BTreeSet<u32> = BTreeSet::new();
                    let mut was_full = false;
                    let mut observe = |res: &Rc<RefCell<Outcome>>| {
                        let snap = node::snapshot(mr);
                        let mut o = res.borrow_mut();
                        if snap.len() > o.max_occupancy {
                            o.max_occupancy = snap.len();
                        }
                        let full = snap.len() >= MAX_SESSIONS;
                        if full && !was_full {
                            o.bump("table_full_episodes", 1);
                        }
                        let ids: BTreeSet<u32> = snap.iter().map(|s| s.id).collect();
                        if was_full {
                            let gone = last_ids.difference(&ids).count() as u64;
                            if gone > 0 {
                                o.bump("evictions_seen", gone);
                            }
                        }
                        was_full = full;
                        last_ids = ids;
                    };

                    // CASE probe with bounded retry on Busy
                    let probe = |phase: &'static str, proto: Proto| {
                        let hub = hub.clone();
                        let sh = sh.clone();
                        async move {
                            let (free, idle, busy_slots) = occupancy(mr);
                            if std::env::var("RSMV_TRACE").is_ok() {
                                for s in node::snapshot(mr) {
                                    eprintln!("probe-start t={} sess {} {:?} reserved={} expired={} exch={:?} peer={:?}", clock::now(), s.id, s.mode, s.reserved, s.expired, s.exchanges.iter().map(|e| (e.exch_id, e.initiator, e.dropped, e.accept_pending)).collect::<Vec<_>>(), s.peer_addr);
                                }
                            }
                            let handler_free = sh.active_handlers.get() < p.handlers as u32;
                            let busy0 = busy_answers_to(&hub, 0);
                            let mut tries = 0u8;
                            let mut last: Option<ErrorCode> = None;
                            let mut ok = false;
                            for attempt in 0..4 {
                                if attempt > 0 {
                                    exec::sleep_ms(700).await;
                                }
                                tries += 1;
                                let b0 = busy_answers_to(&hub, 0);
                                if proto == Proto::Pase {
                                    ensure_window();
                                }
                                let r = exec::with_timeout(
                                    60_000,
                                    handshake(mp, crypto_p, addr_r, fab_p, proto, PASSCODE),
                                )
                                .await;
                                match r {
                                    Some(Ok(())) => {
                                        ok = true;
                                        last = None;
                                        break;
                                    }
                                    Some(Err(e)) => last = Some(e.code()),
                                    None => last = Some(ErrorCode::RxTimeout),
                                }
                                // retry only when the node said "busy"
                                if busy_answers_to(&hub, 0) == b0 {
                                    break;
                                }
                            }
                            ProbeResult {
                                phase,
                                proto,
                                free,
                                idle,
                                busy_slots,
                                handler_free,
                                ok,
                                err: last,
                                tries,
                                busy_answers: busy_answers_to(&hub, 0) - busy0,
                                t: clock::now(),
                            }
                        }
                    };

                    set_phase("pin");
                    exec::sleep_ms(200).await;
                    let n_pins = sh.pins.borrow().len();
                    if n_pins > 0 {
                        for pin in sh.pins.borrow_mut().iter_mut() {
                            pin.requested = true;
                        }
                        for _ in 0..300 {
                            if sh.pins.borrow().iter().all(|p| p.established) {
                                break;
                            }
                            exec::sleep_ms(50).await;
                        }
                    }

                    if p.expire_pinned > 0 {
                        let sids: Vec<u32> = sh
                            .pins
                            .borrow()
                            .iter()
                            .filter(|x| x.established)
                            .map(|x| x.sid)
                            .take(p.expire_pinned as usize)
                            .collect();
                        for sid in sids {
                            mr.with_state(|st| {
                                st.verif_sessions_mut()
                                    .remove_for_fabric(core::num::NonZeroU8::new(0xEE).unwrap(), Some(sid))
                            });
                            res.borrow_mut().bump("pinned_sessions_marked_expired", 1);
                        }
                    }

                    set_phase("attack");
                    sh.go.set(true);
                    // Generous cap: every attempt ends by its own time-out.
                    let cap_ms = 30_000 + p.attempts.len() as u64 * 25_000;
                    let t_start = clock::now();
                    loop {
                        observe(&res);
                        if sh.done_nodes.get() as usize >= n_init {
                            break;
                        }
                        if clock::now() - t_start > cap_ms * 1000 {
                            res.borrow_mut().bump("attack_phase_cap_hit", 1);
                            break;
                        }
                        exec::sleep_ms(100).await;
                    }

                    set_phase("settle");
                    {
                        let mut a = sh.adv.borrow_mut();
                        a.faults_on = false;
                    }
                    sh.cancel_enabled.set(false);
                    for _ in 0..(SETTLE_MS / 500) {
                        observe(&res);
                        exec::sleep_ms(500).await;
                    }

                    set_phase("probe-after-faults");
                    if p.family != Family::ExchFlood {
                        let r = probe("after-faults", Proto::Case).await;
                        res.borrow_mut().probes.push(r);
                        observe(&res);
                        if p.family == Family::TableFull && p.release > 0 {
                            // make `release` pinned sessions idle, then probe again
                            let mut n = 0;
                            for pin in sh.pins.borrow_mut().iter_mut() {
                                if n < p.release && !pin.release {
                                    pin.release = true;
                                    n += 1;
                                }
                            }
                            exec::sleep_ms(600).await;
                            let r = probe("after-release", Proto::Case).await;
                            res.borrow_mut().probes.push(r);
                            observe(&res);
                        }
                    }

                    set_phase("release");
                    for pin in sh.pins.borrow_mut().iter_mut() {
                        pin.release = true;
                    }
                    exec::sleep_ms(300).await;

                    set_phase("quiesce");
                    let t_q = clock::now();
                    exec::sleep_ms(QUIESCE_MIN_MS).await;
                    loop {
                        let all = settled(mr)
                            && settled(mp)
                            && mis.iter().all(|m| settled(m))
                            && (!with_h || settled(mh));
                        let waited = (clock::now() - t_q) / 1000;
                        if all {
                            res.borrow_mut().settle_ms = Some(waited);
                            break;
                        }
                        if waited >= quiesce_max_ms {
                            break;
                        }
                        exec::sleep_ms(if waited >= QUIESCE_MAX_MS { 600_000 } else { 10_000 }).await;
                    }
                    {
                        let mut o = res.borrow_mut();
                        o.quiesce.push(quiesce_of("responder", mr));
                        o.quiesce.push(quiesce_of("prober", mp));
                        for m in mis.iter() {
                            o.quiesce.push(quiesce_of("initiator", m));
                        }
                        if with_h {
                            o.quiesce.push(quiesce_of("holder", mh));
                        }
                        o.pase_marker_at_quiesce = mr.with_state(|s| s.verif_pase().verif_state().1);
                    }

                    set_phase("probe-quiescent");
                    let r = probe("quiescent", Proto::Case).await;
                    res.borrow_mut().probes.push(r);
                    // let the prober's own closing exchange finish (its table is as small as
                    // the responder's)
                    exec::sleep_ms(2_000).await;
                    // the commissioning window legitimately expires during a long quiescence
                    // (the expiry is noticed lazily, so "is open" cannot be trusted here)
                    if long_intervals {
                        let _ = mr.close_comm_window(&());
                    }
                    ensure_window();
                    let r = probe("quiescent", Proto::Pase).await;
                    res.borrow_mut().probes.push(r);

                    set_phase("final");
                    exec::sleep_ms(8_000).await;
                    {
                        let mut o = res.borrow_mut();
                        o.final_nodes.push(quiesce_of("responder", mr));
                        o.final_nodes.push(quiesce_of("prober", mp));
                    }
                    sh.finished.set(true);
                    set_phase("done");
                })
            };
            let node_p: BoxFut = {
                let ep = hub.endpoint(0);
                Box::pin(async move {
                    let sc = SecureChannel::new(crypto_p, &());
                    let responder = Responder::new("p", sc, mp, 0);
                    let t: BoxFut = Box::pin(async {
                        let _ = mp.run(crypto_p, ep.clone(), ep.clone(), ep.clone()).await;
                    });
                    let r: BoxFut = Box::pin(async {
                        let _ = responder.run::<2>().await;
                    });
                    exec::ShuffleSelect::new(subseed(seed, &[11]), shuffle, vec![coordinator, t, r]).await
                })
            };

            // ---------------- responder under test (task 1) ----------------
            let node_r: BoxFut = {
                let ep = hub.endpoint(1);
                let sh = sh.clone();
                let n_handlers = p.handlers.max(1) as usize;
                let with_busy = p.busy_responder;
                Box::pin(async move {
                    let handler = C20Handler {
                        sc: SecureChannel::new(crypto_r, &()),
                        sh: sh.clone(),
                    };
                    let responder = Responder::new("r", handler, mr, 0);
                    let responder = &responder;
                    let busy = Responder::new("r-busy", BusySecureChannel::new(), mr, 500);
                    let busy = &busy;
                    let mut v: Vec<BoxFut> = vec![];
                    v.push(Box::pin(async {
                        let _ = mr.run(crypto_r, ep.clone(), ep.clone(), ep.clone()).await;
                    }));
                    for i in 0..n_handlers {
                        v.push(Box::pin(async move {
                            let _ = responder.handle(i).await;
                        }));
                    }
                    if with_busy {
                        for i in 0..2 {
                            v.push(Box::pin(async move {
                                let _ = busy.handle(i).await;
                            }));
                        }
                    }
                    // exchanges R itself opens on pinned sessions
                    let has_rinit = sh.pins.borrow().iter().any(|p| !p.responder_role);
                    if has_rinit {
                        let sh = sh.clone();
                        v.push(Box::pin(async move {
                            let mut held: Vec<(u32, u32, Exchange<'_>)> = vec![];
                            loop {
                                let todo: Vec<(u32, u32)> = sh
                                    .pins
                                    .borrow()
                                    .iter()
                                    .filter(|p| !p.responder_role && p.requested && !p.established && !p.release)
                                    .map(|p| (p.id, p.sid))
                                    .collect();
                                for (id, sid) in todo {
                                    if let Ok(ex) = Exchange::initiate_for_session(mr, crypto_r, sid) {
                                        held.push((id, sid, ex));
                                        let mut pins = sh.pins.borrow_mut();
                                        if let Some(p) = pins.iter_mut().find(|p| p.id == id) {
                                            p.established = true;
                                            p.t_pin = clock::now();
                                        }
                                    }
                                }
                                let mut k = 0;
                                while k < held.len() {
                                    let id = held[k].0;
                                    let rel = sh.pins.borrow().iter().find(|p| p.id == id).map(|p| p.release).unwrap_or(true);
                                    if rel {
                                        let (id, sid, ex) = held.remove(k);
                                        let alive = session_alive(mr, sid, true);
                                        {
                                            let mut pins = sh.pins.borrow_mut();
                                            if let Some(p) = pins.iter_mut().find(|p| p.id == id) {
                                                p.alive_at_release = Some(alive);
                                                p.t_release = clock::now();
                                            }
                                        }
                                        drop(ex);
                                    } else {
                                        k += 1;
                                    }
                                }
                                if sh.finished.get() || (held.is_empty() && sh.pins.borrow().iter().all(|p| p.responder_role || p.release)) {
                                    break;
                                }
                                exec::sleep_ms(25).await;
                            }
                            core::future::pending::<()>().await;
                        }));
                    }
                    exec::ShuffleSelect::new(subseed(seed, &[12]), shuffle, v).await
                })
            };

            let mut tasks: Vec<BoxFut> = vec![node_p, node_r];
            for j in 0..n_init {
                let ep = hub.endpoint(2 + j);
                tasks.push(Box::pin(initiator_node(
                    j,
                    &*mis[j],
                    &cryptos_i[j],
                    ep,
                    &envs[j],
                    seed,
                    shuffle,
                )));
            }
            if with_h {
                let ep = hub.endpoint(h_idx);
                let sh = sh.clone();
                tasks.push(Box::pin(async move {
                    let sc = SecureChannel::new(crypto_h, &());
                    let responder = Responder::new("h", sc, mh, 0);
                    let t: BoxFut = Box::pin(async {
                        let _ = mh.run(crypto_h, ep.clone(), ep.clone(), ep.clone()).await;
                    });
                    let r: BoxFut = Box::pin(async {
                        let _ = responder.run::<1>().await;
                    });
                    // H opens one exchange per "hold" pin and sends the hold request
                    let s: BoxFut = Box::pin(async move {
                        let has_hold = sh.pins.borrow().iter().any(|p| p.responder_role);
                        if !has_hold {
                            core::future::pending::<()>().await;
                        }
                        let mut held: Vec<(u32, Exchange<'_>)> = vec![];
                        let mut sent: BTreeSet<u32> = BTreeSet::new();
                        loop {
                            let todo: Vec<(u32, u32)> = sh
                                .pins
                                .borrow()
                                .iter()
                                .filter(|p| p.responder_role && p.requested && !sent.contains(&p.id))
                                .map(|p| (p.id, p.sid_h))
                                .collect();
                            for (id, sid_h) in todo {
                                sent.insert(id);
                                if let Ok(mut ex) = Exchange::initiate_for_session(mh, crypto_h, sid_h) {
                                    // No harness time-out here: dropping an exchange whose message
                                    // is still being retransmitted makes H close the session, which
                                    // would be a legitimate cause for R to remove it. Left alone the
                                    // send ends with an acknowledgement or after the MRP ladder.
                                    let r = exec::with_timeout(
                                        120_000,
                                        ex.send(MessageMeta::new(HOLD_PROTO, 0x01, true), &id.to_le_bytes()),
                                    )
                                    .await;
                                    if matches!(r, Some(Ok(()))) {
                                        held.push((id, ex));
                                    }
                                }
                            }
                            let mut k = 0;
                            while k < held.len() {
                                let id = held[k].0;
                                let done = sh
                                    .pins
                                    .borrow()
                                    .iter()
                                    .find(|p| p.id == id)
                                    .map(|p| p.alive_at_release.is_some() || (p.release && !p.established))
                                    .unwrap_or(true);
                                if done {
                                    held.remove(k);
                                } else {
                                    k += 1;
                                }
                            }
                            if sh.finished.get() {
                                break;
                            }
                            if !sent.is_empty() && held.is_empty() && sh.pins.borrow().iter().all(|p| p.release) {
                                break;
                            }
                            exec::sleep_ms(25).await;
                        }
                        core::future::pending::<()>().await;
                    });
                    exec::ShuffleSelect::new(subseed(seed, &[13]), shuffle, vec![s, t, r]).await
                }));
            }

            exec::run(&mut exec_rng, limits, tasks)
        }))
    };

    hub.set_adversary(None);

    let mut out = res.borrow().clone();
    match run {
        Ok(o) => {
            out.status = Some(o.status);
            out.sched_hash = o.sched_hash;
            out.end_time = o.end_time;
        }
        Err(e) => {
            out.panic = Some(crate::util::panic_msg(&e));
        }
    }
    out.datagrams = hub.tap_len() as u64;
    out.handlers = sh.handlers.borrow().clone();
    out.attempts = sh.attempts_log.borrow().clone();
    out.flood_sent = sh.flood.get().0;
    out.flood_t = sh.flood.get().1;
    for pin in sh.pins.borrow().iter() {
        out.pins.push(PinResult {
            id: pin.id,
            responder_role: pin.responder_role,
            sid: pin.sid,
            established: pin.established,
            alive_at_release: pin.alive_at_release,
            t_pin: pin.t_pin,
            t_release: pin.t_release,
        });
    }
    for (k, v) in sh.counters.borrow().iter() {
        out.bump(k, *v);
    }
    for (k, v) in sh.adv.borrow().counters.iter() {
        out.bump(k, *v);
    }
    // Busy answers of the responder (all destinations), from the tap
    let busy = hub.with_tap(|t| {
        t.iter()
            .filter(|ev| ev.dgram.src == 1 && is_busy_report(&ev.dgram.bytes))
            .count() as u64
    });
    out.bump("busy_answers_seen", busy);

    if std::env::var("RSMV_TRACE").is_ok() {
        eprintln!("--- params {:?}", p);
        hub.with_tap(|t| {
            for ev in t {
                let i = wire::peek(&ev.dgram.bytes);
                eprintln!(
                    "t={:>10} src={:>2} dst={:?} len={:>4} {:?} deliveries={:?} inj={}",
                    ev.dgram.t,
                    ev.dgram.src as i64,
                    ev.dgram.dst,
                    ev.dgram.bytes.len(),
                    i.map(|i| (i.session_id, i.ctr, i.exch_flags, i.opcode, i.exch_id, i.ack_ctr)),
                    ev.deliveries,
                    ev.injected
                );
            }
        });
        for h in &out.handlers {
            eprintln!("handler {:?}", h);
        }
        for a in &out.attempts {
            eprintln!("attempt {:?}", a);
        }
        for pr in &out.probes {
            eprintln!("probe {:?}", pr);
        }
        for pin in &out.pins {
            eprintln!("pin {:?}", pin);
        }
        for q in &out.quiesce {
            eprintln!(
                "quiesce {} rx={} tx={} sessions={:?}",
                q.role,
                q.rx_occupied,
                q.tx_occupied,
                q.sessions
                    .iter()
                    .map(|s| (s.id, format!("{:?}", s.mode), s.reserved, s.expired, s.exchanges.len()))
                    .collect::<Vec<_>>()
            );
        }
        eprintln!("counters {:?}", out.counters);
        eprintln!("status {:?} panic {:?} phase {} settle {:?}", out.status, out.panic, out.phase, out.settle_ms);
    }
    out
}

fn rng_bool(seed: u64) -> bool {
    subseed(seed, &[0x1CAC]) & 1 == 1
}
